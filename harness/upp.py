"""Problem-level bridge: wire format (lean/UPVerif/Core/Problem.lean) <-> real unified_planning Problems,
plus a seeded generator of small problems in the grammar of C01's quantifier text.

  build_problem(sexp, ctx=None) -> (Problem, Ctx)     real objects in a fresh Environment
  enc_problem(problem)          -> sexp               from a real Problem (classical/numeric fragment)
  ProblemGen(rng, ...).problem()-> sexp
  ground_instances(psexp)       -> [(action_name, [obj names])]  all well-typed instantiations

Harness code (trusted base of the correspondence checks).
"""
import warnings
from collections import OrderedDict
from fractions import Fraction
from itertools import product

warnings.simplefilter("ignore")
import unified_planning as up
from unified_planning.model import InstantaneousAction, Problem
from unified_planning.model.metrics import (MaximizeExpressionOnFinalState, MinimizeActionCosts,
                                            MinimizeExpressionOnFinalState, MinimizeSequentialPlanLength,
                                            Oversubscription)

import upx
from upx import Ctx, enc_expr, enc_ty, q2s


def get(ps, key):
    """section of a problem s-expression by head"""
    for s in ps[2:]:
        if isinstance(s, list) and s and s[0] == key:
            return s[1:]
    raise KeyError(key)


def build_problem(ps, ctx=None):
    types = [(n, None if f == "_" else f) for n, f in get(ps, "types")]
    ctx = ctx or Ctx(types)
    for n, f in types:
        ctx.add_type(n, f)
    P = Problem(ps[1], ctx.env)
    for n, t in get(ps, "objects"):
        P.add_object(ctx.obj(n, t))
    for ref, d in get(ps, "fluents"):
        fl = ctx.fluent(ref)
        if d == "_":
            P.add_fluent(fl)
        else:
            P.add_fluent(fl, default_initial_value=ctx.expr(d))
    for f, v in get(ps, "init"):
        P.set_initial_value(ctx.expr(f), ctx.expr(v))
    acts = {}
    for a in get(ps, "actions"):
        _, name, params, pre, effs = a
        act = InstantaneousAction(name, OrderedDict((pn, ctx.ty(pt)) for pn, pt in params), ctx.env)
        for c in pre[1:]:
            act.add_precondition(ctx.expr(c))
        for e in effs[1:]:
            _, kind, f, v, c, vs = e
            forall = tuple(ctx.var(n, t) for n, t in vs)
            fn = {"assign": act.add_effect, "increase": act.add_increase_effect, "decrease": act.add_decrease_effect}[kind]
            fn(ctx.expr(f), ctx.expr(v), ctx.expr(c), forall=forall)
        P.add_action(act)
        acts[name] = act
    for g in get(ps, "goals"):
        P.add_goal(ctx.expr(g))
    for t in get(ps, "traj"):
        P.add_trajectory_constraint(ctx.expr(t))
    for m in get(ps, "metrics"):
        if m[0] == "min-action-costs":
            costs = {acts[a]: ctx.expr(e) for a, e in m[1]}
            P.add_quality_metric(MinimizeActionCosts(costs, None if m[2] == "_" else ctx.expr(m[2]), ctx.env))
        elif m[0] == "min-length":
            P.add_quality_metric(MinimizeSequentialPlanLength(ctx.env))
        elif m[0] == "min-final":
            P.add_quality_metric(MinimizeExpressionOnFinalState(ctx.expr(m[1]), ctx.env))
        elif m[0] == "max-final":
            P.add_quality_metric(MaximizeExpressionOnFinalState(ctx.expr(m[1]), ctx.env))
        elif m[0] == "oversub":
            P.add_quality_metric(Oversubscription({ctx.expr(g): Fraction(w) for g, w in m[1]}, ctx.env))
        else:
            raise ValueError(m)
    return P, ctx


def enc_effect(e):
    return ["eff", "assign" if e.is_assignment() else "increase" if e.is_increase() else "decrease",
            enc_expr(e.fluent), enc_expr(e.value), enc_expr(e.condition), [[v.name, enc_ty(v.type)] for v in e.forall]]


def enc_action(a):
    return ["action", a.name, [[p.name, enc_ty(p.type)] for p in a.parameters],
            ["pre"] + [enc_expr(c) for c in a.preconditions], ["effs"] + [enc_effect(e) for e in a.effects]]


def enc_problem(P):
    types = []
    for t in P.user_types:
        types.append([t.name, t.father.name if t.father is not None else "_"])
    # fathers first
    order, names = [], set()
    while len(order) < len(types):
        for n, f in types:
            if n not in names and (f == "_" or f in names):
                order.append([n, f])
                names.add(n)
    fl = []
    for f in P.fluents:
        d = P.fluents_defaults.get(f, None)
        fl.append([[f.name, enc_ty(f.type), [enc_ty(p.type) for p in f.signature]], "_" if d is None else enc_expr(d)])
    ms = []
    for m in P.quality_metrics:
        if isinstance(m, MinimizeActionCosts):
            ms.append(["min-action-costs", [[a.name, enc_expr(c)] for a, c in m.costs.items()],
                       "_" if m.default is None else enc_expr(m.default)])
        elif isinstance(m, MinimizeSequentialPlanLength):
            ms.append(["min-length"])
        elif isinstance(m, MinimizeExpressionOnFinalState):
            ms.append(["min-final", enc_expr(m.expression)])
        elif isinstance(m, MaximizeExpressionOnFinalState):
            ms.append(["max-final", enc_expr(m.expression)])
        elif isinstance(m, Oversubscription):
            ms.append(["oversub", [[enc_expr(g), q2s(Fraction(w))] for g, w in m.goals.items()]])
        else:
            raise ValueError(f"metric {m} not in the wire format")
    return ["problem", P.name, ["types"] + order, ["objects"] + [[o.name, o.type.name] for o in P.all_objects],
            ["fluents"] + fl, ["init"] + [[enc_expr(f), enc_expr(v)] for f, v in P.explicit_initial_values.items()],
            ["actions"] + [enc_action(a) for a in P.actions], ["goals"] + [enc_expr(g) for g in P.goals],
            ["traj"] + [enc_expr(t) for t in P.trajectory_constraints], ["metrics"] + ms]


def subtypes(ps):
    fathers = {n: (None if f == "_" else f) for n, f in get(ps, "types")}

    def is_sub(t, u):
        while t is not None:
            if t == u:
                return True
            t = fathers.get(t)
        return False
    return is_sub


def objects_of(ps, tyname):
    is_sub = subtypes(ps)
    return [n for n, t in get(ps, "objects") if is_sub(t, tyname)]


# -- actual parameters -------------------------------------------------------------------------
# An actual parameter travels as the ATOM that spells it (lean/UPVerif/Core/SimTyped.lean `argExpr`): an object name
# for a user-typed formal parameter, true/false for a Boolean one, a decimal integer for an integer one, `n`
# (Python int -> Int constant) or `n/d` (Fraction -> Real constant) for a real one.

def enc_arg(c):
    """constant FNode given as an actual parameter -> atom"""
    if c.is_object_exp():
        return c.object().name
    if c.is_bool_constant():
        return "true" if c.bool_constant_value() else "false"
    if c.is_int_constant():
        return str(c.int_constant_value())
    if c.is_real_constant():
        q = Fraction(c.real_constant_value())
        return f"{q.numerator}/{q.denominator}"
    raise ValueError(f"not a constant: {c}")


def dec_arg(pt, s, obj):
    """atom -> the Python value / Object handed to ActionInstance or the simulator for a formal parameter of wire
    type `pt` (`obj(name)` builds the Object)"""
    if pt == "bool":
        return {"true": True, "false": False}[s]
    if isinstance(pt, list) and pt[0] == "int":
        return int(s)
    if isinstance(pt, list) and pt[0] == "real":
        return Fraction(s) if "/" in s else int(s)
    return obj(s)


def arg_value(pt, s):
    """atom -> pyden value of the actual parameter"""
    if pt == "bool":
        return ("b", s == "true")
    if isinstance(pt, list) and pt[0] in ("int", "real"):
        return ("n", Fraction(s))
    return ("o", s)


def sample_values(pt):
    """a few values of an action-parameter type the grounder cannot enumerate (unbounded integer, real), inside the
    bounds, both signs, integral and fractional; deterministic"""
    lo = None if pt[1] == "_" else Fraction(pt[1])
    hi = None if pt[2] == "_" else Fraction(pt[2])
    cands = ["0", "2", "-1", "5", "1", "3"] if pt[0] == "int" else ["1/2", "2", "0", "3/2", "-1", "5/2", "1"]
    ok = [c for c in cands if (lo is None or lo <= Fraction(c)) and (hi is None or Fraction(c) <= hi)]
    return ok[:4]


def param_domain(ps, pt, sampled=False):
    """values of a formal action parameter in the grounder's order (types.py domain_size / domain_item: objects in
    declaration order, [True, False], lb..ub); None = not groundable (unbounded integer, real) unless `sampled`"""
    if pt == "bool":
        return ["true", "false"]
    if pt[0] == "user":
        return objects_of(ps, pt[1])
    if pt[0] == "int" and pt[1] != "_" and pt[2] != "_":
        return [str(i) for i in range(int(pt[1]), int(pt[2]) + 1)]
    if sampled and pt[0] in ("int", "real"):
        return sample_values(pt)
    return None


def ground_instances(ps, numeric=False, sampled=False):
    """all well-typed instantiations of the actions whose parameters are user-typed (default); with `numeric` also
    Boolean / bounded-integer parameters (the instances the grounder enumerates); with `sampled` also a few values of
    unbounded-integer / real parameters (instances a plan may contain although no grounder enumerates them)"""
    out = []
    for a in get(ps, "actions"):
        doms = []
        for pn, pt in a[2]:
            d = objects_of(ps, pt[1]) if pt[0] == "user" else (param_domain(ps, pt, sampled) if numeric else None)
            if d is None:
                doms = None
                break
            doms.append(d)
        if doms is None:
            continue
        for combo in product(*doms):
            out.append((a[1], list(combo)))
    return out


# ----------------------------------------------------------------------------------------------
# generator
# ----------------------------------------------------------------------------------------------

class ProblemGen:
    """Small problems: types T > S, U; objects t1 (T), s1, s2 (S), u1 (U);
       fluents  b0, b1 : bool;  bq(T) : bool;  x : int;  xb : int[0,4];  xq(T) : int[-2,3];  z : real;  zb : real[0,5/2];
                at : T;  own(S) : T
       actions with 0-2 parameters over T/S/U, 0-3 preconditions (quantified, disjunctive, numeric), 1-4 effects
       (assign / increase / decrease, conditional, forall, Boolean delete+add pairs, same-value double assignments,
       aliasing through equal parameters), optional state invariants coupling several fluents, optional undefined
       initial values, goals, optional metric."""
    TYPES = [["T", "_"], ["S", "T"], ["U", "_"]]
    OBJECTS = [["t1", "T"], ["s1", "S"], ["s2", "S"], ["u1", "U"]]

    # types of the Boolean / integer / real ACTION parameters planted when `num_params` is on
    NUM_PTYPES = [["int", "1", "3"], ["int", "0", "2"], ["int", "-1", "1"], ["int", "1", "3"], ["int", "_", "_"],
                  ["int", "0", "_"], ["real", "0", "2"], ["real", "_", "_"], "bool", "bool"]

    def __init__(self, rng, undefined=True, invariants=True, metrics=False, quantifiers=True, big=False, num_params=0.0):
        """num_params: probability that an action also gets 1-2 Boolean / bounded or unbounded integer / real parameters
        (used in preconditions, effect values and effect conditions).  0 (default) = user-typed parameters only; no
        random number is drawn for the feature then, so the generated stream is the historic one."""
        self.rng, self.undefined, self.invariants, self.metrics = rng, undefined, invariants, metrics
        self.num_params = num_params
        U = lambda n: ["user", n]
        self.FL = {
            "b0": ["b0", "bool", []], "b1": ["b1", "bool", []], "bq": ["bq", "bool", [U("T")]],
            "x": ["x", ["int", "_", "_"], []], "xb": ["xb", ["int", "0", "4"], []], "xq": ["xq", ["int", "-2", "3"], [U("T")]],
            "z": ["z", ["real", "_", "_"], []], "zb": ["zb", ["real", "0", "5/2"], []],
            "at": ["at", U("T"), []], "own": ["own", U("T"), [U("S")]],
        }
        self.eg = upx.ExprGen(rng, big=big, quantifiers=quantifiers, ifuns=False, params=False)
        self.eg.bool_fl = [self.FL["b0"], self.FL["b1"], self.FL["bq"]]
        self.eg.int_fl = [self.FL["x"], self.FL["xb"], self.FL["xq"]]
        self.eg.real_fl = [self.FL["z"], self.FL["zb"]]
        self.eg.obj_fl = [self.FL["at"], self.FL["own"]]
        self.eg.OBJECTS = [tuple(o) for o in self.OBJECTS]
        self.eg.TYPES = [tuple(t) for t in self.TYPES]

    # object-typed term of type tyname usable inside an action with parameters `params`
    def term(self, tyname, params, scope=()):
        r = self.rng
        sub = {"T": ["t1", "s1", "s2"], "S": ["s1", "s2"], "U": ["u1"]}[tyname]
        opts = [["o", o, dict(map(tuple, self.OBJECTS))[o]] for o in sub]
        for pn, pt in params:
            if pt == ["user", tyname] or (tyname == "T" and pt == ["user", "S"]):
                opts += [["p", pn, pt]] * 3
        for vn, vt in scope:
            if vt == ["user", tyname] or (tyname == "T" and vt == ["user", "S"]):
                opts += [["v", vn, vt]] * 4
        return r.choice(opts)

    def fluent_exp(self, name, params, scope=()):
        ref = self.FL[name]
        return ["fl", ref] + [self.term(t[1], params, scope) for t in ref[2]]

    def value_for(self, name, params, scope, depth=1):
        r = self.rng
        ty = self.FL[name][1]
        if ty == "bool":
            k = r.random()
            if k < 0.8:
                return ["b", r.choice(["T", "F"])]
            return self.cond(params, scope, 1)
        if ty[0] == "int":
            k = r.random()
            if k < 0.6:
                return ["i", str(r.choice([0, 1, 1, 2, 3, -1, 5]))]
            return self.num(params, scope, depth, real_ok=False)
        if ty[0] == "real":
            k = r.random()
            if k < 0.5:
                return r.choice([["i", "1"], ["r", "1/2"], ["r", "3/2"], ["i", "0"], ["i", "2"], ["r", "1/10"], ["r", "3/10"]])
            return self.num(params, scope, depth, real_ok=True)
        return self.term(ty[1], params, scope)

    def _subst_params(self, e, params, scope):
        """ExprGen does not know the action's parameters: rewrite some object constants into parameters/variables"""
        r = self.rng
        if isinstance(e, list) and e and e[0] == "o":
            cands = [["p", pn, pt] for pn, pt in params if pt == ["user", e[2]] or (e[2] == "S" and pt == ["user", "T"] and False)]
            cands += [["v", vn, vt] for vn, vt in scope if vt == ["user", e[2]]]
            if cands and r.random() < 0.5:
                return r.choice(cands)
            return e
        if isinstance(e, list):
            if e and e[0] in ("fl", "ifun"):
                return [e[0], e[1]] + [self._subst_params(a, params, scope) for a in e[2:]]
            if e and e[0] in ("exists", "forall"):
                return [e[0], e[1], self._subst_params(e[2], params, scope)]
            if e and e[0] in ("b", "i", "r", "p", "v"):
                return e
            return [e[0]] + [self._subst_params(a, params, scope) for a in e[1:]]
        return e

    def cond(self, params, scope=(), depth=2):
        return self._subst_params(self.eg.boolean(depth, tuple((n, t) for n, t in scope)), params, scope)

    def num(self, params, scope=(), depth=1, real_ok=True):
        e = self.eg.num(depth, tuple((n, t) for n, t in scope), real_ok)
        return self._subst_params(e, params, scope)

    def effect(self, params):
        r = self.rng
        scope = []
        if r.random() < 0.25:
            scope = [["w", ["user", r.choice(["T", "S", "S"])]]]
        name = r.choice(["b0", "b1", "bq", "bq", "x", "xb", "xq", "xq", "z", "zb", "at", "own"])
        ty = self.FL[name][1]
        f = self.fluent_exp(name, params, scope)
        kind = "assign"
        if ty != "bool" and ty[0] in ("int", "real") and r.random() < 0.5:
            kind = r.choice(["increase", "decrease"])
        v = self.value_for(name, params, scope)
        if kind != "assign":
            v = ["i", str(r.choice([1, 1, 2, 3]))] if ty[0] == "int" or r.random() < 0.5 else ["r", r.choice(["1/2", "3/2", "1/10", "1/5"])]
        c = ["b", "T"] if r.random() < 0.55 else self.cond(params, scope, 1)
        # the real Effect keeps only the forall variables that occur free in fluent/value/condition
        import sexp as _sx
        used = _sx.dumps([f, v, c])
        scope = [sv for sv in scope if _sx.dumps(["v", sv[0], sv[1]]) in used]
        return ["eff", kind, f, v, c, scope]

    def action(self, i):
        r = self.rng
        npar = r.choice([0, 0, 1, 1, 2])
        params = [[f"p{j}", ["user", r.choice(["T", "S", "S", "U"])]] for j in range(npar)]
        pre = [self.cond(params, (), r.choice([1, 2])) for _ in range(r.choice([0, 1, 1, 2]))]
        effs = []
        for _ in range(r.choice([1, 2, 2, 3, 4])):
            e = self.effect(params)
            effs.append(e)
            k = r.random()
            if k < 0.12 and self.FL[e[2][1][0]][1] == "bool":      # delete + add pair on one Boolean fluent
                effs.append(["eff", "assign", e[2], ["b", "T" if e[3] == ["b", "F"] else "F"],
                             ["b", "T"] if r.random() < 0.5 else self.cond(params, e[5], 1), e[5]])
            elif k < 0.2 and e[1] == "assign" and e[4] != ["b", "T"]:   # same-value conditional double assignment
                effs.append(["eff", "assign", e[2], e[3], self.cond(params, e[5], 1), e[5]])
            elif k < 0.3 and e[1] != "assign":                        # accumulate on one fluent
                effs.append(["eff", r.choice(["increase", "decrease"]), e[2], e[3], e[4], e[5]])
        if self.num_params and r.random() < self.num_params:
            params, pre, effs = self._plant_num_params(params, pre, effs)
        return ["action", f"a{i}", params, ["pre"] + pre, ["effs"] + effs]

    def _plant_num_params(self, params, pre, effs):
        """1-2 Boolean / integer / real parameters, each used 1-3 times: in a precondition, as (part of) the value of
        an effect, in the condition of an effect.  Typing follows model/types.py is_compatible_type: an integer
        parameter may be written to integer and real fluents, a real parameter to real fluents only."""
        r = self.rng
        FL = self.FL
        I = lambda n: ["i", str(n)]
        new = [[f"k{j}", r.choice(self.NUM_PTYPES)] for j in range(r.choice([1, 1, 2]))]
        params = [list(p) for p in params]
        for np_ in new:
            params.insert(r.randint(0, len(params)), np_)       # before, between or after the user-typed ones
        pre, effs = list(pre), [list(e) for e in effs]
        tt = ["b", "T"]

        def fluent_kind(e):
            ty = e[2][1][1]
            return "bool" if ty == "bool" else ty[0] if isinstance(ty, list) else "obj"

        for pn, pt in new:
            P = ["p", pn, pt]
            isbool = pt == "bool"
            isreal = (not isbool) and pt[0] == "real"
            for _ in range(r.choice([1, 1, 2, 2, 3])):
                where = r.choice(["pre", "value", "value", "cond"])
                if where == "pre":
                    if isbool:
                        pre.append(r.choice([P, ["or", P, ["fl", FL["b0"]]], ["not", P], ["implies", P, ["fl", FL["b1"]]],
                                             ["iff", P, ["fl", FL["b0"]]]]))
                    else:
                        pre.append(r.choice([["le", P, ["fl", FL["xb"]]], ["lt", ["fl", FL["x"]], ["plus", P, I(2)]],
                                             ["le", P, I(r.choice([0, 1, 2]))], ["not", ["eq", P, I(1)]],
                                             ["le", ["times", P, I(2)], ["plus", ["fl", FL["xb"]], I(3)]]]))
                elif where == "cond":
                    j = r.randrange(len(effs))
                    if isbool:
                        c = r.choice([P, ["not", P], ["or", P, ["fl", FL["b1"]]]])
                    else:
                        c = r.choice([["lt", P, I(2)], ["le", ["fl", FL["xb"]], P], ["eq", P, I(1)], ["le", I(1), P]])
                    effs[j][4] = c if effs[j][4] == tt or r.random() < 0.5 else ["and", c, effs[j][4]]
                else:
                    want = ("bool",) if isbool else ("real",) if isreal else ("int", "real")
                    cands = [j for j, e in enumerate(effs) if fluent_kind(e) in want]
                    if cands and r.random() < 0.7:
                        j = r.choice(cands)
                        old = effs[j][3]
                    else:
                        if isbool:
                            f = self.fluent_exp(r.choice(["b0", "b1", "bq"]), [q for q in params if q[1] != "bool" and q[1][0] == "user"])
                            kind = "assign"
                        else:
                            f = ["fl", FL[r.choice(["z", "zb"] if isreal else ["x", "x", "xb", "z"])]]
                            kind = r.choice(["assign", "increase", "increase", "decrease"])
                        effs.append(["eff", kind, f, tt, tt if r.random() < 0.7 else self.cond(
                            [q for q in params if q[1] != "bool" and q[1][0] == "user"], (), 1), []])
                        j, old = len(effs) - 1, None
                    if isbool:
                        v = r.choice([P, P, ["not", P], ["and", P, ["fl", FL["b1"]]]])
                    elif isreal:
                        v = r.choice([P, P, ["plus", P, ["r", "1/2"]], ["times", P, ["fl", FL["zb"]]], ["div", P, I(2)]])
                    else:
                        v = r.choice([P, P, ["plus", P, I(1)], ["times", I(2), P], ["times", P, ["fl", FL["xb"]]],
                                      ["minus", I(3), P]])
                    if old is not None and not isbool and old[0] in ("i", "r") and r.random() < 0.3:
                        v = ["plus", v, old]
                    effs[j][3] = v
        return params, pre, effs

    def const_for(self, ref):
        r = self.rng
        ty = ref[1]
        if ty == "bool":
            return ["b", r.choice(["T", "F"])]
        if ty[0] == "int":
            lo = int(ty[1]) if ty[1] != "_" else -1
            hi = int(ty[2]) if ty[2] != "_" else 3
            return ["i", str(r.randint(lo, hi))]
        if ty[0] == "real":
            lo = Fraction(ty[1]) if ty[1] != "_" else Fraction(-1)
            hi = Fraction(ty[2]) if ty[2] != "_" else Fraction(3)
            q = lo + (hi - lo) * Fraction(r.randint(0, 4), 4)
            return ["i", str(q.numerator)] if q.denominator == 1 else ["r", q2s(q)]
        objs = {"T": ["t1", "s1", "s2"], "S": ["s1", "s2"], "U": ["u1"]}[ty[1]]
        o = r.choice(objs)
        return ["o", o, dict(map(tuple, self.OBJECTS))[o]]

    def problem(self, name="p"):
        r = self.rng
        fluents, init = [], []
        for n, ref in self.FL.items():
            undefined = self.undefined and r.random() < 0.08
            if undefined:
                fluents.append([ref, "_"])
                continue
            if r.random() < 0.7:
                fluents.append([ref, self.const_for(ref)])
            else:
                fluents.append([ref, "_"])
                doms = [{"T": ["t1", "s1", "s2"], "S": ["s1", "s2"], "U": ["u1"]}[t[1]] for t in ref[2]]
                for combo in product(*doms):
                    args = [["o", o, dict(map(tuple, self.OBJECTS))[o]] for o in combo]
                    init.append([["fl", ref] + args, self.const_for(ref)])
        actions = [self.action(i) for i in range(r.choice([1, 2, 3]))]
        # drop structurally rejected actions later (builder raises): callers catch
        goals = [self.cond([], (), r.choice([1, 2])) for _ in range(r.choice([0, 1, 1, 2]))]
        traj = []
        if self.invariants and r.random() < 0.5:
            k = r.random()
            if k < 0.4 and getattr(self, "nested_invariants", True):
                # invariants that read a fluent THROUGH another fluent (the ground fluent they constrain depends on the state)
                if r.random() < 0.5:
                    traj.append(["always", ["fl", self.FL["bq"], ["fl", self.FL["at"]]]])
                else:
                    traj.append(["always", ["forall", [["k", ["user", "S"]]],
                                            ["le", ["fl", self.FL["xq"], ["fl", self.FL["own"], ["v", "k", ["user", "S"]]]], ["i", "2"]]]])
            elif k < 0.4:
                traj.append(["always", ["le", ["plus", ["fl", self.FL["x"]], ["fl", self.FL["xb"]]], ["i", str(r.choice([3, 5, 8]))]]])
            elif k < 0.7:
                traj.append(["always", ["or", ["fl", self.FL["b0"]], ["not", ["fl", self.FL["b1"]]]]])
            else:
                traj.append(["always", ["forall", [["k", ["user", "S"]]], ["le", ["fl", self.FL["xq"], ["v", "k", ["user", "S"]]], ["i", "2"]]]])
        metrics = []
        if self.metrics:
            k = r.random()
            if k < 0.3:
                costs = []
                for a in actions:
                    if r.random() < 0.7:
                        costs.append([a[1], r.choice([["i", "1"], ["i", "3"], ["r", "1/2"],
                                                      ["plus", ["fl", self.FL["xb"]], ["i", "1"]],
                                                      ["fl", self.FL["xq"], ["p", a[2][0][0], a[2][0][1]]] if a[2] and a[2][0][1][1] in ("T", "S") else ["i", "2"]])])
                metrics.append(["min-action-costs", costs, r.choice(["_", ["i", "1"], ["i", "0"]])])
            elif k < 0.45:
                metrics.append(["min-length"])
            elif k < 0.65:
                metrics.append([r.choice(["min-final", "max-final"]), self.num([], (), 1)])
            elif k < 0.85:
                metrics.append(["oversub", [[self.cond([], (), 1), r.choice(["1", "2", "5/2", "3"])] for _ in range(r.choice([1, 2, 3]))]])
        return ["problem", name, ["types"] + self.TYPES, ["objects"] + self.OBJECTS, ["fluents"] + fluents,
                ["init"] + init, ["actions"] + actions, ["goals"] + goals, ["traj"] + traj, ["metrics"] + metrics]
