"""Shared helper code of the compiler soundness / completeness checks (properties C06 and C07).

  COMPILERS              name -> factory of the REAL compiler (the ten of the statements + pipelines of them)
  gen_case(rng, comp)    -> payload ["case", comp, depth, problem-sexp] inside the compiler's supported kind
  analyse(payload)       -> Analysis: the end-to-end differential on the real code
       C06: every plan of the REAL compiled problem up to length k (exhaustive, real simulator), mapped back with the
            REAL CompilerResult, must be valid for the ORIGINAL problem (real simulator / SequentialPlanValidator;
            trajectory constraints by their PDDL3 semantics over the state sequence)
       C07: every valid plan of the original up to length k must have a compiled plan of length <= k (+1 when the
            compilation adds goal actions) mapping back to the same instance sequence
  variants(payload)      -> canonical view of the real compiled problem for the modelled compilers (model correspondence)

Harness code (trusted base of the correspondence checks).  Never imports the Lean model's answers.
"""
import signal
import warnings
from collections import OrderedDict
from fractions import Fraction
from itertools import product

warnings.simplefilter("ignore")
import unified_planning as up
from unified_planning.engines import UPSequentialSimulator, SequentialPlanValidator
from unified_planning.engines.compilers import (BoundedTypesRemover, ConditionalEffectsRemover,
                                                DisjunctiveConditionsRemover, Grounder, NegativeConditionsRemover,
                                                QuantifiersRemover, StateInvariantsRemover,
                                                TrajectoryConstraintsRemover, UndefinedInitialNumericRemover)
from unified_planning.engines.compilers.usertype_fluents_remover import UsertypeFluentsRemover
from unified_planning.engines.compilers.compilers_pipeline import CompilersPipeline
from unified_planning.engines.results import ValidationResultStatus
from unified_planning.model.walkers import StateEvaluator
from unified_planning.plans import ActionInstance, SequentialPlan

import sexp
import simlib
import upp
import upx

# ------------------------------------------------------------------------------------------------
# the compilers of the statements
# ------------------------------------------------------------------------------------------------

SINGLE = OrderedDict([
    ("grounder", lambda: Grounder()),
    ("cer", lambda: ConditionalEffectsRemover()),
    ("dcr", lambda: DisjunctiveConditionsRemover()),
    ("ncr", lambda: NegativeConditionsRemover()),
    ("qr", lambda: QuantifiersRemover()),
    ("utf", lambda: UsertypeFluentsRemover()),
    ("btr", lambda: BoundedTypesRemover()),
    ("sir", lambda: StateInvariantsRemover()),
    ("tcr", lambda: TrajectoryConstraintsRemover()),
    ("uin", lambda: UndefinedInitialNumericRemover()),
])
PIPES = OrderedDict([
    ("pipe:qr+cer", ["qr", "cer"]),
    ("pipe:qr+dcr", ["qr", "dcr"]),
    ("pipe:sir+btr", ["sir", "btr"]),
    ("pipe:grounder+cer", ["grounder", "cer"]),
    ("pipe:qr+cer+dcr+ncr", ["qr", "cer", "dcr", "ncr"]),
    ("pipe:utf+qr", ["utf", "qr"]),
])
COMPILERS = list(SINGLE) + list(PIPES)
# the compilers that have a Lean model (Core/Compile/*.lean); the others are covered by the end-to-end part only
MODELLED = ["cer", "dcr", "sir", "btr", "qr", "grounder", "ncr"]


def make_compiler(name):
    if name in SINGLE:
        return SINGLE[name]()
    return CompilersPipeline([SINGLE[n]() for n in PIPES[name]])


def supports(name, P):
    """is the problem inside the supported kind of the compiler (for a pipeline: of its first stage; later stages
    are checked by the pipeline itself and a refusal there is a skip)"""
    first = name if name in SINGLE else PIPES[name][0]
    return SINGLE[first]().supports(P.kind)


class Skip(Exception):
    pass


class Timeout(Exception):
    pass


class watchdog:
    """a mutated /repo can loop forever: bound every real-code run"""

    def __init__(self, seconds):
        self.s = seconds

    def __enter__(self):
        def h(signum, frame):
            raise Timeout()
        self.old = signal.signal(signal.SIGALRM, h)
        signal.alarm(self.s)

    def __exit__(self, *a):
        signal.alarm(0)
        signal.signal(signal.SIGALRM, self.old)
        return False


# ------------------------------------------------------------------------------------------------
# generation
# ------------------------------------------------------------------------------------------------

# what each compiler's supported kind admits (read off supported_kind(); supports() is the final filter)
PROFILE = {
    #            numeric quant  forallE inv    traj   undef  objfl
    "grounder": (True, True, True, True, True, False, True),
    "cer":      (True, True, True, True, False, False, True),
    "dcr":      (True, True, True, False, False, False, True),
    "ncr":      (True, True, True, True, True, False, True),
    "qr":       (True, True, True, True, True, False, True),
    "utf":      (True, True, True, True, True, False, True),
    "btr":      (True, True, True, True, False, False, True),
    "sir":      (True, True, True, True, True, False, True),
    "tcr":      (False, True, False, True, True, False, True),
    "uin":      (True, True, False, False, False, True, True),
}


class CGen(upp.ProblemGen):
    """upp.ProblemGen (the C01 grammar) restricted to a compiler's supported kind, plus trajectory constraints, plus the
    shapes the compilers split on: several conditional effects per action, conditional effects conflicting with an
    unconditional one, disjunctive effect conditions on increase effects, Boolean delete+add, negated Boolean fluents in
    conditions, static Boolean preconditions over parameters."""

    def __init__(self, rng, comp):
        first = comp if comp in SINGLE else PIPES[comp][0]
        prof = PROFILE[first]
        if comp in PIPES:
            for n in PIPES[comp][1:]:
                prof = tuple(a and b for a, b in zip(prof, PROFILE[n]))
            if "sir" in PIPES[comp] or "tcr" in PIPES[comp]:
                pass
        self.comp = comp
        self.numeric, self.quant, self.forall_eff, self.inv, self.trajc, self.undef, self.objfl = prof
        if comp == "pipe:sir+btr":
            self.inv, self.trajc = True, False
        if comp == "pipe:qr+cer":
            self.inv = True
        upp.ProblemGen.__init__(self, rng, undefined=self.undef, invariants=self.inv, metrics=False,
                                quantifiers=self.quant, big=False)
        self.eg.empty_type = False
        if not self.numeric:
            self.eg.int_fl, self.eg.real_fl = [], []
        names = ["b0", "b1", "bq", "bq"]
        if self.numeric:
            names += ["x", "xb", "xq", "xq", "z", "zb"]
        if self.objfl:
            names += ["at", "own"]
        # static Boolean preconditions over parameters (what GrounderHelper prunes on): bq is never written
        self.static_bq = ("grounder" in chain(comp)) and rng.random() < 0.6
        if self.static_bq:
            names = [n for n in names if n != "bq"]
        self.eff_names = names
        if not self.numeric:
            for n in ("x", "xb", "xq", "z", "zb"):
                del self.FL[n]
            # ExprGen.boolean falls back on numeric comparisons: cut them
            eg = self.eg
            orig = eg.boolean

            def boolean(depth, scope=()):
                for _ in range(40):
                    try:
                        e = orig(depth, scope)
                    except IndexError:
                        continue
                    s = sexp.dumps(e)
                    if "(le " not in s and "(lt " not in s and "(i " not in s and "(r " not in s:
                        return e
                return ["fl", self.FL["b0"]]
            eg.boolean = boolean

    def simple_cond(self, params, scope=()):
        """a literal / small disjunction over Boolean fluents (what the splitting compilers case on)"""
        r = self.rng
        k = r.random()
        lit = lambda: (lambda f: f if r.random() < 0.6 else ["not", f])(
            self.fluent_exp(r.choice(["b0", "b1", "bq"]), params, scope))
        if k < 0.5:
            return lit()
        if k < 0.75:
            return ["or", lit(), lit()]
        if k < 0.85 and self.numeric:
            return [r.choice(["le", "lt"]), ["fl", self.FL[r.choice(["x", "xb"])]], ["i", str(r.choice([0, 1, 2]))]]
        return ["and", lit(), lit()]

    def cond(self, params, scope=(), depth=2):
        if self.rng.random() < 0.45:
            return self.simple_cond(params, scope)
        return upp.ProblemGen.cond(self, params, scope, depth)

    def effect(self, params):
        r = self.rng
        scope = []
        if self.forall_eff and r.random() < 0.2:
            scope = [["w", ["user", r.choice(["T", "S", "S"])]]]
        name = r.choice(self.eff_names)
        ty = self.FL[name][1]
        f = self.fluent_exp(name, params, scope)
        kind = "assign"
        if ty != "bool" and ty[0] in ("int", "real") and r.random() < 0.5:
            kind = r.choice(["increase", "decrease"])
        if scope and kind == "assign" and sexp.dumps(["v", scope[0][0], scope[0][1]]) not in sexp.dumps(f):
            # `forall w. f := e(w)` assigns several values to one fluent (never applicable): keep forall assignments
            # to targets that mention the variable
            scope = []
            f = self.fluent_exp(name, params, scope)
        v = self.value_for(name, params, scope)
        if kind != "assign":
            v = ["i", str(r.choice([1, 1, 2, 3]))] if ty[0] == "int" or r.random() < 0.5 else ["r", r.choice(["1/2", "3/2"])]
        c = ["b", "T"] if r.random() < 0.5 else self.cond(params, scope, 1)
        used = sexp.dumps([f, v, c])
        scope = [sv for sv in scope if sexp.dumps(["v", sv[0], sv[1]]) in used]
        return ["eff", kind, f, v, c, scope]

    def value_for(self, name, params, scope, depth=1):
        if not self.numeric and self.FL[name][1] == "bool" and self.rng.random() >= 0.8:
            # a fluent-valued Boolean assignment
            return self.fluent_exp(self.rng.choice(["b0", "b1", "bq"]), params, scope)
        return upp.ProblemGen.value_for(self, name, params, scope, depth)

    def action(self, i):
        r = self.rng
        a = upp.ProblemGen.action(self, i)
        params, effs = a[2], a[4][1:]
        k = r.random()
        if k < 0.2:
            # a conditional assignment next to an unconditional one on the same fluent (D-C06a shape)
            for e in list(effs):
                if e[1] == "assign" and e[4] == ["b", "T"] and not e[5]:
                    name = e[2][1][0]
                    v2 = self.value_for(name, params, [])
                    effs.append(["eff", "assign", e[2], v2, self.simple_cond(params), []])
                    break
        elif k < 0.3 and self.numeric:
            # disjunctive condition on an increase (D-C06b shape)
            x = ["fl", self.FL[r.choice(["x", "xb"])]]
            effs.append(["eff", r.choice(["increase", "decrease"]), x, ["i", "1"],
                         ["or", self.fluent_exp("b0", params), self.fluent_exp(r.choice(["b1", "bq"]), params)], []])
        elif k < 0.4:
            # Boolean delete, then conditional add (D-C06c shape)
            f = self.fluent_exp(r.choice(["b0", "b1", "bq"]), params)
            effs.append(["eff", "assign", f, ["b", "F"], ["b", "T"], []])
            effs.append(["eff", "assign", f, ["b", "T"], self.simple_cond(params), []])
        pre = a[3][1:]
        if self.static_bq:
            effs = [e for e in effs if e[2][1][0] != "bq"] or effs[:0] + [["eff", "assign", ["fl", self.FL["b0"]], ["b", "T"], ["b", "T"], []]]
            for pn, pt in params:
                if pt[1] in ("T", "S") and r.random() < 0.8:
                    pre.append(["fl", self.FL["bq"], ["p", pn, pt]])
        if r.random() < 0.3:
            pre.append(["not", self.fluent_exp(r.choice(["b0", "b1", "bq"]), params)])
        return ["action", a[1], params, ["pre"] + pre, ["effs"] + effs[:5]]

    def traj_constraints(self):
        r = self.rng
        out = []
        if not self.trajc:
            return out
        n = r.choice([0, 1, 1, 2])
        objty = dict(map(tuple, self.OBJECTS))

        def batom():
            if r.random() < 0.6:
                f = ["fl", self.FL[r.choice(["b0", "b1"])]]
            else:
                o = r.choice(["t1", "s1", "s2"])
                f = ["fl", self.FL["bq"], ["o", o, objty[o]]]
            return f if r.random() < 0.7 else ["not", f]

        def phi():
            k = r.random()
            if k < 0.6:
                return batom()
            if k < 0.8:
                return ["or", batom(), batom()]
            return ["and", batom(), batom()]
        for _ in range(n):
            k = r.random()
            if k < 0.25:
                out.append(["sometime", phi()])
            elif k < 0.45:
                out.append(["at-most-once", phi()])
            elif k < 0.65:
                out.append(["sometime-before", phi(), phi()])
            elif k < 0.85:
                out.append(["sometime-after", phi(), phi()])
            elif k < 0.93:
                out.append(["always", phi()])
            else:
                v = ["k", ["user", "S"]]
                out.append(["forall", [v], [r.choice(["sometime", "at-most-once"]), ["fl", self.FL["bq"], ["v", "k", ["user", "S"]]]]])
        return out

    def problem(self, name="p"):
        if not self.numeric:
            self.invariants = False      # ProblemGen's own invariants are numeric
        ps = upp.ProblemGen.problem(self, name)
        if self.static_bq and self.rng.random() < 0.85:
            # a static Boolean fluent that is TRUE by default and explicitly FALSE for some objects
            fl = [[ref, (["b", "T"] if ref[0] == "bq" else d)] for ref, d in upp.get(ps, "fluents")]
            init = [i for i in upp.get(ps, "init") if i[0][1][0] != "bq"]
            objty = dict(map(tuple, self.OBJECTS))
            for o in ("t1", "s1", "s2"):
                if self.rng.random() < 0.35:
                    init.append([["fl", self.FL["bq"], ["o", o, objty[o]]], ["b", "F"]])
            for j, sec in enumerate(ps):
                if isinstance(sec, list) and sec and sec[0] == "fluents":
                    ps[j] = ["fluents"] + fl
                elif isinstance(sec, list) and sec and sec[0] == "init":
                    ps[j] = ["init"] + init
        for j, sec in enumerate(ps):
            if isinstance(sec, list) and sec and sec[0] == "traj":
                tr = sec[1:]
                if self.inv and self.rng.random() < 0.3:
                    try:
                        tr = tr + simlib.extra_invariants(self.rng, self)
                    except KeyError:
                        pass
                ps[j] = ["traj"] + tr + self.traj_constraints()
        if self.trajc and self.rng.random() < 0.3:
            self._plant_interval_shape(ps)
        return ps

    def _plant_interval_shape(self, ps):
        """a trajectory constraint whose condition stays TRUE over consecutive steps of actions that write its fluents
        (re-asserting an atom that already holds, making the second disjunct of `a or b` true while the first still holds):
        at-most-once must count ONE interval, sometime-before/after must not be re-triggered (seeded change C07-1)"""
        r = self.rng
        A, B = ["fl", self.FL["b0"]], ["fl", self.FL["b1"]]
        phi = r.choice([A, ["or", A, B], ["or", A, B], ["and", A, B], ["not", ["and", ["not", A], ["not", B]]]])
        tc = r.choice([["at-most-once", phi], ["at-most-once", phi], ["sometime-before", phi, ["not", B]],
                       ["sometime-after", phi, A], ["sometime", ["and", A, B]]])
        extra = [["action", "ra", [], ["pre"], ["effs", ["eff", "assign", A, ["b", "T"], ["b", "T"], []]]],
                 ["action", "rb", [], ["pre"], ["effs", ["eff", "assign", B, ["b", "T"], ["b", "T"], []]]]]
        if r.random() < 0.4:
            extra.append(["action", "rc", [], ["pre", A], ["effs", ["eff", "assign", A, ["b", "F"], ["b", "T"], []]]])
        for j, sec in enumerate(ps):
            if isinstance(sec, list) and sec and sec[0] == "traj":
                ps[j] = sec + [tc]
            elif isinstance(sec, list) and sec and sec[0] == "actions":
                ps[j] = sec[:3] + extra      # keep at most two generated actions: the search depth is small
            elif isinstance(sec, list) and sec and sec[0] == "init":
                keep = [i for i in sec[1:] if i[0] not in (A, B)]
                ps[j] = ["init"] + keep + [[A, ["b", r.choice("FFT")]], [B, ["b", "F"]]]


def _forall_var_vanishes(P):
    """a forall effect whose bound variable no longer occurs once fluent / value / condition are simplified: the
    simulator's grounding (create_effect_with_given_subs + Effect.__init__) then drops the quantifier, i.e. the
    multiplicity of the instances (C01's reading of the grounder contract); kept out"""
    fve = P.environment.free_vars_oracle
    for a in P.actions:
        for e in a.effects:
            if e.is_forall():
                free = set()
                for x in (e.fluent, e.value.simplify(), e.condition.simplify()):
                    free |= set(fve.get_free_variables(x))
                if not all(v in free for v in e.forall):
                    return True
    return False


def _initial_ok(P):
    sim = UPSequentialSimulator(P, error_on_failed_checks=False)
    try:
        sim.get_initial_state()
    except up.exceptions.UPProblemDefinitionError:
        return False
    return True


def relevant(comp, P):
    """does the problem contain what the compiler removes?"""
    k = P.kind
    first = comp if comp in SINGLE else PIPES[comp][0]
    if first == "cer":
        return k.has_conditional_effects()
    if first == "dcr":
        return k.has_disjunctive_conditions() or k.has_existential_conditions() or any(
            e.is_conditional() for a in P.actions for e in a.effects)
    if first == "ncr":
        return k.has_negative_conditions()
    if first == "qr":
        return k.has_existential_conditions() or k.has_universal_conditions() or k.has_forall_effects()
    if first == "utf":
        return k.has_object_fluents()
    if first == "btr":
        return k.has_bounded_types()
    if first == "sir":
        return k.has_state_invariants()
    if first == "tcr":
        return k.has_trajectory_constraints() or k.has_state_invariants()
    if first == "uin":
        return k.has_undefined_initial_numeric()
    return True


def pick_goal(rng, P, ps, depth):
    """replace the goals by a condition that holds in some state reachable within `depth` steps (so that valid plans
    exist): a conjunction of 1-2 literals / comparisons read off that state"""
    ex = Explorer(P)
    if ex.init is None:
        return None
    ex.explore(depth, 40)
    keys = list(ex.states)
    if not keys:
        return None
    far = [k for k in keys if ex.depth[k] >= 1] or keys
    target = rng.choice(far)
    st = ex.states[target]
    lits = []
    for fe in ex.key_exps:
        try:
            v = st.get_value(fe)
        except Exception:
            continue
        e = upx.enc_expr(fe)
        if v.is_bool_constant():
            lits.append(e if v.bool_constant_value() else ["not", e])
        elif v.is_int_constant() or v.is_real_constant():
            c = upx.enc_expr(v)
            lits.append(rng.choice([["le", e, c], ["le", c, e], ["eq", e, c]]))
        elif v.is_object_exp():
            lits.append(["eq", e, upx.enc_expr(v)])
    if not lits:
        return None
    n = rng.choice([1, 1, 2])
    goal = rng.sample(lits, min(n, len(lits)))
    return goal


def gen_case(rng, comp, depth):
    """one case inside the supported kind of `comp`, or None"""
    g = CGen(rng, comp)
    ps = g.problem()
    flags = {}
    ps = simlib.normalise_problem(ps, flags)
    if flags.get("exists-eq") and not simlib.SIMPLIFIER_REPAIRED:
        return None
    try:
        P, _ = upp.build_problem(ps)
    except Exception:
        return None
    try:
        if not supports(comp, P) or not relevant(comp, P) or not _initial_ok(P) or _forall_var_vanishes(P):
            return None
    except Exception:
        return None
    if rng.random() < 0.8:
        try:
            with watchdog(10):
                goal = pick_goal(rng, P, ps, depth)
        except Exception:
            goal = None
        if goal is not None:
            if g.numeric is False:
                goal = [x for x in goal if x[0] not in ("le", "eq") or x[0] == "eq" and x[2][0] == "o"] or goal
            keep = [x for x in upp.get(ps, "goals")] if rng.random() < 0.25 else []
            for j, sec in enumerate(ps):
                if isinstance(sec, list) and sec and sec[0] == "goals":
                    ps[j] = ["goals"] + keep + goal
            try:
                P, _ = upp.build_problem(ps)
                if not supports(comp, P) or not relevant(comp, P):
                    return None
            except Exception:
                return None
    try:
        canon = upp.enc_problem(P)
        P2, _ = upp.build_problem(canon)       # the stored (simplified) trajectory constraints must still be well-formed
        if upp.enc_problem(P2) != canon:
            return None
    except Exception:
        return None
    return ["case", comp, str(depth), canon]


def shrink_case(payload):
    """smaller candidate payloads (greedy minimisation): drop an action / effect / precondition / goal / constraint,
    make an effect unconditional, replace a compound condition by one of its arguments"""
    _, comp, depth, ps = payload
    secs = {s[0]: (i, s) for i, s in enumerate(ps) if isinstance(s, list) and s}

    def with_sec(name, new):
        out = list(ps)
        out[secs[name][0]] = [name] + new
        return out

    def subexprs(e):
        if isinstance(e, list) and e and e[0] in ("and", "or", "not", "implies", "iff"):
            return [a for a in e[1:]]
        if isinstance(e, list) and e and e[0] in ("exists", "forall"):
            return []
        return []
    acts = secs["actions"][1][1:]
    cands = []
    for i in range(len(acts)):
        if len(acts) > 1:
            cands.append(with_sec("actions", acts[:i] + acts[i + 1:]))
    for i, a in enumerate(acts):
        effs, pre = a[4][1:], a[3][1:]
        rep = lambda a2: with_sec("actions", acts[:i] + [a2] + acts[i + 1:])
        for j in range(len(effs)):
            if len(effs) > 1:
                cands.append(rep(["action", a[1], a[2], a[3], ["effs"] + effs[:j] + effs[j + 1:]]))
        for j in range(len(pre)):
            cands.append(rep(["action", a[1], a[2], ["pre"] + pre[:j] + pre[j + 1:], a[4]]))
            for sub in subexprs(pre[j]):
                cands.append(rep(["action", a[1], a[2], ["pre"] + pre[:j] + [sub] + pre[j + 1:], a[4]]))
        for j, e in enumerate(effs):
            if e[4] != ["b", "T"]:
                e2 = ["eff", e[1], e[2], e[3], ["b", "T"], e[5]]
                cands.append(rep(["action", a[1], a[2], a[3], ["effs"] + effs[:j] + [e2] + effs[j + 1:]]))
                for sub in subexprs(e[4]):
                    e2 = ["eff", e[1], e[2], e[3], sub, e[5]]
                    cands.append(rep(["action", a[1], a[2], a[3], ["effs"] + effs[:j] + [e2] + effs[j + 1:]]))
    for name in ("goals", "traj"):
        items = secs[name][1][1:]
        for i in range(len(items)):
            cands.append(with_sec(name, items[:i] + items[i + 1:]))
            if name == "goals":
                for sub in subexprs(items[i]):
                    cands.append(with_sec(name, items[:i] + [sub] + items[i + 1:]))
    if int(depth) > 1:
        yield ["case", comp, str(int(depth) - 1), ps]
    for c in cands:
        try:
            P, _ = upp.build_problem(c)
            canon = upp.enc_problem(P)
            P2, _ = upp.build_problem(canon)
            if not supports(comp, P2):
                continue
        except Exception:
            continue
        yield ["case", comp, depth, canon]


# ------------------------------------------------------------------------------------------------
# exhaustive exploration with the real simulator
# ------------------------------------------------------------------------------------------------

def ground_instances(P):
    out = []
    for a in P.actions:
        doms = []
        ok = True
        for p in a.parameters:
            if not p.type.is_user_type():
                ok = False
                break
            doms.append(list(P.objects(p.type)))
        if not ok:
            continue
        for combo in product(*doms):
            out.append((a, tuple(combo)))
    return out


def inst_key(a, params):
    return (a.name, tuple(str(p) for p in params))


def fmt_plan(keys):
    return "[" + ", ".join(k[0] + "(" + ",".join(k[1]) + ")" for k in keys) + "]"


class Explorer:
    """the state graph of one problem as the REAL UPSequentialSimulator sees it (states identified by the values of all
    ground fluents), explored on demand and memoised"""

    def __init__(self, P):
        self.P = P
        self.sim = UPSequentialSimulator(P, error_on_failed_checks=False)
        self.instances = ground_instances(P)
        self.ikeys = [inst_key(a, ps) for a, ps in self.instances]
        self.by_key = {}
        for i, k in enumerate(self.ikeys):
            self.by_key.setdefault(k, i)
        em = P.environment.expression_manager
        self.key_exps = []
        for f in P.fluents:
            doms = []
            ok = True
            for p in f.signature:
                if not p.type.is_user_type():
                    ok = False
                    break
                doms.append(list(P.objects(p.type)))
            if not ok:
                continue
            for combo in product(*doms):
                self.key_exps.append(em.FluentExp(f, tuple(em.ObjectExp(o) for o in combo)))
        self.states, self.succ, self.goal, self.depth = {}, {}, {}, {}
        try:
            s0 = self.sim.get_initial_state()
            self.init = self.key(s0)
            self.states[self.init] = s0
            self.depth[self.init] = 0
        except up.exceptions.UPProblemDefinitionError:
            self.init = None

    def key(self, st):
        out = []
        for fe in self.key_exps:
            try:
                out.append(str(st.get_value(fe)))
            except up.exceptions.UPStateMissingFluentError:
                out.append("?")
            except up.exceptions.UPValueError:
                out.append("?")
        return tuple(out)

    def fresh_sim(self):
        self.sim = UPSequentialSimulator(self.P, error_on_failed_checks=False)

    def expand(self, k):
        if k in self.succ:
            return self.succ[k]
        st = self.states[k]
        out = []
        for i, (a, ps) in enumerate(self.instances):
            try:
                s2 = self.sim.apply(st, a, ps)
            except Exception as e:
                # an exception other than the caught ones escapes from the simulator (malformed compiled action,
                # ZeroDivisionError ...): the instance is not applicable for a planner; remember it
                self.escaped = getattr(self, "escaped", [])
                self.escaped.append((self.ikeys[i], type(e).__name__))
                if simlib.REPLACE_DIRTY_SIM:
                    self.fresh_sim()
                s2 = None
            if s2 is not None:
                k2 = self.key(s2)
                if k2 not in self.states:
                    self.states[k2] = s2
                    self.depth[k2] = self.depth[k] + 1
                out.append((i, k2))
        self.succ[k] = out
        return out

    def is_goal(self, k):
        if k not in self.goal:
            try:
                self.goal[k] = bool(self.sim.is_goal(self.states[k]))
            except Exception:
                self.goal[k] = False
                if simlib.REPLACE_DIRTY_SIM:
                    self.fresh_sim()
        return self.goal[k]

    def explore(self, depth, max_states):
        frontier = [self.init]
        for d in range(depth):
            nxt = []
            for k in frontier:
                for i, k2 in self.expand(k):
                    if self.depth[k2] == d + 1 and k2 not in nxt and len(self.states) <= max_states:
                        nxt.append(k2)
            frontier = nxt

    def paths(self, maxlen, cap):
        """every applicable instance sequence of length <= maxlen from the initial state, breadth first:
        yields (instance indices, state keys incl. the initial one)"""
        if self.init is None:
            return
        level = [((), (self.init,))]
        n = 0
        for d in range(maxlen + 1):
            nxt = []
            for seq, ks in level:
                yield seq, ks
                n += 1
                if n >= cap:
                    return
                if d < maxlen:
                    for i, k2 in self.expand(ks[-1]):
                        nxt.append((seq + (i,), ks + (k2,)))
            level = nxt

    def run(self, ikeys):
        """state keys along the given instance-key sequence, or (None, position of the first inapplicable step)"""
        if self.init is None:
            return None, 0
        ks = [self.init]
        for pos, ik in enumerate(ikeys):
            i = self.by_key.get(ik)
            if i is None:
                return None, pos
            nxt = [k2 for j, k2 in self.expand(ks[-1]) if j == i]
            if not nxt:
                return None, pos
            ks.append(nxt[0])
        return ks, None


# ------------------------------------------------------------------------------------------------
# trajectory constraints: PDDL3 semantics over the state sequence
# ------------------------------------------------------------------------------------------------

def _holds(P, se, phi, st):
    try:
        v = se.evaluate(phi, st)
        return v.is_true()
    except up.exceptions.UPStateMissingFluentError:
        return False


def traj_ok(P, states):
    """PDDL3: always / sometime / at-most-once / sometime-before / sometime-after over s0..sn; quantified and conjoined
    constraints are expanded over the problem's objects"""
    tcs = list(P.trajectory_constraints)
    if not tcs:
        return True
    se = StateEvaluator(P)
    em = P.environment.expression_manager

    def check(tc):
        if tc.is_and():
            return all(check(a) for a in tc.args)
        if tc.is_forall():
            vs = tc.variables()
            doms = [list(P.objects(v.type)) for v in vs]
            for combo in product(*doms):
                sub = {em.VariableExp(v): em.ObjectExp(o) for v, o in zip(vs, combo)}
                if not check(tc.arg(0).substitute(sub)):
                    return False
            return True
        if tc.is_bool_constant():
            return tc.bool_constant_value()
        if tc.is_always():
            return all(_holds(P, se, tc.arg(0), s) for s in states)
        if tc.is_sometime():
            return any(_holds(P, se, tc.arg(0), s) for s in states)
        if tc.is_at_most_once():
            h = [_holds(P, se, tc.arg(0), s) for s in states]
            runs = sum(1 for i, x in enumerate(h) if x and (i == 0 or not h[i - 1]))
            return runs <= 1
        if tc.is_sometime_before():
            hp = [_holds(P, se, tc.arg(0), s) for s in states]
            hq = [_holds(P, se, tc.arg(1), s) for s in states]
            return all((not hp[i]) or any(hq[:i]) for i in range(len(states)))
        if tc.is_sometime_after():
            hp = [_holds(P, se, tc.arg(0), s) for s in states]
            hq = [_holds(P, se, tc.arg(1), s) for s in states]
            return all((not hp[i]) or any(hq[i:]) for i in range(len(states)))
        raise Skip("trajectory constraint shape")
    return all(check(tc) for tc in tcs)


def has_path_constraints(P):
    """trajectory constraints other than state invariants (those the simulator does not enforce)"""
    def inv_only(tc):
        if tc.is_always():
            return True
        if tc.is_and():
            return all(inv_only(a) for a in tc.args)
        if tc.is_forall():
            return inv_only(tc.arg(0))
        return False
    return any(not inv_only(tc) for tc in P.trajectory_constraints)


# ------------------------------------------------------------------------------------------------
# the end-to-end differential
# ------------------------------------------------------------------------------------------------

class Analysis:
    def __init__(self):
        self.skip = None           # reason the case is outside the checked domain
        self.c06 = None            # failing clause (str) or None
        self.c07 = None
        self.tags = set()
        self.n_compiled_plans = 0  # valid compiled plans mapped back
        self.n_original_plans = 0  # valid original plans looked up
        self.n_paths = 0


def validator_says(P, ikeys, ex):
    """the REAL SequentialPlanValidator on the instance sequence (None when the plan cannot even be built)"""
    try:
        ais = []
        for ik in ikeys:
            a, ps = ex.instances[ex.by_key[ik]]
            ais.append(ActionInstance(a, ps))
        plan = SequentialPlan(ais, P.environment)
        pv = SequentialPlanValidator(environment=P.environment)
        pv.error_on_failed_checks = False
        res = pv.validate(P, plan)
        return res.status == ValidationResultStatus.VALID, res
    except Exception as e:
        return None, e


def without_metrics(P):
    Q = P.clone()
    Q.clear_quality_metrics()
    return Q


def valid_on(ex, ikeys):
    """(valid?, reason) for an instance-key sequence on the explorer's problem: applicable step by step, goal in the
    final state, trajectory constraints by PDDL3 semantics"""
    ks, pos = ex.run(ikeys)
    if ks is None:
        return False, f"step {pos + 1} {ikeys[pos][0]}({','.join(ikeys[pos][1])}) is not applicable"
    if not ex.is_goal(ks[-1]):
        return False, "goals not satisfied in the final state"
    if ex.P.trajectory_constraints and not traj_ok(ex.P, [ex.states[k] for k in ks]):
        return False, "trajectory constraints violated"
    return True, None


_cache = {}
LIMITS = {"paths": 1500, "orig": 60, "states": 60, "secs": 20}


def set_tier(tier):
    if tier == "quick":
        LIMITS.update({"paths": 1500, "orig": 60})
    else:
        LIMITS.update({"paths": 6000, "orig": 200})


def analyse(payload):
    key = sexp.dumps(payload)
    if key in _cache:
        return _cache[key]
    if len(_cache) > 3000:
        _cache.clear()
    an = Analysis()
    try:
        with watchdog(LIMITS["secs"] * 3):
            _analyse(payload, an)
    except Skip as e:
        an.skip = str(e)
    except Timeout:
        an.skip = "timeout"
        an.tags.add("timeout")
    _cache[key] = an
    return an


def compile_real(payload):
    _, comp, depth, ps = payload
    P, ctx = upp.build_problem(ps)
    if not supports(comp, P):
        raise Skip("outside the supported kind")
    c = make_compiler(comp)
    try:
        res = c.compile(P)
    except up.exceptions.UPUsageError as e:
        if comp in PIPES and "cannot handle this kind" in str(e):
            raise Skip("a later pipeline stage does not support the intermediate problem")
        raise
    return P, res


def _analyse(payload, an):
    _, comp, depth, ps = payload
    k = int(depth)
    try:
        P, res = compile_real(payload)
    except Skip:
        raise
    except up.exceptions.UPProblemDefinitionError as e:
        # documented refusals (TrajectoryConstraintsRemover: "PROBLEM NOT SOLVABLE", ConditionalEffectsRemover on a
        # conditional timed effect, ...).  The completeness clause still applies: see below
        an.tags.add("compile-refused")
        P, _ = upp.build_problem(ps)
        exo = Explorer(P)
        if exo.init is not None:
            for seq, ks in exo.paths(k, LIMITS["paths"]):
                if exo.is_goal(ks[-1]) and traj_ok(P, [exo.states[x] for x in ks]):
                    an.c07 = (f"C07: compiler refused the problem ({str(e)[:80]}) although the original plan "
                              f"{fmt_plan([exo.ikeys[i] for i in seq])} is valid")
                    break
        return
    except Exception as e:
        # a crash inside the supported kind is property C08's subject, not a soundness verdict
        an.skip = f"compile raised {type(e).__name__}"
        an.tags.add("compile-raised:" + type(e).__name__)
        return
    Q = res.problem
    an.Q = Q
    exo = Explorer(P)
    if exo.init is None:
        raise Skip("initial state of the original violates its invariants")
    try:
        exc = Explorer(Q)
    except up.exceptions.UPUsageError as e:
        an.skip = "simulator refuses the compiled problem"
        return
    back_inst = {}

    def back(i):
        if i not in back_inst:
            a, ps_ = exc.instances[i]
            b = res.map_back_action_instance(ActionInstance(a, ps_))
            back_inst[i] = None if b is None else inst_key(b.action, b.actual_parameters)
        return back_inst[i]

    # ---- C06: every valid plan of the compiled problem up to length k -------------------------------------------
    if exc.init is None:
        an.tags.add("compiled-initial-state-rejected")
    else:
        for seq, ks in exc.paths(k, LIMITS["paths"]):
            an.n_paths += 1
            if not exc.is_goal(ks[-1]):
                continue
            if Q.trajectory_constraints and not traj_ok(Q, [exc.states[x] for x in ks]):
                continue
            an.n_compiled_plans += 1
            mapped = [back(i) for i in seq]
            mapped = [m for m in mapped if m is not None]
            ok, why = valid_on(exo, mapped)
            if len(seq) > 0:
                an.tags.add("compiled-plan-len>=1")
            if ok:
                continue
            # confirm with the real validators and the real plan_back_conversion before reporting
            cv, _ = validator_says(without_metrics(Q), [exc.ikeys[i] for i in seq], exc)
            if cv is False and not has_path_constraints(Q):
                an.tags.add("simulator-validator-disagree")
                continue
            try:
                plan = SequentialPlan([ActionInstance(*exc.instances[i]) for i in seq], Q.environment)
                conv = res.plan_back_conversion(plan) if res.plan_back_conversion is not None else \
                    plan.replace_action_instances(res.map_back_action_instance)
                mapped2 = [inst_key(ai.action, ai.actual_parameters) for ai in conv.actions]
            except Exception as e:
                an.c06 = (f"C06: plan_back_conversion raised {type(e).__name__} on the valid compiled plan "
                          f"{fmt_plan([exc.ikeys[i] for i in seq])}")
                break
            if mapped2 != mapped:
                an.c06 = (f"C06: plan_back_conversion {fmt_plan(mapped2)} differs from the instance-wise map-back "
                          f"{fmt_plan(mapped)}")
                break
            ov, r = validator_says(without_metrics(P), mapped, exo)
            if ov is True and not has_path_constraints(P):
                an.tags.add("simulator-validator-disagree")
                continue
            an.c06 = (f"C06: compiled plan {fmt_plan([exc.ikeys[i] for i in seq])} is valid, mapped-back plan "
                      f"{fmt_plan(mapped)} is invalid for the original problem: {why}")
            an.c06_witness = ([exc.ikeys[i] for i in seq], mapped, why)
            break
    # ---- C07: every valid plan of the original up to length k has a counterpart --------------------------------
    extra = 1 if any(back(i) is None for i in range(len(exc.instances))) else 0
    if extra:
        an.tags.add("goal-action-added")
    n_orig = 0
    for seq, ks in exo.paths(k, LIMITS["paths"]):
        if not exo.is_goal(ks[-1]):
            continue
        if P.trajectory_constraints and not traj_ok(P, [exo.states[x] for x in ks]):
            continue
        n_orig += 1
        an.n_original_plans += 1
        if len(seq) > 0:
            an.tags.add("original-plan-len>=1")
        target = [exo.ikeys[i] for i in seq]
        found = _counterpart(exc, Q, back, target, len(target) + extra)
        if not found:
            an.c07 = (f"C07: the valid original plan {fmt_plan(target)} has no compiled plan of length <= "
                      f"{len(target) + extra} mapping back to it")
            an.c07_witness = target
            # which step changes nothing? (cause of the known finding D-C07)
            an.c07_noop = any(ks[j] == ks[j + 1] for j in range(len(seq)))
            break
        if n_orig >= LIMITS["orig"]:
            break
    if getattr(exc, "escaped", None):
        an.tags.add("compiled-instance-raised:" + exc.escaped[0][1])
    if an.n_compiled_plans == 0 and an.n_original_plans == 0:
        an.tags.add("no-valid-plan-within-bound")


def _counterpart(exc, Q, back, target, maxlen):
    """is there an applicable compiled sequence of length <= maxlen, reaching the compiled goal (and satisfying the
    compiled trajectory constraints), whose map-back is exactly `target`?"""
    if exc.init is None:
        return False
    has_tc = bool(Q.trajectory_constraints)
    seen = set()

    def dfs(pos, ks, length):
        if pos == len(target) and exc.is_goal(ks[-1]):
            if not has_tc or traj_ok(Q, [exc.states[x] for x in ks]):
                return True
        if length >= maxlen:
            return False
        if not has_tc:
            st = (pos, ks[-1], length)
            if st in seen:
                return False
            seen.add(st)
        for i, k2 in exc.expand(ks[-1]):
            b = back(i)
            if b is None:
                if dfs(pos, ks + (k2,), length + 1):
                    return True
            elif pos < len(target) and b == target[pos]:
                if dfs(pos + 1, ks + (k2,), length + 1):
                    return True
        return False
    return dfs(0, (exc.init,), 0)


# ------------------------------------------------------------------------------------------------
# canonical view of the real compiled problem (correspondence with the Lean models)
# ------------------------------------------------------------------------------------------------

def strip_suffix(name, originals):
    """compiled action name -> the original it was derived from is given by map-back; nothing to do here"""
    return name


def ground_view(payload):
    """the Grounder (Core/Compile/Grounder.lean): the real compiled problem with prune_actions True (the default) and False,
    every ground action IN ORDER with its name, the action and the arguments it maps back to (lift_action_instance), its
    preconditions in order and its effects; goals, trajectory constraints and initial values of the (pruned) compiled problem"""
    _, comp, depth, ps = payload
    P, _ = upp.build_problem(ps)
    if not supports(comp, P):
        return ["skip"]
    views = []
    Q = None
    for prune in (True, False):
        try:
            res = Grounder(prune_actions=prune).compile(P)
        except Exception as e:
            return ["raised", type(e).__name__]
        out = []
        for a in res.problem.actions:
            b = res.map_back_action_instance(ActionInstance(a, ()))
            pre = [upx.enc_expr(c, sort_vars=True) for c in a.preconditions]
            effs = [upp.enc_effect(e) for e in a.effects]
            out.append(["ground", a.name, b.action.name, [str(x) for x in b.actual_parameters], ["pre"] + pre, ["effs"] + effs])
        views.append(out)
        if prune:
            Q = res.problem
    goals = sorted((upx.enc_expr(g, sort_vars=True) for g in Q.goals), key=sexp.dumps)
    traj = sorted((upx.enc_expr(t, sort_vars=True) for t in Q.trajectory_constraints), key=sexp.dumps)
    return ["grounded", ["prune"] + views[0], ["noprune"] + views[1], ["goals"] + goals, ["traj"] + traj,
            ["init"] + init_view(Q)]


def init_view(Q):
    init = []
    em = Q.environment.expression_manager
    for f in Q.fluents:
        doms = [list(Q.objects(p.type)) if p.type.is_user_type() else [] for p in f.signature]
        for combo in product(*doms):
            v = Q.initial_value(em.FluentExp(f, tuple(em.ObjectExp(o) for o in combo)))
            init.append([f.name, [o.name for o in combo], "undef" if v is None else upx.enc_val(v)])
    init.sort(key=sexp.dumps)
    return init


def variants(payload):
    """for the modelled compilers: the real compiled problem as a sorted list of action variants
    (mapped-back action | _, parameters, sorted preconditions, effects in order), its goals, its trajectory
    constraints and its fluent names -- fresh-name suffixes never appear (actions are named by their origin)"""
    _, comp, depth, ps = payload
    if comp == "grounder":
        return ground_view(payload)
    try:
        P, res = compile_real(payload)
    except Skip as e:
        return ["skip"]
    except Exception as e:
        return ["raised", type(e).__name__]
    Q = res.problem
    out = []
    for a in Q.actions:
        # one ground instance of the variant; the i-th parameter takes the (i mod n)-th object of its type, so that a map-back
        # that permutes or drops arguments is visible (the model's map-back keeps the argument tuple: `backLifted`)
        ai = ActionInstance(a, tuple(Q.environment.expression_manager.ObjectExp(
                                         list(Q.objects(p.type))[i % len(list(Q.objects(p.type)))])
                                     if p.type.is_user_type() and list(Q.objects(p.type)) else None
                                     for i, p in enumerate(a.parameters))) \
            if all(p.type.is_user_type() and list(Q.objects(p.type)) for p in a.parameters) else None
        origin = "_"
        if ai is not None:
            b = res.map_back_action_instance(ai)
            origin = "_" if b is None else b.action.name
            if b is not None and comp in ("cer", "dcr", "sir", "btr", "qr") and \
                    tuple(b.actual_parameters) != tuple(ai.actual_parameters):
                origin += "!args-changed"
        else:
            origin = "?"
        pre = sorted((upx.enc_expr(c, sort_vars=True) for c in a.preconditions), key=sexp.dumps)
        effs = [upp.enc_effect(e) for e in a.effects]
        out.append(["variant", origin, [[p.name, upx.enc_ty(p.type)] for p in a.parameters], ["pre"] + pre, ["effs"] + effs])
    out.sort(key=sexp.dumps)
    goals = sorted((upx.enc_expr(g, sort_vars=True) for g in Q.goals), key=sexp.dumps)
    traj = sorted((upx.enc_expr(t, sort_vars=True) for t in Q.trajectory_constraints), key=sexp.dumps)
    init = []
    em = Q.environment.expression_manager
    for f in Q.fluents:
        doms = [list(Q.objects(p.type)) if p.type.is_user_type() else [] for p in f.signature]
        for combo in product(*doms):
            v = Q.initial_value(em.FluentExp(f, tuple(em.ObjectExp(o) for o in combo)))
            init.append([f.name, [o.name for o in combo], "undef" if v is None else upx.enc_val(v)])
    init.sort(key=sexp.dumps)
    ans = ["compiled", ["variants"] + out, ["goals"] + goals, ["traj"] + traj, ["init"] + init]
    if comp == "ncr":
        # NegativeConditionsRemover rewrites the quality metrics too (oversubscription goals, action costs)
        ans.append(["metrics"] + upp.get(upp.enc_problem(Q), "metrics"))
    return ans


# ------------------------------------------------------------------------------------------------
# known findings: cause predicates over cases (DESIGN 2.7) -- shared by C06.py / C07.py
# ------------------------------------------------------------------------------------------------

def chain(comp):
    """the single compilers a case runs (TrajectoryConstraintsRemover grounds first)"""
    names = [comp] if comp in SINGLE else list(PIPES[comp])
    out = []
    for n in names:
        if n == "tcr":
            out.append("grounder")
        out.append(n)
    return out


def fired_effects(P, state, action, params):
    """the effect instances of (action, params) that fire in `state`, everything evaluated in that state:
    [(kind, ground fluent FNode, value FNode, condition FNode of the lifted effect)]; None if some evaluation fails"""
    se = StateEvaluator(P)
    subs = dict(zip(action.parameters, params))
    out = []
    try:
        for e0 in action.effects:
            for e in e0.expand_effect(P):
                c = e.condition.substitute(subs)
                if not se.evaluate(c, state).is_true():
                    continue
                f = e.fluent.substitute(subs)
                em = P.environment.expression_manager
                gf = em.FluentExp(f.fluent(), tuple(se.evaluate(a, state) for a in f.args))
                v = se.evaluate(e.value.substitute(subs), state)
                out.append(("assign" if e.is_assignment() else "incdec", gf, v, e0.condition))
    except Exception:
        return None
    return out


def _steps(ex, ikeys):
    """(state, action, params) along an instance-key sequence on an explorer, as far as it applies (the first
    inapplicable step is included with its pre-state)"""
    if ex.init is None:
        return
    k = ex.init
    for ik in ikeys:
        i = ex.by_key.get(ik)
        if i is None:
            return
        a, ps = ex.instances[i]
        yield ex.states[k], a, ps
        nxt = [k2 for j, k2 in ex.expand(k) if j == i]
        if not nxt:
            return
        k = nxt[0]


def _witness_steps(payload, which):
    """the steps of the failing ORIGINAL plan of a case: the mapped-back plan of the C06 witness / the uncovered plan
    of the C07 witness"""
    an = analyse(payload)
    if which == "c06" and getattr(an, "c06_witness", None):
        plan = an.c06_witness[1]
    elif which == "c07" and getattr(an, "c07_witness", None):
        plan = an.c07_witness
    else:
        return []
    P, _ = upp.build_problem(payload[3])
    ex = Explorer(P)
    return [(P, st, a, ps) for st, a, ps in _steps(ex, plan)]


def _some_step(payload, pred):
    for which in ("c06", "c07"):
        for P, st, a, ps in _witness_steps(payload, which):
            fe = fired_effects(P, st, a, ps)
            if fe is not None and pred(P, fe):
                return True
    return False


def _multi_assign(kind_of_fluent, different):
    """some ground fluent of the given kind is assigned by >= 2 fired effects (with different values / any values)"""
    def pred(P, fe):
        seen = {}
        for k, gf, v, _ in fe:
            if k != "assign" or not kind_of_fluent(gf.fluent().type):
                continue
            seen.setdefault(str(gf), []).append(str(v))
        for vs in seen.values():
            if len(vs) >= 2 and (not different or len(set(vs)) >= 2):
                return True
        return False
    return pred


def cause_overlapping_disjuncts(payload):
    """D-C06b: in the failing original plan a conditional increase/decrease fires whose condition has a DNF with >= 2
    disjuncts (DisjunctiveConditionsRemover splits it into one effect per disjunct; overlapping disjuncts fire twice)"""
    if "dcr" not in chain(payload[1]):
        return False
    from unified_planning.model.walkers import Dnf

    def pred(P, fe):
        d = Dnf(P.environment)
        qr = None
        for k, gf, v, cond in fe:
            if k == "incdec" and not cond.is_true():
                c = cond
                if "qr" in chain(payload[1]):
                    from unified_planning.model.walkers import ExpressionQuantifiersRemover
                    c = ExpressionQuantifiersRemover(P.environment).remove_quantifiers(c, P)
                if d.get_dnf_expression(c).simplify().is_or():
                    return True
        return False
    return _some_step(payload, pred)


def cause_bool_add_and_delete(payload):
    """D-C06c: NegativeConditionsRemover, and some step of the failing original plan assigns one Boolean ground fluent
    both values (add-after-delete: `f` and its complementary fluent both end true)"""
    return "ncr" in chain(payload[1]) and _some_step(payload, _multi_assign(lambda t: t.is_bool_type(), True))


def cause_object_fluent_conflict(payload):
    """D-C06d: UsertypeFluentsRemover, and some step of the failing original plan assigns two different objects to one
    object fluent (a conflict in the original, Boolean add-after-delete in the compiled problem)"""
    return "utf" in chain(payload[1]) and _some_step(payload, _multi_assign(lambda t: t.is_user_type(), True))


def cause_undefined_conditional(payload):
    """D-C06e: UndefinedInitialNumericRemover on a conditional effect that reads or writes a numeric fluent without
    initial value"""
    if "uin" not in chain(payload[1]):
        return False
    ps = payload[3]
    undef = set()
    for ref, d in upp.get(ps, "fluents"):
        if d == "_" and isinstance(ref[1], list) and ref[1][0] in ("int", "real"):
            undef.add(ref[0])
    if not undef:
        return False
    for a in upp.get(ps, "actions"):
        for e in a[4][1:]:
            if e[4] != ["b", "T"]:
                names = {r[0] for r in upx.free_names(["and", e[2], e[3]])["fl"]}
                if names & undef:
                    return True
    return False


def cause_undefined_read_simplified_away(payload):
    """UndefinedInitialNumericRemover requires `is_value_defined_f` for EVERY syntactic occurrence of a numeric fluent without
    initial value in a precondition / effect value / effect condition; the original semantics grounds and SIMPLIFIES an action
    before evaluating it, so an occurrence that simplification removes (`TRUE or x <= 1`, `x - x`, `0 * x`) is never read there:
    the original action applies, the compiled one does not"""
    if "uin" not in chain(payload[1]):
        return False
    ps = payload[3]
    undef = set()
    for ref, d in upp.get(ps, "fluents"):
        if d == "_" and isinstance(ref[1], list) and ref[1][0] in ("int", "real"):
            undef.add(ref[0])
    if not undef:
        return False
    try:
        P, _ = upp.build_problem(ps)
    except Exception:
        return False
    fve = P.environment.free_vars_extractor
    for a in P.actions:
        exprs = list(a.preconditions) + [e.value for e in a.effects] + [e.condition for e in a.effects]
        for e in exprs:
            before = {f.fluent().name for f in fve.get(e)} & undef
            after = {f.fluent().name for f in fve.get(e.simplify())} & undef
            if before - after:
                return True
    return False


def cause_coinciding_values(payload):
    """D-C07b: some step of the uncovered original plan assigns one non-Boolean ground fluent by >= 2 fired effects
    (necessarily the same value): the effects conflict statically, so the grounder / the conditional-effects remover
    dropped the instance / variant"""
    ch = chain(payload[1])
    return ("grounder" in ch or "cer" in ch) and _some_step(payload, _multi_assign(lambda t: not t.is_bool_type(), False))


def cause_static_conflict_sound(payload):
    """D-C06f: the Grounder, and the first inapplicable step of the mapped-back plan is an instance that the SIMULATOR's own
    grounding (GrounderHelper(prune_actions=False), plain simplifier) rejects (ground_action -> None) although everything it
    evaluates is defined and >= 2 fired effects assign one non-Boolean ground fluent (necessarily the same value, or the
    compiled step would conflict too): the static conflict check of _add_effect_instance saw two different value expressions
    there, while Simplifier(env, problem) of the compiler replaced a static fluent by its initial value and saw one constant"""
    if "grounder" not in chain(payload[1]):
        return False
    an = analyse(payload)
    if not getattr(an, "c06_witness", None):
        return False
    steps = _witness_steps(payload, "c06")
    if not steps:
        return False
    P, st, a, ps = steps[-1]                      # the first inapplicable step, with its pre-state
    from unified_planning.engines.compilers.grounder import GrounderHelper
    em = P.environment.expression_manager
    try:
        args = tuple(em.ObjectExp(o) for o in ps)
        if GrounderHelper(P, prune_actions=False).ground_action(a, args) is not None:
            return False
    except Exception:
        return False
    fe = fired_effects(P, st, a, ps)
    return fe is not None and _multi_assign(lambda t: not t.is_bool_type(), False)(P, fe)


def cause_noop_step(payload):
    """D-C07: the uncovered original plan contains a step that changes nothing (the variant without effects is pruned
    by the conditional-effects / disjunctive-conditions removers)"""
    ch = chain(payload[1])
    if "cer" not in ch and "dcr" not in ch:
        return False
    an = analyse(payload)
    return bool(an.c07) and bool(getattr(an, "c07_noop", False))
