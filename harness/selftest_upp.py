"""self-test of the problem bridge: generate, build, re-encode, simulate (run by hand)"""
import random, warnings, sys
warnings.simplefilter("ignore")
import upx, upp, sexp
from unified_planning.engines import UPSequentialSimulator
rng = random.Random(int(sys.argv[1]) if len(sys.argv) > 1 else 3)
ok=0; errs={}; applic=0; total=0; rt=0; built=0
N=300
for i in range(N):
    g = upp.ProblemGen(rng, metrics=(i%2==0))
    ps = g.problem()
    try:
        P, ctx = upp.build_problem(ps)
    except Exception as ex:
        k=type(ex).__name__+': '+str(ex)[:90]; errs[k]=errs.get(k,0)+1; continue
    built+=1
    back = upp.enc_problem(P)
    if back != ps:
        for a,b in zip(ps[2:], back[2:]):
            if a!=b: print("RT DIFF", sexp.dumps(a)[:400],"\n   ", sexp.dumps(b)[:400]); break
        rt+=1
        if rt>3: break
        continue
    ok+=1
    try:
        sim = UPSequentialSimulator(P, error_on_failed_checks=False)
        s0 = sim.get_initial_state()
    except Exception as ex:
        k='SIM '+type(ex).__name__+': '+str(ex)[:90]; errs[k]=errs.get(k,0)+1; continue
    for an, args in upp.ground_instances(ps):
        a = P.action(an); total+=1
        try:
            s1 = sim.apply(s0, a, [ctx.objs[(o, dict(map(tuple, g.OBJECTS))[o])] for o in args])
            if s1 is not None: applic+=1
        except Exception as ex:
            k='APPLY '+type(ex).__name__+': '+str(ex)[:90]; errs[k]=errs.get(k,0)+1
print("generated",N,"built",built,"roundtrip-ok",ok,"rt-diff",rt,"instances",total,"applicable",applic)
for k,v in sorted(errs.items(), key=lambda x:-x[1])[:14]: print(v,k)
