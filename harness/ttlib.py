"""Shared helper code of the plan-validator checks C04 and C05 (time-triggered validator).

  build(ps, temporal)         -> Built: the REAL Problem (instantaneous actions via upp.build_problem, durative
                                 actions / timed effects / timed goals from the `temporal` section)
  run_tt / run_seq            -> verdict s-expressions of the REAL TimeTriggeredPlanValidator / SequentialPlanValidator
  gen_problem_c04 / gen_plan  -> generators of C04 (C01 grammar; simulator-guided plans)
  TGen                        -> generator of the small temporal problems of C05
  spec_valid                  -> an independent Python implementation of lean/UPVerif/Spec/Temporal.lean (ORACLE only)

Wire format of the temporal section and of plans: lean/UPVerif/Core/TTSexp.lean.
Harness code (trusted base of the correspondence checks).
"""
import signal
import warnings
from collections import OrderedDict
from fractions import Fraction
from itertools import product

warnings.simplefilter("ignore")
import unified_planning as up
from unified_planning.engines.plan_validator import SequentialPlanValidator, TimeTriggeredPlanValidator
from unified_planning.engines.results import FailedValidationReason, ValidationResultStatus
from unified_planning.exceptions import UPProblemDefinitionError, UPStateMissingFluentError
from unified_planning.model import DurativeAction, Timing, Timepoint, TimepointKind, TimeInterval
from unified_planning.model.timing import DurationInterval
from unified_planning.plans import ActionInstance, SequentialPlan, TimeTriggeredPlan

import pyden
import sexp
import simlib
import upp
import upx
from upx import q2s

# ------------------------------------------------------------------------------------------------
# watchdog: a changed /repo can make the real code loop
# ------------------------------------------------------------------------------------------------


class Timeout(Exception):
    pass


def _alarm(signum, frame):
    raise Timeout()


def guarded(f, seconds=20):
    old = signal.signal(signal.SIGALRM, _alarm)
    signal.alarm(seconds)
    try:
        return f()
    finally:
        signal.alarm(0)
        signal.signal(signal.SIGALRM, old)


# ------------------------------------------------------------------------------------------------
# real problems
# ------------------------------------------------------------------------------------------------

EMPTY_TEMPORAL = ["temporal", ["dactions"], ["teff"], ["tgoal"]]


def tsec(t, key):
    for s in t[1:]:
        if isinstance(s, list) and s and s[0] == key:
            return s[1:]
    raise KeyError(key)


KINDS = {"S": TimepointKind.START, "E": TimepointKind.END, "GS": TimepointKind.GLOBAL_START, "GE": TimepointKind.GLOBAL_END}


def timing(t):
    d = Fraction(t[1])
    return Timing(d.numerator if d.denominator == 1 else d, Timepoint(KINDS[t[0]]))


def interval(i):
    return TimeInterval(timing(i[0]), timing(i[1]), i[2] == "T", i[3] == "T")


class Built:
    pass


def _add_effects(ctx, adders, t, effs):
    for e in effs:
        _, kind, f, v, c, vs = e
        forall = tuple(ctx.var(n, ty) for n, ty in vs)
        adders[kind](t, ctx.expr(f), ctx.expr(v), ctx.expr(c), forall=forall)


def build(ps, temporal=None):
    """the real Problem of a case; raises what the real builders raise"""
    temporal = temporal or EMPTY_TEMPORAL
    P, ctx = upp.build_problem(ps)
    b = Built()
    b.P, b.ctx, b.ps, b.temporal = P, ctx, ps, temporal
    b.objtype = dict(map(tuple, upp.get(ps, "objects")))
    for da in tsec(temporal, "dactions"):
        _, name, params, dur, conds, effs = da
        d = DurativeAction(name, OrderedDict((pn, ctx.ty(pt)) for pn, pt in params), ctx.env)
        d.set_duration_constraint(DurationInterval(ctx.expr(dur[1]), ctx.expr(dur[2]), dur[3] == "T", dur[4] == "T"))
        for c in conds[1:]:
            for e in c[1:]:
                d.add_condition(interval(c[0]), ctx.expr(e))
        adders = {"assign": d.add_effect, "increase": d.add_increase_effect, "decrease": d.add_decrease_effect}
        for te in effs[1:]:
            _add_effects(ctx, adders, timing(te[0]), te[1:])
        P.add_action(d)
    adders = {"assign": P.add_timed_effect, "increase": P.add_increase_effect, "decrease": P.add_decrease_effect}
    for te in tsec(temporal, "teff"):
        _add_effects(ctx, adders, timing(te[0]), te[1:])
    for tg in tsec(temporal, "tgoal"):
        for e in tg[1:]:
            P.add_timed_goal(interval(tg[0]), ctx.expr(e))
    return b


def instances(b, plan):
    """[(start, ActionInstance, duration)] in listing order, one fresh ActionInstance per entry"""
    out = []
    for st, name, args, du in plan:
        act = b.P.action(name)
        params = tuple(b.ctx.em.ObjectExp(b.ctx.obj(o, b.objtype[o])) for o in args)
        out.append((Fraction(st), ActionInstance(act, params), None if du == "-" else Fraction(du)))
    return out


def _exc(e):
    if isinstance(e, UPStateMissingFluentError):
        return ["raise", "missing"]
    if isinstance(e, ZeroDivisionError):
        return ["raise", "zero-div"]
    if isinstance(e, Timeout):
        return ["raise", "timeout"]
    return ["raise", "other"]


def _verdict(res, ais):
    if res.status == ValidationResultStatus.VALID:
        return "valid"
    who = "-"
    if res.inapplicable_action is not None:
        for i, ai in enumerate(ais):
            if ai is res.inapplicable_action:
                who = str(i)
    reason = {FailedValidationReason.INAPPLICABLE_ACTION: "inapplicable",
              FailedValidationReason.UNSATISFIED_GOALS: "goals"}.get(res.reason, "other")
    return ["invalid", reason, who]


def run_tt(b, plan, keep=None):
    """the REAL TimeTriggeredPlanValidator on the plan as listed"""
    try:
        tas = instances(b, plan)
        res = guarded(lambda: TimeTriggeredPlanValidator(environment=b.ctx.env).validate(
            b.P, TimeTriggeredPlan(tas, b.ctx.env)))
    except Exception as e:
        return _exc(e)
    if keep is not None:
        keep["tt"] = res
    return _verdict(res, [x[1] for x in tas])


def processing_order(plan):
    """ascending start times; equal start times in REVERSE listing order (the validator sorts by start time,
    descending and stably, and pops from the end)"""
    idx = sorted(range(len(plan)), key=lambda i: Fraction(plan[i][0]), reverse=True)
    return [plan[i] for i in reversed(idx)]


def run_seq(b, plan, keep=None):
    """the REAL SequentialPlanValidator on the same action instances in start-time order"""
    try:
        tas = instances(b, processing_order(plan))
        ais = [x[1] for x in tas]
        res = guarded(lambda: SequentialPlanValidator(environment=b.ctx.env).validate(b.P, SequentialPlan(ais, b.ctx.env)))
    except Exception as e:
        return _exc(e)
    if keep is not None:
        keep["seq"] = res
    return _verdict(res, ais)


# ------------------------------------------------------------------------------------------------
# C04: generators
# ------------------------------------------------------------------------------------------------

KEPT_OUT = {"builder-rejected": 0, "initial-violates-invariants": 0, "unsupported-kind": 0, "exists-eq-elimination": 0}


def gen_problem_c04(rng):
    """one canonical problem of the C01 grammar (no interpreted functions), or None if kept out"""
    g = upp.ProblemGen(rng, undefined=True, invariants=True, metrics=False)
    ps = g.problem()
    if rng.random() < 0.35:
        for j, sec in enumerate(ps):
            if isinstance(sec, list) and sec and sec[0] == "traj":
                ps[j] = sec + simlib.extra_invariants(rng, g)
    flags = {}
    ps = simlib.normalise_problem(ps, flags)
    if flags.get("exists-eq") and not simlib.SIMPLIFIER_REPAIRED:
        KEPT_OUT["exists-eq-elimination"] += 1
        return None
    try:
        P, _ = upp.build_problem(ps)
        canon = upp.enc_problem(P)
    except Exception:
        KEPT_OUT["builder-rejected"] += 1
        return None
    if simlib.normalise_problem(canon, {}) != canon:
        return None
    return canon


TIMES = sorted(set([Fraction(k, 4) for k in range(0, 41)] + [Fraction(k, 3) for k in range(1, 30)] +
                   [Fraction(1, 7), Fraction(22, 7), Fraction(10 ** 6)]))


def gen_plan(rng, real, max_len):
    """a plan found by walking with the REAL simulator: mostly applicable steps, some arbitrary ones.
    Returns [(action name, [objects])] and the state reached when every step applied (else None)."""
    plan = []
    try:
        s = real.sim.get_initial_state()
    except Exception:
        s = None
    L = rng.choice(list(range(0, max_len + 1)) + [1, 2, 2, 3])
    for _ in range(L):
        if not real.instances:
            break
        step = None
        if s is not None and rng.random() < 0.8:
            try:
                app = [(a.name, [p.object().name for p in ps_]) for a, ps_ in real.sim.get_applicable_actions(s)]
            except Exception:
                app = []
            if simlib.REPLACE_DIRTY_SIM and real.dirty(real.sim):
                real.new_sim()
            if app:
                step = rng.choice(app)
        if step is None:
            step = rng.choice(real.instances)
        plan.append((step[0], list(step[1])))
        if s is not None:
            try:
                s = real.sim.apply(s, real.P.action(step[0]), real.params(step[1]))
            except Exception:
                s = None
            if simlib.REPLACE_DIRTY_SIM and real.dirty(real.sim):
                real.new_sim()
    return plan, s


def schedule(rng, plan):
    """distinct rational start times in plan order, then a shuffled listing"""
    times = sorted(rng.sample(TIMES, len(plan)))
    if plan and rng.random() < 0.3:
        times[0] = Fraction(0)
        times = sorted(set(times))
        while len(times) < len(plan):
            times.append(times[-1] + Fraction(1, 2))
    entries = [[q2s(t), a, list(args), "-"] for t, (a, args) in zip(times, plan)]
    rng.shuffle(entries)
    return entries


def with_goals(ps, goals):
    return [(["goals"] + goals) if (isinstance(s, list) and s and s[0] == "goals") else s for s in ps]


def make_case_c04(rng, tier):
    max_len = 4 if tier == "quick" else 6
    while True:
        ps = gen_problem_c04(rng)
        if ps is None:
            continue
        try:
            real = simlib.make_real(ps)
        except simlib.Skip:
            continue
        except Exception:
            continue
        plan, s = gen_plan(rng, real, max_len)
        # half of the time keep only the goals the walked plan reaches (mostly-valid inputs)
        if s is not None and rng.random() < 0.6:
            goals = upp.get(ps, "goals")
            try:
                un = real.sim.get_unsatisfied_goals(s)
                kept = [g for g, rg in zip(goals, real.P.goals) if not any(rg is u for u in un)]
            except Exception:
                kept = []
            ps = with_goals(ps, kept)
        return ["c04", ps, ["plan"] + schedule(rng, plan)]


# ------------------------------------------------------------------------------------------------
# independent reading of states (ORACLE side)
# ------------------------------------------------------------------------------------------------

def state_map(b, keys, key_exps, state):
    m = {}
    for (ref, objs), fe in zip(keys, key_exps):
        try:
            v = state.get_value(fe)
        except UPStateMissingFluentError:
            continue
        m[(pyden.key(ref), tuple(("o", o) for o in objs))] = pyden.val_of_sexp(upx.enc_val(v))
    return m


def key_exps(b):
    keys = simlib.ground_keys(b.ps)
    em = b.ctx.em
    exps = [em.FluentExp(b.ctx.fluent(ref), tuple(em.ObjectExp(b.ctx.obj(o, b.objtype[o])) for o in objs))
            for ref, objs in keys]
    return keys, exps


def invariant_violation(b, state):
    """name of a bounded type / state invariant of the problem TEXT that does not evaluate to true in the
    state (independent evaluator), or None"""
    keys, exps = key_exps(b)
    I = simlib._interp(b.ps, state_map(b, keys, exps, state))
    for inv in simlib.problem_invariants(b.ps):
        if pyden.den(inv, I) != ("b", True):
            return sexp.dumps(inv)
    return None


# ------------------------------------------------------------------------------------------------
# C05: small temporal problems
# ------------------------------------------------------------------------------------------------

T_TYPES = [["T", "_"]]
T_OBJECTS = [["o1", "T"], ["o2", "T"]]
UT = ["user", "T"]
FP = ["p", "bool", []]
FQ = ["q", "bool", []]
FR = ["r", "bool", [UT]]
FN = ["n", ["int", "0", "6"], []]
FM = ["m", ["int", "_", "_"], []]
FU = ["u", "bool", []]
TRUE = ["b", "T"]


def O(n):
    return ["o", n, "T"]


class TGen:
    """Temporal problems over  p, q : bool;  r(T) : bool;  n : int[0,6];  m : int;  u : bool (sometimes undefined);
    objects o1, o2 : T.  0-2 instantaneous actions, 1-3 durative actions (0-1 parameter; fixed or interval duration with
    closed/open bounds, constant or reading n / a parameter-free expression), conditions at start / at end / over
    [start,end] with every openness / intermediate intervals with delays, effects at start / end / with delays
    (assign, increase, decrease, conditional, forall), timed effects, timed goals (closed/open, up to the global end),
    optional state invariant.  Plans: 1-4 entries on a coarse time grid so that starts, ends and delayed happenings
    coincide often; durations hit the bounds of the duration interval exactly, inside and outside."""

    GRID = [Fraction(0), Fraction(1), Fraction(2), Fraction(3), Fraction(1, 2), Fraction(3, 2), Fraction(5, 2), Fraction(4)]
    DELAYS = [Fraction(0), Fraction(1, 2), Fraction(1)]

    def __init__(self, rng):
        self.rng = rng

    # -- expressions ---------------------------------------------------------------------------
    def term(self, params, scope=()):
        r = self.rng
        opts = [O("o1"), O("o2")]
        opts += [["p", pn, pt] for pn, pt in params] * 3
        opts += [["v", vn, vt] for vn, vt in scope] * 4
        return r.choice(opts)

    def lit(self, params, scope=(), allow_u=True):
        r = self.rng
        k = r.random()
        if k < 0.22:
            e = ["fl", FP]
        elif k < 0.44:
            e = ["fl", FQ]
        elif k < 0.62:
            e = ["fl", FR, self.term(params, scope)]
        elif k < 0.8:
            return ["le", ["fl", FN], ["i", str(r.choice([1, 2, 3, 5]))]] if r.random() < 0.5 else \
                ["le", ["i", str(r.choice([1, 2, 3]))], ["fl", FN]]
        elif k < 0.94 or not allow_u:
            return r.choice([["le", ["fl", FM], ["i", str(r.choice([0, 2, 4]))]], ["lt", ["i", "0"], ["fl", FM]],
                             ["eq", ["fl", FN], ["fl", FM]]])
        else:
            e = ["fl", FU]
        return e if r.random() < 0.65 else ["not", e]

    def cond(self, params, scope=()):
        r = self.rng
        k = r.random()
        if k < 0.7:
            return self.lit(params, scope)
        if k < 0.85:
            return ["and", self.lit(params, scope), self.lit(params, scope)]
        return ["or", self.lit(params, scope), self.lit(params, scope)]

    def effect(self, params):
        r = self.rng
        scope = [["w", UT]] if r.random() < 0.18 else []
        k = r.random()
        if k < 0.2:
            f, v, kind = ["fl", FP], ["b", r.choice("TF")], "assign"
        elif k < 0.4:
            f, v, kind = ["fl", FQ], ["b", r.choice("TF")], "assign"
        elif k < 0.58:
            f, v, kind = ["fl", FR, self.term(params, scope)], ["b", r.choice("TTF")], "assign"
        elif k < 0.72:
            f, v, kind = ["fl", FN], r.choice([["i", "0"], ["i", "2"], ["i", "5"], ["fl", FM], ["plus", ["fl", FN], ["i", "1"]]]), "assign"
        elif k < 0.86:
            f, v, kind = ["fl", FN], ["i", str(r.choice([1, 1, 2, 3]))], r.choice(["increase", "decrease"])
        else:
            f, v, kind = ["fl", FM], r.choice([["i", "1"], ["i", "2"], ["fl", FN]]), r.choice(["increase", "decrease", "assign"])
        c = TRUE if r.random() < 0.6 else self.lit(params, scope, allow_u=r.random() < 0.3)
        used = sexp.dumps([f, v, c])
        scope = [sv for sv in scope if sexp.dumps(["v", sv[0], sv[1]]) in used]
        return ["eff", kind, f, v, c, scope]

    def effects(self, params, n):
        effs = []
        for _ in range(n):
            e = self.effect(params)
            effs.append(e)
            k = self.rng.random()
            if k < 0.1 and e[2][1][1] == "bool":
                effs.append(["eff", "assign", e[2], ["b", "T" if e[3] == ["b", "F"] else "F"], TRUE, e[5]])
            elif k < 0.18 and e[1] == "assign" and e[4] != TRUE:
                effs.append(["eff", "assign", e[2], e[3], self.lit(params, e[5], allow_u=False), e[5]])
            elif k < 0.26 and e[1] != "assign":
                effs.append(["eff", self.rng.choice(["increase", "decrease"]), e[2], e[3], e[4], e[5]])
        return effs

    # -- timings -----------------------------------------------------------------------------
    def timing_in_action(self):
        """a timing inside [start, end] of an action of duration >= 1"""
        r = self.rng
        k = r.random()
        if k < 0.4:
            return ["S", "0"]
        if k < 0.75:
            return ["E", "0"]
        if k < 0.88:
            return ["S", q2s(r.choice(self.DELAYS))]
        return ["E", q2s(-r.choice(self.DELAYS))]

    def interval_in_action(self):
        """[start,start], [end,end], start..end with every openness, and intermediate intervals both of whose
        endpoints are delayed (an interval with exactly one delayed endpoint is EXTERNAL_CONDITIONS_AND_EFFECTS for
        the kind computation, outside the validator's supported kind); durations are >= 1, so lower < upper"""
        r = self.rng
        k = r.random()
        if k < 0.22:
            return [["S", "0"], ["S", "0"], "F", "F"]
        if k < 0.36:
            return [["E", "0"], ["E", "0"], "F", "F"]
        if k < 0.76:
            lo, hi = ["S", "0"], ["E", "0"]
        elif k < 0.86:
            lo, hi = ["S", r.choice(["1/4", "1/2"])], ["E", r.choice(["-1/4", "-1/3"])]
        elif k < 0.93:
            lo, hi = ["S", "1/4"], ["S", r.choice(["1/2", "1"])]
        elif k < 0.97:
            lo, hi = ["E", "-1/2"], ["E", "-1/4"]
        else:
            return [["S", "1/2"], ["S", "1/2"], "F", "F"]
        return [lo, hi, r.choice("TF"), r.choice("TF")]

    def duration(self):
        r = self.rng
        k = r.random()
        if k < 0.4:
            d = r.choice(["1", "2", "3/2", "3"])
            return ["dur", ["i", d] if "/" not in d else ["r", d], ["i", d] if "/" not in d else ["r", d], "F", "F"]
        lo, hi = r.choice([("1", "2"), ("1", "3"), ("2", "3"), ("1", "5/2")])
        loe = ["i", lo]
        hie = ["i", hi] if "/" not in hi else ["r", hi]
        if k > 0.88:
            hie = ["plus", ["fl", FN], ["i", "1"]]     # a duration bound that reads a fluent at the start of the action
        return ["dur", loe, hie, r.choice("TF"), r.choice("TF")]

    def daction(self, i):
        r = self.rng
        params = [["x", UT]] if r.random() < 0.4 else []
        conds = ["conds"]
        used = []
        for _ in range(r.choice([0, 1, 1, 2, 3])):
            iv = self.interval_in_action()
            if iv in used:
                continue
            used.append(iv)
            conds.append([iv] + [self.cond(params) for _ in range(r.choice([1, 1, 2]))])
        effs = ["effs"]
        usedt = []
        for _ in range(r.choice([1, 1, 2, 2, 3])):
            t = self.timing_in_action()
            if t in usedt:
                continue
            usedt.append(t)
            effs.append([t] + self.effects(params, r.choice([1, 1, 2])))
        return ["daction", f"d{i}", params, self.duration(), conds, effs]

    def iaction(self, i):
        r = self.rng
        params = [["x", UT]] if r.random() < 0.4 else []
        pre = [self.cond(params) for _ in range(r.choice([0, 1, 1, 2]))]
        return ["action", f"i{i}", params, ["pre"] + pre, ["effs"] + self.effects(params, r.choice([1, 2, 2]))]

    def const_b(self):
        return ["b", self.rng.choice("TF")]

    def problem(self):
        r = self.rng
        fluents = [[FP, self.const_b()], [FQ, self.const_b()], [FR, self.const_b()],
                   [FN, ["i", str(r.choice([0, 1, 2, 3, 5]))]], [FM, ["i", str(r.choice([0, 1, 3]))]],
                   [FU, "_" if r.random() < 0.5 else self.const_b()]]
        init = []
        if r.random() < 0.3:
            init.append([["fl", FR, O("o1")], self.const_b()])
        iacts = [self.iaction(i) for i in range(r.choice([0, 1, 1, 2]))]
        dacts = [self.daction(i) for i in range(r.choice([1, 2, 2, 3]))]
        goals = [self.cond([]) for _ in range(r.choice([0, 0, 1, 1, 2]))]
        traj = []
        if r.random() < 0.3:
            traj.append(["always", r.choice([["le", ["fl", FN], ["i", "5"]], ["or", ["fl", FP], ["not", ["fl", FQ]]],
                                              ["le", ["i", "-1"], ["fl", FM]]])])
        teff = []
        usedt = []
        for _ in range(r.choice([0, 0, 1, 1, 2])):
            t = ["GS", q2s(r.choice(self.GRID + [Fraction(5), Fraction(7, 2)]))]
            if t in usedt:
                continue
            usedt.append(t)
            teff.append([t] + self.effects([], r.choice([1, 1, 2])))
        tgoal = []
        usedi = []
        for _ in range(r.choice([0, 0, 1, 1, 2])):
            lo = r.choice(self.GRID)
            k = r.random()
            if k < 0.3:
                iv = [["GS", q2s(lo)], ["GS", q2s(lo)], "F", "F"]
            elif k < 0.75:
                hi = lo + r.choice([Fraction(1, 2), Fraction(1), Fraction(2), Fraction(3)])
                iv = [["GS", q2s(lo)], ["GS", q2s(hi)], r.choice("TF"), r.choice("TF")]
            else:
                iv = [["GS", q2s(lo)], ["GE", "0"], r.choice("TF"), r.choice("FFT")]
            if iv in usedi:
                continue
            usedi.append(iv)
            tgoal.append([iv] + [self.cond([])])
        ps = ["problem", "tp", ["types"] + T_TYPES, ["objects"] + T_OBJECTS, ["fluents"] + fluents, ["init"] + init,
              ["actions"] + iacts, ["goals"] + goals, ["traj"] + traj, ["metrics"]]
        temporal = ["temporal", ["dactions"] + dacts, ["teff"] + teff, ["tgoal"] + tgoal]
        return ps, temporal

    def plan(self, ps, temporal):
        r = self.rng
        names = [(a[1], a[2], None) for a in upp.get(ps, "actions")] + [(d[1], d[2], d[3]) for d in tsec(temporal, "dactions")]
        entries = []
        for _ in range(r.choice([1, 2, 2, 3, 3, 4])):
            name, params, dur = r.choice(names)
            args = [r.choice(["o1", "o2"]) for _ in params]
            start = r.choice(self.GRID)
            if dur is None:
                du = "-"
            else:
                lo = Fraction(dur[1][1]) if dur[1][0] in ("i", "r") else Fraction(1)
                hi = Fraction(dur[2][1]) if dur[2][0] in ("i", "r") else lo + Fraction(1, 2)
                if r.random() < 0.7:
                    good = [(lo + hi) / 2]
                    if dur[3] == "F":
                        good.append(lo)
                    if dur[4] == "F":
                        good.append(hi)
                    q = r.choice(good)
                else:
                    # the bounds themselves whatever their openness, and just outside
                    q = r.choice([lo, hi, lo, hi, lo - Fraction(1, 2), hi + Fraction(1, 2)])
                du = q2s(max(q, Fraction(1)))
            entries.append([q2s(start), name, args, du])
        return entries


KIND_NAMES = {TimepointKind.START: "S", TimepointKind.END: "E", TimepointKind.GLOBAL_START: "GS", TimepointKind.GLOBAL_END: "GE"}


def enc_timing(t):
    return [KIND_NAMES[t.timepoint.kind], q2s(Fraction(t.delay))]


def enc_interval(i):
    return [enc_timing(i.lower), enc_timing(i.upper), "T" if i.is_left_open() else "F", "T" if i.is_right_open() else "F"]


def enc_temporal(P):
    """the temporal section as the REAL problem stores it (duplicates dropped, insertion orders of the dicts)"""
    das = []
    for a in P.actions:
        if isinstance(a, DurativeAction):
            d = a.duration
            das.append(["daction", a.name, [[p.name, upx.enc_ty(p.type)] for p in a.parameters],
                        ["dur", upx.enc_expr(d.lower), upx.enc_expr(d.upper), "T" if d.is_left_open() else "F",
                         "T" if d.is_right_open() else "F"],
                        ["conds"] + [[enc_interval(i)] + [upx.enc_expr(c) for c in cs] for i, cs in a.conditions.items()],
                        ["effs"] + [[enc_timing(t)] + [upp.enc_effect(e) for e in es] for t, es in a.effects.items()]])
    return ["temporal", ["dactions"] + das,
            ["teff"] + [[enc_timing(t)] + [upp.enc_effect(e) for e in es] for t, es in P.timed_effects.items()],
            ["tgoal"] + [[enc_interval(i)] + [upx.enc_expr(g) for g in gs] for i, gs in P.timed_goals.items()]]


def canonical(ps, temporal):
    """(problem, temporal) re-read from the real objects, or None when the builders reject the case or do not
    reproduce it (then the case is kept out)"""
    try:
        P, _ = upp.build_problem(ps)
        cps = upp.enc_problem(P)
        b = build(cps, temporal)
        ct = enc_temporal(b.P)
        b2 = build(cps, ct)
        if enc_temporal(b2.P) != ct:
            return None
    except Exception:
        return None
    return cps, ct


def make_case_c05(rng):
    """a canonical temporal problem and a plan; the plan is searched for (up to 10 random plans tried with the REAL
    validator, goals / timed goals dropped after 6 failures in half of the cases) so that about half of the cases are
    VALID; the rest are near misses"""
    while True:
        g = TGen(rng)
        ps, temporal = g.problem()
        c = canonical(ps, temporal)
        if c is None:
            KEPT_OUT["builder-rejected"] += 1
            continue
        ps, temporal = c
        want_valid = rng.random() < 0.7
        relax = rng.random() < 0.5
        plan = g.plan(ps, temporal)
        if want_valid:
            for attempt in range(10):
                if attempt == 6 and relax:
                    ps = with_goals(ps, [])
                    temporal = [temporal[0], temporal[1], temporal[2], ["tgoal"]]
                try:
                    v = run_tt(build(ps, temporal), plan)
                except Exception:
                    v = None
                if v == "valid":
                    break
                plan = g.plan(ps, temporal)
        return ["c05", ps, temporal, ["plan"] + plan]


# ------------------------------------------------------------------------------------------------
# C05: independent reference semantics (ORACLE side) — the reading of lean/UPVerif/Spec/Temporal.lean
# written from the property text with sets / intervals, no event queue, no accumulators
# ------------------------------------------------------------------------------------------------

class OutOfDomain(Exception):
    """the case is outside the domain of the semantics (something scheduled before the start of its action or
    before time 0, an empty condition interval, a timing the problem-level constructs do not admit)"""


INF = None


def subst_params(e, m):
    """replace the parameters `m: name -> object s-expression` in an expression s-expression"""
    if not isinstance(e, list) or not e:
        return e
    h = e[0]
    if h == "p":
        return m.get(e[1], e)
    if h in ("b", "i", "r", "o", "v", "timing", "present"):
        return e
    if h in ("fl", "ifun"):
        return [h, e[1]] + [subst_params(a, m) for a in e[2:]]
    if h in ("exists", "forall"):
        return [h, e[1], subst_params(e[2], m)]
    return [h] + [subst_params(a, m) for a in e[1:]]


def initial_map(ps):
    objtype = dict(map(tuple, upp.get(ps, "objects")))
    init = {}
    for f, v in upp.get(ps, "init"):
        init[sexp.dumps(f)] = pyden.den(v, {"fl": {}, "fn": {}, "par": {}, "dom": {}})
    m = {}
    for ref, d in upp.get(ps, "fluents"):
        doms = [upp.objects_of(ps, t[1]) for t in ref[2]]
        for combo in product(*doms):
            fe = ["fl", ref] + [["o", o, objtype[o]] for o in combo]
            k = (pyden.key(ref), tuple(("o", o) for o in combo))
            if sexp.dumps(fe) in init:
                m[k] = init[sexp.dumps(fe)]
            elif d != "_":
                m[k] = pyden.den(d, {"fl": {}, "fn": {}, "par": {}, "dom": {}})
    return m


def _meets(a, b, lo, hi, lopen, ropen):
    """does the span (a, b] of a state (a = -inf: None, b = +inf: None; then (a, +inf)) contain a time point of the
    interval from lo to hi (hi None = +inf) with the given openness?"""
    # greatest lower bound and whether it is excluded
    if a is None or a < lo:
        L, sl = lo, lopen
    else:
        L, sl = a, True
    # least upper bound and whether it is excluded
    if hi is None and b is None:
        return True
    if b is None or (hi is not None and hi <= b):
        U, su = hi, ropen
    else:
        U, su = b, False
    return L < U or (L == U and not sl and not su)


def spec_valid(b, plan):
    """True / False: is the plan valid for the problem `b` (a Built) in the reference temporal semantics?
    Raises OutOfDomain outside the semantics' domain."""
    from unified_planning.engines.compilers.grounder import GrounderHelper
    ps, temporal = b.ps, b.temporal
    objtype = b.objtype
    das = {d[1]: d for d in tsec(temporal, "dactions")}
    ias = {a[1]: a for a in upp.get(ps, "actions")}
    events = []      # (time, tag, [effect sexps])
    conds = []       # (lo, hi, lopen, ropen, expr)

    def inst_timing(t, start, dur):
        k, d = t[0], Fraction(t[1])
        if k in ("S", "GS"):
            return start + d
        if k == "GE":
            return INF
        if dur is None:
            raise OutOfDomain("end timing without a duration")
        return start + dur + d

    for te in tsec(temporal, "teff"):
        if te[0][0] != "GS":
            raise OutOfDomain("timed effect not from the global start")
        events.append((inst_timing(te[0], Fraction(0), None), None, te[1:], Fraction(0)))
    for tg in tsec(temporal, "tgoal"):
        lo = inst_timing(tg[0][0], Fraction(0), None)
        if lo is INF or tg[0][0][0] != "GS" or tg[0][1][0] not in ("GS", "GE"):
            raise OutOfDomain("timed goal interval")
        hi = inst_timing(tg[0][1], Fraction(0), None)
        for g in tg[1:]:
            conds.append((lo, hi, tg[0][2] == "T", tg[0][3] == "T", g))
    for inv in simlib.problem_invariants(ps):
        conds.append((Fraction(0), INF, False, False, inv))
    grounder = GrounderHelper(b.P, prune_actions=False)
    for idx, (st, name, args, du) in enumerate(plan):
        start = Fraction(st)
        if name in ias:
            act = b.P.action(name)
            params = tuple(b.ctx.em.ObjectExp(b.ctx.obj(o, objtype[o])) for o in args)
            ga = grounder.ground_action(act, params)
            if ga is None:
                return False                                  # the instance does not ground
            events.append((start, idx, [upp.enc_effect(e) for e in ga.effects], start))
            for c in ga.preconditions:
                conds.append((start, start, False, False, upx.enc_expr(c)))
        else:
            d = das[name]
            if du == "-":
                raise OutOfDomain("durative action without a duration")
            dur = Fraction(du)
            m = {pn: ["o", o, objtype[o]] for (pn, _), o in zip(d[2], args)}
            lo_e, hi_e = subst_params(d[3][1], m), subst_params(d[3][2], m)
            dq = ["r", q2s(dur)]
            lc = ["lt", lo_e, dq] if d[3][3] == "T" else ["le", lo_e, dq]
            uc = ["lt", dq, hi_e] if d[3][4] == "T" else ["le", dq, hi_e]
            conds.append((start, start, False, False, ["and", lc, uc]))
            for te in d[5][1:]:
                t = inst_timing(te[0], start, dur)
                if t is INF:
                    raise OutOfDomain("action effect at the global end")
                effs = [["eff", e[1], subst_params(e[2], m), subst_params(e[3], m), subst_params(e[4], m), e[5]] for e in te[1:]]
                events.append((t, idx, effs, start))
            for c in d[4][1:]:
                lo = inst_timing(c[0][0], start, dur)
                hi = inst_timing(c[0][1], start, dur)
                if lo is INF or hi is INF:
                    raise OutOfDomain("action condition up to the global end")
                for e in c[1:]:
                    conds.append((lo, hi, c[0][2] == "T", c[0][3] == "T", subst_params(e, m)))
    # the domain of the semantics
    for t, _, _, start in events:
        if t < start or t < 0:
            raise OutOfDomain("event before the start of its action instance")
    for lo, hi, lopen, ropen, _ in conds:
        if lo < 0:
            raise OutOfDomain("condition before time 0")
        if hi is not INF and not (lo < hi or (lo == hi and not lopen and not ropen)):
            raise OutOfDomain("empty condition interval")
    # the instants
    times = sorted({t for t, _, _, _ in events})
    states = [initial_map(ps)]
    for t in times:
        pre = states[-1]
        I = simlib._interp(ps, pre)
        fired = []     # (tag, kind, key, fluent type, value)
        for tt, tag, effs, _ in events:
            if tt != t:
                continue
            for e in effs:
                _, kind, fl, val, cond, vs = e
                doms = [upp.objects_of(ps, ty[1]) for _, ty in vs]
                for combo in product(*doms):
                    env = {(n, pyden.key(ty)): ["o", o, objtype[o]] for (n, ty), o in zip(vs, combo)}
                    f1, v1, c1 = simlib.subst_vars(fl, env), simlib.subst_vars(val, env), simlib.subst_vars(cond, env)
                    argv = [pyden.den(a, I) for a in f1[2:]]
                    if any(a is None for a in argv):
                        return False                          # an undefined read
                    cv = pyden.den(c1, I)
                    if cv is None or cv[0] != "b":
                        return False
                    if not cv[1]:
                        continue
                    vv = pyden.den(v1, I)
                    if vv is None:
                        return False
                    fired.append((tag, kind, (pyden.key(f1[1]), tuple(argv)), f1[1][1], vv))
        succ = dict(pre)
        for k in {f[2] for f in fired}:
            asg = [(tag, v) for tag, kind, kk, _, v in fired if kk == k and kind == "assign"]
            inc = [v for _, kind, kk, _, v in fired if kk == k and kind == "increase"]
            dec = [v for _, kind, kk, _, v in fired if kk == k and kind == "decrease"]
            ty = next(t_ for _, _, kk, t_, _ in fired if kk == k)
            if len({tag for tag, _ in asg}) > 1:
                return False                                  # assigned by two different action instances
            if asg and (inc or dec):
                return False
            if asg:
                if ty == "bool":
                    succ[k] = ("b", any(v == ("b", True) for _, v in asg))
                else:
                    if len({v for _, v in asg}) > 1:
                        return False
                    succ[k] = asg[0][1]
            else:
                if k not in pre or pre[k][0] != "n":
                    return False
                succ[k] = ("n", pre[k][1] + sum((v[1] for v in inc), Fraction(0)) - sum((v[1] for v in dec), Fraction(0)))
        states.append(succ)
    # state j is in force on the span (times[j-1], times[j]]
    spans = [(None if j == 0 else times[j - 1], None if j == len(times) else times[j]) for j in range(len(states))]
    for lo, hi, lopen, ropen, e in conds:
        for (a, bb), smap in zip(spans, states):
            if _meets(a, bb, lo, hi, lopen, ropen):
                if pyden.den(e, simlib._interp(ps, smap)) != ("b", True):
                    return False
    Ilast = simlib._interp(ps, states[-1])
    for g in upp.get(ps, "goals"):
        if pyden.den(g, Ilast) != ("b", True):
            return False
    return True
