#!/usr/bin/env python3
"""usage: harness/mk_mut_brief.py Cxx n [extra hint]  -> creates a scratch worktree /tmp/mut-Cxx-n of /repo HEAD with MUTATION/BRIEF.txt
(the property text only — nothing from /verif) and prints the worktree path."""
import json, os, subprocess, sys
pid, n = sys.argv[1], sys.argv[2]
hint = sys.argv[3] if len(sys.argv) > 3 else ""
wt = f"/tmp/mut-{pid}-{n}"
props = {json.loads(l)["id"]: json.loads(l) for l in open("/verif/properties.jsonl")}
p = props[pid]
subprocess.run(["git", "-C", "/repo", "worktree", "add", "-q", "--detach", wt, "HEAD"], check=True)
os.makedirs(f"{wt}/MUTATION", exist_ok=True)
t = open("/verif/notes/mut/TEMPLATE.txt").read()
t = (t.replace("@@WT@@", wt).replace("@@TITLE@@", p["title"]).replace("@@STMT@@", p["statement"])
      .replace("@@QUANT@@", p["quantifier"]["text"]).replace("@@FILES@@", ", ".join(p["anchors"]["files"])).replace("@@PID@@", pid))
if hint:
    t += "\n\nADDITIONAL REQUEST: " + hint
open(f"{wt}/MUTATION/BRIEF.txt", "w").write(t)
print(wt)
