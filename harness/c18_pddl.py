"""Shared helpers of the PDDL input/output checks C18 and C21 (harness; trusted base of the correspondence).

  PddlGen(rng, ...)        seeded generator of problems (wire format of harness/upp.py) inside the PDDL-expressible
                           fragment: typed (flat / hierarchical) classical + numeric problems with quantifiers,
                           conditional and universal effects, action costs; adversarial identifiers
  tokenize(text)           PDDL text -> s-expression tree (nested lists of str)
  render(tree)             tree -> PDDL text
  behav_diff(P, Q, ...)    the behavioural comparison used by the property oracles (real simulator / validator)
"""
import warnings
from fractions import Fraction
from itertools import product

warnings.simplefilter("ignore")
import unified_planning as up
from unified_planning.engines.sequential_simulator import UPSequentialSimulator
from unified_planning.model.fluent import get_all_fluent_exp
from unified_planning.plans import ActionInstance, SequentialPlan

import sexp
import upp
from upx import q2s

# ----------------------------------------------------------------------------------------------
# text <-> tree
# ----------------------------------------------------------------------------------------------


def tokenize(text):
    """PDDL text -> tree.  `;` starts a comment; parentheses nest; every other maximal run of non-blank characters is an atom,
    except that `-name` (a type separator glued to a type name, as in `?b -boat`) is two atoms, as for pyparsing."""
    toks, i, n = [], 0, len(text)
    while i < n:
        c = text[i]
        if c == ";":
            while i < n and text[i] != "\n":
                i += 1
        elif c in "()":
            toks.append(c)
            i += 1
        elif c.isspace():
            i += 1
        else:
            j = i
            while j < n and text[j] not in "();" and not text[j].isspace():
                j += 1
            tok = text[i:j]
            if len(tok) > 1 and tok[0] == "-" and tok[1].isalpha():
                toks.append(("a", "-"))
                tok = tok[1:]
            toks.append(("a", tok))
            i = j
    stack = [[]]
    for t in toks:
        if t == "(":
            stack.append([])
        elif t == ")":
            if len(stack) < 2:
                raise ValueError("unbalanced )")
            x = stack.pop()
            stack[-1].append(x)
        else:
            stack[-1].append(t[1])
    if len(stack) != 1 or len(stack[0]) != 1:
        raise ValueError("not exactly one top-level form")
    return stack[0][0]


def render(tree, indent=0):
    if isinstance(tree, str):
        return tree
    inner = " ".join(render(t) for t in tree)
    return "(" + inner + ")"


def render_top(tree):
    """one top-level form per line of the `define` (keeps `:requirements` on one line, as extract_pddl_requirements needs)"""
    assert isinstance(tree, list)
    head = " ".join(render(t) for t in tree[:2])
    return "(" + head + "\n " + "\n ".join(render(t) for t in tree[2:]) + "\n)\n"


# ----------------------------------------------------------------------------------------------
# generator
# ----------------------------------------------------------------------------------------------

PLAIN = {"types": ["T", "S", "U", "R"], "objects": ["t1", "s1", "s2", "u1", "r1", "t2"],
         "bool": ["b0", "b1", "bq", "br"], "num": ["x", "xb", "xq", "z", "zb", "zq"],
         "actions": ["a0", "a1", "a2"], "params": ["p0", "p1", "p2"], "vars": ["w", "k", "q1"]}

# adversarial identifiers: PDDL keywords, upper case (PDDL is case-insensitive), leading digits, symbols, names that are
# the mangled form of other names, names that differ only by case or by a replaced symbol
ADV = ["and", "AT", "at", "Move", "move", "MOVE", "1st", "2", "a-b", "a b", "a.b", "a_b", "x.y", "x_y", "object", "Object",
       "total-cost", "start", "end", "f_0", "f_1", "number", "either", "not", "exists", "imply", "when", "increase",
       "define", "domain", "o_1st", "a_1st", "f_1st", "p_1st", "move_0", "move_", "and_", "?x", "x", "X", "é", "_u", "-d",
       "assign", "forall", "effect", "over", "all", "duration", "minimize", "time", "T", "t", "0x", "q!", "q?", "q_"]


class PddlGen:
    def __init__(self, rng, adversarial=False, numeric=True, hierarchy=None, quantifiers=True, metrics=True,
                 reals="finite", traj=False, undefined_numeric=False, bounded=False, nonempty=True, nonneg=False):
        self.rng = rng
        r = rng
        self.adv = adversarial
        self.numeric = numeric
        self.quantifiers = quantifiers
        self.metrics = metrics
        self.reals = reals
        self.traj = traj
        self.undefined_numeric = undefined_numeric
        self.nonneg = nonneg
        self.used = set()
        hier = r.random() < 0.6 if hierarchy is None else hierarchy
        # ---- types
        tn = [self.name("types") for _ in range(4)]
        if hier:
            k = r.random()
            if k < 0.5:
                self.types = [[tn[0], "_"], [tn[1], tn[0]], [tn[2], "_"]]
            elif k < 0.8:
                self.types = [[tn[0], "_"], [tn[1], tn[0]], [tn[3], tn[1]], [tn[2], "_"]]
            else:
                self.types = [[tn[0], "_"], [tn[1], tn[0]], [tn[2], tn[0]]]
        else:
            self.types = [[t, "_"] for t in tn[:r.choice([1, 2, 3])]]
        self.fathers = {n: (None if f == "_" else f) for n, f in self.types}
        # ---- objects (a type may stay without objects)
        self.objects = []
        for t, _ in self.types:
            for _ in range(r.choice([1, 1, 1, 2, 2]) if nonempty else r.choice([0, 1, 1, 2, 2])):
                self.objects.append([self.name("objects"), t])
        if not self.objects:
            self.objects.append([self.name("objects"), self.types[0][0]])
        r.shuffle(self.objects)
        # ---- fluents
        U = lambda n: ["user", n]
        tys = [t for t, _ in self.types]
        self.bool_fl, self.num_fl = [], []
        for i in range(r.choice([2, 3, 4])):
            sig = [U(r.choice(tys)) for _ in range(r.choice([0, 0, 1, 1, 2]))]
            self.bool_fl.append([self.name("bool"), "bool", sig])
        if numeric:
            for i in range(r.choice([1, 2, 3])):
                sig = [U(r.choice(tys)) for _ in range(r.choice([0, 0, 1]))]
                k = r.random()
                if k < 0.45:
                    ty = ["int", "_", "_"]
                elif k < 0.9 or not bounded:
                    ty = ["real", "_", "_"]
                elif k < 0.95:
                    ty = ["int", str(r.choice([0, -2])), str(r.choice([4, 6]))]
                else:
                    ty = ["real", "0", r.choice(["5/2", "7"])]
                self.num_fl.append([self.name("num"), ty, sig])
        self.fresh = 0

    # ---- names ---------------------------------------------------------------------------------
    def name(self, kind):
        r = self.rng
        for _ in range(50):
            if self.adv and r.random() < 0.7:
                n = r.choice(ADV)
            else:
                n = r.choice(PLAIN[kind])
                if r.random() < 0.3:
                    n = n + str(r.randint(0, 9))
            # global uniqueness (the library rejects a name used twice across kinds when error_used_name is set; the
            # harness environment disables that, but equal names of one kind are always rejected)
            if n not in self.used:
                self.used.add(n)
                return n
        self.fresh += 1
        n = f"{kind[0]}n{self.fresh}"
        self.used.add(n)
        return n

    def is_sub(self, t, u):
        while t is not None:
            if t == u:
                return True
            t = self.fathers.get(t)
        return False

    def objs_of(self, t):
        return [o for o in self.objects if self.is_sub(o[1], t)]

    # ---- expressions ---------------------------------------------------------------------------
    def term(self, tyname, params, scope):
        r = self.rng
        opts = [["o", o, ot] for o, ot in self.objs_of(tyname)]
        for pn, pt in params:
            if self.is_sub(pt[1], tyname):
                opts += [["p", pn, pt]] * 3
        for vn, vt in scope:
            if self.is_sub(vt[1], tyname):
                opts += [["v", vn, vt]] * 4
        return r.choice(opts) if opts else None

    def fl_app(self, ref, params, scope):
        args = []
        for t in ref[2]:
            a = self.term(t[1], params, scope)
            if a is None:
                return None
            args.append(a)
        return ["fl", ref] + args

    def const_int(self):
        if self.nonneg:
            return ["i", str(self.rng.choice([0, 1, 1, 2, 3, 5, 7, 12, 100]))]
        return ["i", str(self.rng.choice([0, 1, 1, 2, 3, 5, -1, -4, 7, 12, 100]))]

    def const_real(self):
        r = self.rng
        if self.reals == "any" and r.random() < 0.3:
            return ["r", r.choice(["1/3", "2/7", "12345678901/100", "1/1024", "-22/7", "123456789/1000000000000"])]
        if self.nonneg:
            return ["r", r.choice(["1/2", "3/2", "5/2", "1/4", "1/8", "1/10", "3/100", "1/100000", "25/2", "123456789/100"])]
        return ["r", r.choice(["1/2", "3/2", "5/2", "-1/2", "1/4", "1/8", "1/10", "3/100", "1/100000", "1/10000000",
                               "25/2", "123456789/100", "-7/4"])]

    def num(self, depth, params, scope, real_ok=True):
        r = self.rng
        if not self.num_fl:
            return self.const_int()
        if depth <= 0 or r.random() < 0.3:
            k = r.random()
            if k < 0.35:
                return self.const_int()
            if k < 0.5 and real_ok:
                return self.const_real()
            cands = [f for f in self.num_fl if real_ok or f[1][0] == "int"]
            if cands:
                e = self.fl_app(r.choice(cands), params, scope)
                if e is not None:
                    return e
            return self.const_int()
        k = r.random()
        sub = lambda: self.num(depth - 1, params, scope, real_ok)
        if k < 0.35:
            n = r.choice([2, 2, 3, 4])
            return ["plus"] + [sub() for _ in range(n)]
        if k < 0.6:
            return ["minus", sub(), sub()]
        if k < 0.85:
            n = r.choice([2, 2, 3])
            return ["times"] + [sub() for _ in range(n)]
        if real_ok:
            d = r.choice([["i", "2"], ["i", "4"], ["i", "5" if self.nonneg else "-5"], ["r", "1/2"], ["i", "8"]])
            return ["div", sub(), d]
        return sub()

    def boolean(self, depth, params, scope):
        r = self.rng
        if depth <= 0 or r.random() < 0.25:
            e = self.fl_app(r.choice(self.bool_fl), params, scope)
            if e is not None:
                return e
            for f in self.bool_fl:
                e = self.fl_app(f, params, scope)
                if e is not None:
                    return e
            return ["le", self.const_int(), self.const_int()]
        k = r.random()
        sub = lambda: self.boolean(depth - 1, params, scope)
        if k < 0.2:
            n = r.choice([2, 2, 3])
            args = [sub() for _ in range(n)]
            if r.random() < 0.2:
                args[r.randrange(n)] = ["and", sub(), sub()]
            return ["and"] + args
        if k < 0.38:
            n = r.choice([2, 2, 3])
            args = [sub() for _ in range(n)]
            if r.random() < 0.2:
                args[r.randrange(n)] = ["or", sub(), sub()]
            return ["or"] + args
        if k < 0.52:
            return ["not", sub()]
        if k < 0.6:
            return ["implies", sub(), sub()]
        if k < 0.66:
            return ["iff", sub(), sub()]
        if k < 0.82 and self.num_fl:
            op = r.choice(["le", "lt", "eq", "le", "lt"])
            a, b = self.num(depth - 1, params, scope), self.num(depth - 1, params, scope)
            if r.random() < 0.05:
                a, b = self.const_int(), self.const_int()
            return [op, a, b]
        if k < 0.9:
            tys = [t for t, _ in self.types]
            ta = r.choice(tys)
            tb = r.choice(tys) if r.random() < 0.3 else ta
            a, b = self.term(ta, params, scope), self.term(tb, params, scope)
            if a is None or b is None or not (self.is_sub(ta, tb) or self.is_sub(tb, ta)):
                return sub()
            return ["eq", a, b]
        if self.quantifiers:
            q = r.choice(["exists", "forall"])
            vs, sc = [], list(scope)
            for _ in range(r.choice([1, 1, 1, 2])):
                self.fresh += 1
                vn = (self.name("vars") if self.adv and r.random() < 0.5 else f"q{self.fresh}")
                v = [vn, ["user", r.choice([t for t, _ in self.types])]]
                if any(x[0] == vn for x in sc) or any(pn == vn for pn, _ in params):
                    continue
                vs.append(v)
                sc.append(v)
            if not vs:
                return sub()
            return [q, vs, self.boolean(depth - 1, params, sc)]
        return sub()

    # ---- actions -------------------------------------------------------------------------------
    def effect(self, params):
        r = self.rng
        scope = []
        if r.random() < 0.25:
            self.fresh += 1
            scope = [[f"e{self.fresh}", ["user", r.choice([t for t, _ in self.types])]]]
        pool = self.bool_fl * 2 + self.num_fl
        for _ in range(20):
            ref = r.choice(pool)
            f = self.fl_app(ref, params, scope)
            if f is not None:
                break
        else:
            return None
        kind = "assign"
        if ref[1] == "bool":
            v = ["b", r.choice(["T", "F"])]
        else:
            if r.random() < 0.55:
                kind = r.choice(["increase", "decrease"])
            is_int = ref[1][0] == "int"
            if kind == "assign":
                v = self.num(1, params, scope, real_ok=not is_int) if r.random() < 0.5 else \
                    (self.const_int() if is_int or r.random() < 0.5 else self.const_real())
                if ref[1][1] != "_" and v[0] == "i":
                    v = ["i", str(r.randint(int(Fraction(ref[1][1])), int(Fraction(ref[1][2]))))]
            else:
                v = ["i", str(r.choice([1, 1, 2, 3]))] if is_int or r.random() < 0.5 else self.const_real()
                if v[0] == "r" and Fraction(v[1]) < 0:
                    v = ["r", "1/2"]
                if r.random() < 0.25:
                    v = self.num(1, params, scope, real_ok=not is_int)
        c = ["b", "T"] if r.random() < 0.55 else self.boolean(1, params, scope)
        used = sexp.dumps([f, v, c])
        scope = [sv for sv in scope if sexp.dumps(["v", sv[0], sv[1]]) in used]
        return ["eff", kind, f, v, c, scope]

    def action(self, name):
        r = self.rng
        tys = [t for t, _ in self.types]
        params, seen = [], set()
        for j in range(r.choice([0, 1, 1, 2, 2])):
            pn = self.name("params") if self.adv and r.random() < 0.6 else f"p{j}"
            if pn in seen:
                continue
            seen.add(pn)
            params.append([pn, ["user", r.choice(tys)]])
        pre = [self.boolean(r.choice([1, 2]), params, []) for _ in range(r.choice([0, 1, 1, 2]))]
        effs = []
        for _ in range(r.choice([1, 2, 2, 3, 4])):
            e = self.effect(params)
            if e is not None:
                effs.append(e)
        return ["action", name, params, ["pre"] + pre, ["effs"] + effs]

    def const_for(self, ref):
        r = self.rng
        ty = ref[1]
        if ty == "bool":
            return ["b", r.choice(["T", "F"])]
        if ty[0] == "int":
            lo = int(ty[1]) if ty[1] != "_" else (0 if self.nonneg else -1)
            hi = int(ty[2]) if ty[2] != "_" else 3
            return ["i", str(r.randint(lo, hi))]
        lo = Fraction(ty[1]) if ty[1] != "_" else Fraction(0 if self.nonneg else -1)
        hi = Fraction(ty[2]) if ty[2] != "_" else Fraction(3)
        q = lo + (hi - lo) * Fraction(r.randint(0, 4), 4)
        return ["i", str(q.numerator)] if q.denominator == 1 else ["r", q2s(q)]

    def problem(self, name=None):
        r = self.rng
        pname = name if name is not None else (self.name("actions") if self.adv else "prob")
        fluents, init = [], []
        for ref in self.bool_fl + self.num_fl:
            undefined = self.undefined_numeric and ref[1] != "bool" and r.random() < 0.2
            if undefined:
                fluents.append([ref, "_"])
                continue
            k = r.random()
            if k < 0.5:
                fluents.append([ref, self.const_for(ref)])
                if r.random() < 0.5:     # explicit values on top of the default
                    for combo in product(*[self.objs_of(t[1]) for t in ref[2]]):
                        if r.random() < 0.5:
                            init.append([["fl", ref] + [["o", o, ot] for o, ot in combo], self.const_for(ref)])
            else:
                fluents.append([ref, "_"])
                for combo in product(*[self.objs_of(t[1]) for t in ref[2]]):
                    init.append([["fl", ref] + [["o", o, ot] for o, ot in combo], self.const_for(ref)])
        r.shuffle(init)
        actions = [self.action(self.name("actions")) for _ in range(r.choice([1, 2, 2, 3]))]
        goals = [self.boolean(r.choice([1, 2]), [], []) for _ in range(r.choice([0, 1, 1, 2]))]
        traj = []
        metrics = []
        if self.metrics and r.random() < 0.5:
            k = r.random()
            if k < 0.5:
                costs = []
                for a in actions:
                    if r.random() < 0.75:
                        costs.append([a[1], r.choice([["i", "1"], ["i", "3"], ["r", "1/2"], ["i", "0"],
                                                      self.num(1, a[2], []), self.num(1, a[2], [])])])
                dflt = r.choice([["i", "1"], ["i", "0"], ["i", "2"]])
                if len(costs) == len(actions) and r.random() < 0.5:
                    dflt = "_"
                metrics.append(["min-action-costs", costs, dflt])
            elif k < 0.65:
                metrics.append(["min-length"])
            elif self.num_fl:
                for _ in range(10):
                    e = self.num(1, [], [])
                    if '(fl ' in sexp.dumps(e):
                        metrics.append([r.choice(["min-final", "max-final"]), e])
                        break
        return ["problem", pname, ["types"] + self.types, ["objects"] + self.objects, ["fluents"] + fluents,
                ["init"] + init, ["actions"] + actions, ["goals"] + goals, ["traj"] + traj, ["metrics"] + metrics]


def flat_args(e, kind_pred):
    out = []
    for a in e.args:
        if kind_pred(a):
            out.extend(flat_args(a, kind_pred))
        else:
            out.append(a)
    return out


def has_dup_operands(e):
    """some + or * (nested applications of the same operator flattened) has two equal operands"""
    for pred in (lambda x: x.is_plus(), lambda x: x.is_times()):
        if pred(e):
            fa = flat_args(e, pred)
            if len(set(fa)) != len(fa):
                return True
    return any(has_dup_operands(a) for a in e.args)


def has_nonfinite_constant(e):
    """a rational constant without finite decimal expansion (outside the property's quantifier unless reals='any')"""
    if e.is_real_constant():
        d = e.constant_value().denominator
        for p in (2, 5):
            while d % p == 0:
                d //= p
        return d != 1
    return any(has_nonfinite_constant(a) for a in e.args)


def all_expressions(P):
    for a in P.actions:
        for c in a.preconditions:
            yield "pre", c
        for e in a.effects:
            yield "cond", e.condition
            yield "value", e.value
    for g in P.goals:
        yield "goal", g
    for m in P.quality_metrics:
        if m.is_minimize_action_costs():
            for a in P.actions:
                c = m.get_action_cost(a)
                if c is not None:
                    yield "cost", c
        elif m.is_minimize_expression_on_final_state() or m.is_maximize_expression_on_final_state():
            yield "metric", m.expression


def outside_fragment(P, allow_nonfinite=False):
    """reading decisions that keep the generated problems inside the property's fragment (see ASSUMPTIONS of C18);
    returns the name of the excluded feature or None"""
    from unified_planning.model import InstantaneousAction
    for where, e in all_expressions(P):
        s = e.simplify()
        if where == "goal" and s.is_false():
            return "goal-false"
        if where == "metric" and s.is_constant():
            return "metric-constant"
        if has_dup_operands(s) or has_dup_operands(e):
            return "dup-operands"
        if not allow_nonfinite and (has_nonfinite_constant(s) or has_nonfinite_constant(e)):
            return "non-finite-decimal"
    for a in P.actions:
        # effects that become unconditional once their condition is simplified must not be statically conflicting
        # (the library rejects such actions when they are rebuilt by a reader, in whatever order)
        effs = [(e, e.condition.simplify()) for e in a.effects]
        effs = [(e, c) for e, c in effs if not c.is_false()]
        depth = lambda ec: (1 if ec[0].is_forall() else 0) + (0 if ec[1].is_true() else 1)
        for order in (effs, sorted(effs, key=depth), list(reversed(effs))):
            b = InstantaneousAction("probe", dict((p.name, p.type) for p in a.parameters), a.environment)
            try:
                for e, c in order:
                    fn = b.add_effect if e.is_assignment() else b.add_increase_effect if e.is_increase() else b.add_decrease_effect
                    fn(e.fluent, e.value.simplify(), c, forall=e.forall)
            except Exception:
                return "static-conflict"
    return None


def gen_problem(rng, tries=60, **kw):
    """a generated problem that the real model builder accepts and that lies inside the fragment: (sexp, Problem, Ctx)"""
    last = None
    for _ in range(tries):
        g = PddlGen(rng, **kw)
        ps = g.problem()
        try:
            P, ctx = upp.build_problem(ps)
        except Exception as e:      # conflicting effects, bounds, ... : structurally rejected by the library
            last = e
            continue
        why = outside_fragment(P, allow_nonfinite=kw.get("reals") == "any")
        if why is None:
            return ps, P, ctx
        last = why
    raise RuntimeError(f"generator could not build a problem: {last!r}")


# ----------------------------------------------------------------------------------------------
# behavioural comparison (property oracle)
# ----------------------------------------------------------------------------------------------

def const_val(c):
    if c is None:
        return "undef"
    if c.is_bool_constant():
        return c.bool_constant_value()
    if c.is_int_constant() or c.is_real_constant():
        return Fraction(c.constant_value())
    if c.is_object_exp():
        return ("obj", c.object().name)
    return ("exp", str(c))


def ground_fluents(P):
    out = []
    for f in P.fluents:
        out.extend(get_all_fluent_exp(P, f))
    return out


def state_map(P, sim_state, key_of):
    """ground fluent key -> value of a simulator state"""
    out = {}
    for fe in ground_fluents(P):
        try:
            v = const_val(sim_state.get_value(fe))
        except Exception:
            v = "undef"
        out[key_of(fe)] = v
    return out


def init_map(P, key_of):
    iv = P.initial_values
    out = {}
    for fe in ground_fluents(P):
        out[key_of(fe)] = const_val(iv.get(fe))
    return out


def ground_actions(P):
    out = []
    for a in P.actions:
        doms = [list(P.objects(p.type)) for p in a.parameters]
        for combo in product(*doms):
            out.append((a, combo))
    return out


class Side:
    """one problem + simulator; failures of the simulator are values, not exceptions"""

    def __init__(self, P):
        self.P = P
        self.sim = UPSequentialSimulator(P, error_on_failed_checks=False)

    def initial(self):
        return self.sim.get_initial_state()

    def step(self, st, a, objs):
        """successor or None (inapplicable) or ('err', class)"""
        if a is None:
            return None
        try:
            return self.sim.apply(st, a, objs)
        except Exception as e:
            return ("err", type(e).__name__)

    def is_goal(self, st):
        try:
            return bool(self.sim.is_goal(st))
        except Exception as e:
            return ("err", type(e).__name__)


def behav_diff(P, Q, rename_t, rename_f, rename_o, rename_a, depth, width=6, check_metric=True):
    """P original, Q re-read.  rename_* : name of the original item -> name in Q.  Returns None or a failing clause.
    Also returns (through the second component) a plan of P found while exploring."""
    em = Q.environment.expression_manager

    # -- objects per type
    for t in P.user_types:
        qn = rename_t(t.name)
        if not Q.has_type(qn):
            if list(P.objects(t)):
                return f"type {t.name} -> {qn} missing in the re-read problem", None
            continue
        a = sorted(rename_o(o.name) for o in P.objects(t))
        b = sorted(o.name for o in Q.objects(Q.user_type(qn)))
        if a != b:
            return f"objects of type {t.name}: {a} vs {b}", None

    def keyP(fe):
        return (rename_f(fe.fluent().name),) + tuple(rename_o(x.object().name) for x in fe.args)

    def keyQ(fe):
        return (fe.fluent().name,) + tuple(x.object().name for x in fe.args)

    # -- initial state
    ip, iq = init_map(P, keyP), init_map(Q, keyQ)
    if ip != iq:
        d = sorted(k for k in set(ip) | set(iq) if ip.get(k, "absent") != iq.get(k, "absent"))
        k = d[0]
        return f"initial state differs at {k}: {ip.get(k, 'absent')} vs {iq.get(k, 'absent')}", None

    if depth < 0:
        return None, []
    # -- bisimulation
    try:
        sp, sq = Side(P), Side(Q)
    except Exception as e:
        return f"simulator construction failed: {type(e).__name__}: {str(e)[:120]}", None
    gas = ground_actions(P)

    def q_inst(a, combo):
        qa = Q.action(rename_a(a.name)) if Q.has_action(rename_a(a.name)) else None
        qo = tuple(Q.object(rename_o(o.name)) for o in combo)
        return qa, qo

    best_plan = []
    frontier = [(sp.initial(), sq.initial(), [])]
    for d in range(depth + 1):
        nxt = []
        for stp, stq, path in frontier:
            mp, mq = state_map(P, stp, keyP), state_map(Q, stq, keyQ)
            if mp != mq:
                k = sorted(k for k in mp if mp[k] != mq.get(k))[0]
                return f"states differ after {[(a.name, [o.name for o in c]) for a, c in path]} at {k}: {mp[k]} vs {mq.get(k)}", None
            gp, gq = sp.is_goal(stp), sq.is_goal(stq)
            if gp != gq:
                return f"goal verdict differs after {[(a.name, [o.name for o in c]) for a, c in path]}: {gp} vs {gq}", None
            if d == depth:
                continue
            succ = []
            for a, combo in gas:
                np_ = sp.step(stp, a, combo)
                qa, qo = q_inst(a, combo)
                nq = sq.step(stq, qa, qo)
                ap = np_ is not None and not isinstance(np_, tuple)
                aq = nq is not None and not isinstance(nq, tuple)
                if isinstance(np_, tuple) or isinstance(nq, tuple):
                    if isinstance(np_, tuple) != isinstance(nq, tuple):
                        return (f"simulator error on one side only for {a.name}{[o.name for o in combo]} after "
                                f"{[(x.name, [o.name for o in c]) for x, c in path]}: {np_} vs {nq}"), None
                    continue
                if ap != aq:
                    return (f"applicability of {a.name}{[o.name for o in combo]} differs after "
                            f"{[(x.name, [o.name for o in c]) for x, c in path]}: {ap} vs {aq}"), None
                if ap:
                    succ.append((np_, nq, path + [(a, combo)]))
            # bounded width, deterministic choice: spread over the list
            if len(succ) > width:
                step = len(succ) / width
                succ = [succ[int(i * step)] for i in range(width)]
            nxt.extend(succ)
            for s in succ:
                if len(s[2]) > len(best_plan):
                    best_plan = s[2]
        cap = 3 * width
        if len(nxt) > cap:
            step = len(nxt) / cap
            nxt = [nxt[int(i * step)] for i in range(cap)]
        frontier = nxt
    return None, best_plan


# ----------------------------------------------------------------------------------------------
# round trip through the real writer and readers (used by the C18 oracle and by exploration)
# ----------------------------------------------------------------------------------------------

def is_external_parser_error(e):
    """True when the exception was raised inside the external `pddl` / `lark` packages (the AI-planning parser does not
    accept the text), False when it comes out of unified_planning code."""
    import traceback
    mod = type(e).__module__ or ""
    if mod.startswith("lark") or mod.startswith("pddl"):
        return True
    tb = traceback.extract_tb(e.__traceback__)
    if not tb:
        return False
    last = tb[-1].filename
    return "/site-packages/pddl/" in last or "/site-packages/lark/" in last


_READERS = {}


def reader(which):
    """one PDDLReader per mode, reused (a reader object may parse any number of problems)"""
    from unified_planning.io import PDDLReader
    if which not in _READERS:
        kw = {"up": {"force_up_pddl_reader": True}, "default": {"disable_warnings": True},
              "ai": {"force_ai_planning_reader": True}}[which]
        _READERS[which] = PDDLReader(**kw)
    return _READERS[which]


_PARSED = {}


def up_read_cached(domain, problem):
    """UP reader on a text, memoised over the last few texts (impl() and oracle() of one case parse the same text; one
    pyparsing pass costs ~0.3 s)"""
    key = (domain, problem)
    if key not in _PARSED:
        if len(_PARSED) > 6:
            _PARSED.clear()
        _PARSED[key] = reader("up").parse_problem_string(domain, problem)
    return _PARSED[key]


def read_back(domain, problem, which):
    """which: 'up' | 'ai' | 'default'.  Returns (Problem, None) or (None, 'skip'|error string).
    For 'ai' the two steps of PDDLReader(force_ai_planning_reader=True) are run separately, so that a text the external
    `pddl` package does not parse (its own exceptions, or crashes inside it) is told apart from a failure of
    unified_planning.interop.from_pddl."""
    from unified_planning.io import PDDLReader
    if which == "ai":
        # does the external `pddl` package parse the (lower-cased, as PDDLReader does) text at all?
        from pddl.parser.domain import DomainParser
        from pddl.parser.problem import ProblemParser
        try:
            DomainParser()(domain.lower())
            ProblemParser()(problem.lower())
        except Exception:
            return None, "skip"
        try:
            return reader("ai").parse_problem_string(domain, problem), None
        except Exception as e:
            return None, f"{type(e).__name__}: {str(e)[:160]}"
    try:
        if which == "up":
            return up_read_cached(domain, problem), None
        return reader(which).parse_problem_string(domain, problem), None
    except Exception as e:
        return None, f"{type(e).__name__}: {str(e)[:160]}"


def seq_plan(P, steps):
    em = P.environment.expression_manager
    return SequentialPlan([ActionInstance(a, tuple(em.ObjectExp(o) for o in combo)) for a, combo in steps],
                          P.environment)


def validate(P, plan):
    from unified_planning.engines.plan_validator import SequentialPlanValidator
    try:
        res = SequentialPlanValidator(environment=P.environment).validate(P, plan)
        return res.status.name
    except Exception as e:
        return "err:" + type(e).__name__


def roundtrip_check(P, depth, readers=("up", "default"), writer_kw=None, pick=0, width=4):
    """The C18 statement on one real problem.  Returns (None | failing clause, info dict)."""
    from unified_planning.io import PDDLWriter, PDDLReader
    info = {}
    try:
        w = PDDLWriter(P, **(writer_kw or {}))
        dom, prob = w.get_domain(), w.get_problem()
    except Exception as e:
        return f"writer raised {type(e).__name__}: {str(e)[:120]}", info
    info["domain"], info["problem"] = dom, prob

    def ren(getter):
        def f(n):
            try:
                return w.get_pddl_name(getter(n))
            except Exception:
                return "<not-written>"
        return f
    for which in readers:
        Q, err = read_back(dom, prob, which)
        if err == "skip":
            info[which] = "skip"
            continue
        if err:
            return f"[{which}] reader raised {err}", info
        why, steps = behav_diff(P, Q, ren(P.user_type), ren(P.fluent), ren(P.object), ren(P.action), depth, width=width)
        if why:
            return f"[{which}] {why}", info
        info[which] = "ok"
        # plans: the explored one and a pseudo-random one
        gas = ground_actions(P) if depth >= 0 else []
        plans = []
        if steps:
            plans.append(steps)
        if gas:
            n = len(gas)
            plans.append([gas[(pick + 7 * i * i + 3 * i) % n] for i in range(3)])
        for st in plans:
            plan = seq_plan(P, st)
            try:
                text = w.get_plan(plan)
                back = reader("up").parse_plan_string(P, text, w.get_item_named)
            except Exception as e:
                return f"[{which}] plan round trip raised {type(e).__name__}: {str(e)[:100]}", info
            if back != plan:
                return f"[{which}] plan parsed back differs: {back} vs {plan}", info
            try:
                qplan = reader("up").parse_plan_string(Q, text)
            except Exception as e:
                # an action the writer dropped (unsatisfiable precondition) cannot be named in Q: the plan is invalid in P
                if validate(P, plan) == "INVALID" and any(not Q.has_action(ren(P.action)(a.name)) for a, _ in st):
                    continue
                return f"[{which}] plan text not readable against the re-read problem: {type(e).__name__}: {str(e)[:100]}", info
            vp, vq = validate(P, plan), validate(Q, qplan)
            if vp != vq:
                return f"[{which}] plan validity differs: {vp} vs {vq} for {text!r}", info
    return None, info


# ----------------------------------------------------------------------------------------------
# payload preparation: simplifier fixed points, what the real code computed (kind, renaming)
# ----------------------------------------------------------------------------------------------

def _map_problem_exprs(ps, fn):
    """copy of a problem s-expression with fn applied at every expression position the writer converts"""
    out = []
    for sec in ps:
        if isinstance(sec, list) and sec and sec[0] == "actions":
            acts = ["actions"]
            for a in sec[1:]:
                pre = ["pre"] + [fn(c) for c in a[3][1:]]
                effs = ["effs"] + [["eff", e[1], e[2], fn(e[3]), fn(e[4]), e[5]] for e in a[4][1:]]
                acts.append(["action", a[1], a[2], pre, effs])
            out.append(acts)
        elif isinstance(sec, list) and sec and sec[0] == "goals":
            out.append(["goals"] + [fn(g) for g in sec[1:]])
        elif isinstance(sec, list) and sec and sec[0] == "metrics":
            ms = ["metrics"]
            for m in sec[1:]:
                if m[0] == "min-action-costs":
                    ms.append([m[0], [[a, fn(c)] for a, c in m[1]], m[2] if m[2] == "_" else fn(m[2])])
                elif m[0] in ("min-final", "max-final"):
                    ms.append([m[0], fn(m[1])])
                else:
                    ms.append(m)
            out.append(ms)
        else:
            out.append(sec)
    return out


def simplify_problem(ps, rounds=5):
    """(ps', P', ctx') with every expression a fixed point of the real simplifier and ps' = enc_problem(P'); None if no
    fixed point is reached / the library rejects the simplified problem"""
    from upx import enc_expr
    for _ in range(rounds):
        try:
            P, ctx = upp.build_problem(ps)
        except Exception:
            return None
        changed = [False]

        def S(e):
            enc = enc_expr(ctx.expr(e).simplify())
            if enc != e:
                changed[0] = True
            return enc
        new = _map_problem_exprs(upp.enc_problem(P), S)
        if not changed[0] and new == ps:
            # conjunct-wise fixed point too (the writer converts the conjuncts of a top-level `and` one by one)
            for where, e in all_expressions(P):
                if e.is_and() and any(a.simplify() != a for a in e.args):
                    return None
            return ps, P, ctx
        try:
            P2, _ = upp.build_problem(new)
        except Exception:
            return None
        ps = upp.enc_problem(P2)
    return None


class ordered_constants:
    """`Problem.domain_constants` is a Python set whose iteration order (and with it the order of the `:constants` section
    and the suffixes the mangler hands out to colliding object names) depends on object hashes, i.e. on memory addresses.
    The correspondence runs fix that documented nondeterminism to the problem's declaration order."""

    def __enter__(self):
        from unified_planning.model import Problem
        self.cls, self.orig = Problem, Problem.domain_constants
        orig = self.orig

        def in_order(problem):
            cs = orig.fget(problem)
            return [o for o in problem.all_objects if o in cs]
        Problem.domain_constants = property(in_order)
        return self

    def __exit__(self, *a):
        self.cls.domain_constants = self.orig


def derive(P, writer_kw=None):
    """what the real code computes and the model takes as parameters: kind features, renaming table; plus the texts"""
    from unified_planning.io import PDDLWriter
    from unified_planning.io.pddl_writer import _get_pddl_name
    import unified_planning.model as M
    from unified_planning.model.types import _UserType
    w = PDDLWriter(P, **(writer_kw or {}))
    with ordered_constants():
        dom, prob = w.get_domain(), w.get_problem()
    ren = []
    for item, new in w.otn_renamings.items():
        if isinstance(item, _UserType):
            ren.append(["ty", item.name, new])
        elif isinstance(item, M.Fluent):
            ren.append(["fluent", item.name, new])
        elif isinstance(item, M.Object):
            ren.append(["obj", item.name, new])
        elif isinstance(item, M.Action):
            ren.append(["action", item.name, new])
        elif isinstance(item, M.Parameter):
            ren.append(["param", item.name, item.type.name, new])
        elif isinstance(item, M.Variable):
            ren.append(["var", item.name, item.type.name, new])
        else:
            raise ValueError(f"unexpected renamed item {item!r}")
    ren.sort(key=sexp.dumps)
    ren = [["problem", _get_pddl_name(P, w.pddl_keywords)]] + ren
    kind = sorted(P.kind.features)
    return w, dom, prob, ["kind"] + kind, ["ren"] + ren


# ----------------------------------------------------------------------------------------------
# canonical forms used when comparing model and code
# ----------------------------------------------------------------------------------------------

def sort_quant_tree(t):
    """PDDL tree with the `?v - type` triples of every quantifier sorted: the simplifier (called by the writer) rebuilds a
    quantifier from a Python set of variables, so their order is hash order (DESIGN 2.3)"""
    if not isinstance(t, list):
        return t
    t = [sort_quant_tree(x) for x in t]
    if len(t) == 3 and t[0] in ("exists", "forall") and isinstance(t[1], list) and len(t[1]) % 3 == 0 \
            and all(isinstance(x, str) for x in t[1]) and all(t[1][i + 1] == "-" for i in range(0, len(t[1]), 3)):
        triples = sorted(t[1][i:i + 3] for i in range(0, len(t[1]), 3))
        t = [t[0], [x for tr in triples for x in tr], t[2]]
    return t


def sort_quant_expr(e):
    """wire-format expression with quantifier variable lists sorted (same reason)"""
    if not isinstance(e, list) or not e:
        return e
    if e[0] in ("exists", "forall") and len(e) == 3:
        return [e[0], sorted(e[1]), sort_quant_expr(e[2])]
    if e[0] in ("b", "i", "r", "o", "p", "v"):
        return e
    if e[0] == "fl":
        return [e[0], e[1]] + [sort_quant_expr(a) for a in e[2:]]
    return [e[0]] + [sort_quant_expr(a) for a in e[1:]]


def canon_domain_tree(tree):
    """the `:constants` section lists a Python set: sort its `name - type` triples; quantifier variables sorted"""
    tree = sort_quant_tree(tree)
    out = []
    for sec in tree:
        if isinstance(sec, list) and sec and sec[0] == ":constants":
            body = sec[1:]
            if len(body) % 3 == 0 and all(body[i + 1] == "-" for i in range(0, len(body), 3)):
                triples = sorted([body[i:i + 3] for i in range(0, len(body), 3)])
                sec = [":constants"] + [x for t in triples for x in t]
        out.append(sec)
    return out


def canon_read_problem(ps, const_names=None, sort_effects=False):
    """canonical form of a problem read back: type table sorted; effect conditions simplified by the real simplifier
    (the UP reader simplifies `when` conditions, the model does not) and effects with a `false` condition dropped;
    objects that were written in the `:constants` section (hash order) sorted among themselves"""
    from upx import Ctx, enc_expr
    types = [(n, None if f == "_" else f) for n, f in upp.get(ps, "types")]
    # fathers first for Ctx
    order, names = [], set()
    guard = 0
    while len(order) < len(types) and guard < 100:
        guard += 1
        for n, f in types:
            if n not in names and (f is None or f in names or f not in dict(types)):
                order.append((n, f))
                names.add(n)
    ctx = Ctx(order)
    ps = _map_problem_exprs(ps, sort_quant_expr)
    out = []
    for sec in ps:
        if isinstance(sec, list) and sec and sec[0] == "types":
            out.append(["types"] + sorted(sec[1:]))
        elif isinstance(sec, list) and sec and sec[0] == "objects" and const_names is not None:
            objs = sec[1:]
            k = 0
            while k < len(objs) and objs[k][0] in const_names:
                k += 1
            out.append(["objects"] + sorted(objs[:k]) + objs[k:])
        elif isinstance(sec, list) and sec and sec[0] == "actions":
            acts = ["actions"]
            for a in sec[1:]:
                effs = []
                for e in a[4][1:]:
                    c = ctx.expr(e[4]).simplify()
                    if c.is_false():
                        continue
                    ce = sort_quant_expr(enc_expr(c))
                    # the Effect keeps only the quantified variables that still occur
                    used = sexp.dumps([e[2], e[3], ce])
                    vs = [v for v in e[5] if sexp.dumps(["v", v[0], v[1]]) in used]
                    effs.append(["eff", e[1], e[2], e[3], ce, vs])
                if sort_effects:
                    effs.sort(key=sexp.dumps)
                acts.append(["action", a[1], a[2], a[3], ["effs"] + effs])
            out.append(acts)
        else:
            out.append(sec)
    return out


# ----------------------------------------------------------------------------------------------
# PDDL texts in forms the writer never emits (input of the reader correspondence)
# ----------------------------------------------------------------------------------------------

def _groups(flat):
    """[n, n, -, t, n, ...] -> [([n, n], t), ([n], None)]"""
    out, pend, i = [], [], 0
    while i < len(flat):
        if flat[i] == "-" and i + 1 < len(flat):
            out.append((pend, flat[i + 1]))
            pend = []
            i += 2
        else:
            pend.append(flat[i])
            i += 1
    if pend:
        out.append((pend, None))
    return out


def _flat(groups):
    out = []
    for ns, t in groups:
        out.extend(ns)
        if t is not None:
            out.extend(["-", t])
    return out


class Variants:
    """random, mostly meaning-preserving rewrites of the trees of a written domain/problem"""

    def __init__(self, rng, p=0.3):
        self.rng, self.p = rng, p
        self.tags = set()
        self.all_untyped = rng.random() < 0.1     # the classic untyped form: no :types, every list untyped

    def hit(self, tag, p=None):
        if self.rng.random() < (self.p if p is None else p):
            self.tags.add(tag)
            return True
        return False

    def typed(self, flat, allow_untyped=False):
        gs = _groups(flat)
        if self.all_untyped:
            self.tags.add("all-untyped")
            return [n for ns, t in gs for n in ns]
        # merge neighbours of one type
        merged = []
        for ns, t in gs:
            if merged and merged[-1][1] == t and self.hit("multi-typed-list"):
                merged[-1] = (merged[-1][0] + ns, t)
            else:
                merged.append((list(ns), t))
        if allow_untyped and merged and self.hit("untyped", 0.08):
            # only the trailing group can lose its type without capturing the following names
            ns, t = merged[-1]
            merged[-1] = (ns, None)
        return _flat(merged)

    def case(self, s):
        if isinstance(s, str) and s and s[0].isalpha() and self.hit("upper-case", 0.05):
            return s.upper()
        return s

    def expr(self, e):
        if isinstance(e, str):
            if e and e[0] == "-" and len(e) > 1 and e[1].isdigit() and not getattr(self, "in_init", False) \
                    and not getattr(self, "no_unary_minus", False) and self.hit("unary-minus", 0.3):
                return ["-", e[1:]]
            return self.case(e)
        if not e:
            return e
        h = e[0]
        if h in ("exists", "forall") and len(e) == 3 and isinstance(e[1], list):
            return [h, self.typed(e[1]), self.expr(e[2])]
        args = [self.expr(a) for a in e[1:]]
        if h in ("and", "or") and len(args) >= 3 and self.hit("nested-" + h):
            k = self.rng.randrange(1, len(args) - 1)
            return [h] + args[:k] + [[h] + args[k:]]
        if h in ("and", "or") and len(args) == 2 and self.hit("unary-" + h, 0.1):
            return [h, args[0], [h, args[1]]]
        if h == "<=" and len(args) == 2 and self.hit("ge"):
            return [">=", args[1], args[0]]
        if h == "<" and len(args) == 2 and self.hit("gt"):
            return [">", args[1], args[0]]
        if h == "not" and len(args) == 1 and self.hit("triple-not", 0.05):
            return ["not", ["not", ["not", args[0]]]]
        if h in ("+", "*") and len(args) == 2 and isinstance(args[1], list) and args[1] and args[1][0] == h \
                and self.hit("n-ary-" + ("plus" if h == "+" else "times")):
            return [h, args[0]] + args[1][1:]
        return [self.case(h) if isinstance(h, str) else self.expr(h)] + args

    def effect(self, e):
        if isinstance(e, str) or not e:
            return e
        h = e[0]
        if h == "and":
            subs = [self.effect(x) for x in e[1:]]
            if len(subs) >= 3 and not getattr(self, "ai_friendly", False) and self.hit("nested-and-effect", 0.15):
                k = self.rng.randrange(1, len(subs) - 1)
                return ["and"] + subs[:k] + [["and"] + subs[k:]]
            return ["and"] + subs
        if h == "when" and len(e) == 3:
            return ["when", self.expr(e[1]), self.effect(e[2])]
        if h == "forall" and len(e) == 3:
            return ["forall", self.typed(e[1]), self.effect(e[2])]
        if h in ("assign", "increase", "decrease") and len(e) == 3:
            return [h, self.expr(e[1]), self.expr(e[2])]
        return self.expr(e)

    def action(self, a):
        out, i = [], 0
        keys = {}
        body = a[:]
        while i < len(body):
            k = body[i]
            if k == ":parameters":
                out += [k, self.typed(body[i + 1])]
                i += 2
            elif k == ":precondition":
                out += [k, self.expr(body[i + 1])]
                keys["pre"] = True
                i += 2
            elif k == ":effect":
                if "pre" not in keys and self.hit("empty-precondition", 0.3):
                    out += [":precondition", ["and"] if getattr(self, "ai_friendly", False) else self.rng.choice([[], ["and"]])]
                out += [k, self.effect(body[i + 1])]
                i += 2
            else:
                out.append(k)
                i += 1
        return out

    def domain(self, dom, prob):
        """returns (domain', problem')"""
        d, q = [], list(prob)
        moved = []
        # objects of the problem file may be declared as constants instead
        for j, sec in enumerate(q):
            if isinstance(sec, list) and sec and sec[0] == ":objects":
                gs = _groups(sec[1:])
                keep = []
                for ns, t in gs:
                    for n in ns:
                        if self.hit("object-as-constant", 0.15):
                            moved.append(([n], t))
                        else:
                            keep.append(([n], t))
                q[j] = [":objects"] + self.typed(_flat(keep))
                if self.all_untyped and not keep:
                    q[j] = None
        q = [x for x in q if x is not None]
        seen_consts = False
        for sec in dom:
            if not isinstance(sec, list) or not sec:
                d.append(sec)
                continue
            h = sec[0]
            if h == ":types" and self.all_untyped:
                continue
            if h == ":types":
                gs = _groups(sec[1:])
                if len(gs) > 1 and self.hit("types-reordered"):
                    self.rng.shuffle(gs)
                d.append([h] + _flat(gs))
            elif h == ":constants":
                seen_consts = True
                d.append([h] + self.typed(sec[1:] + _flat(moved)))
            elif h in (":predicates", ":functions"):
                if moved and not seen_consts:
                    d.append([":constants"] + self.typed(_flat(moved)))
                    seen_consts = True
                items = []
                for it in sec[1:]:
                    if isinstance(it, list) and it:
                        items.append([it[0]] + self.typed(it[1:], allow_untyped=True))
                        if h == ":functions" and self.hit("function-number", 0.2):
                            items += ["-", "number"]
                    else:
                        items.append(it)
                d.append([h] + items)
            elif h == ":action":
                if moved and not seen_consts:
                    d.append([":constants"] + self.typed(_flat(moved)))
                    seen_consts = True
                d.append(self.action(sec))
            else:
                d.append(sec)
        if moved and not seen_consts:
            d.append([":constants"] + self.typed(_flat(moved)))
        # problem
        out = []
        for sec in q:
            if isinstance(sec, list) and sec and sec[0] == ":init":
                self.in_init = True      # initial values must stay constants
                items = [self.expr(x) for x in sec[1:]]
                self.in_init = False
                atoms = [x for x in items if isinstance(x, list) and x and x[0] not in ("=", "at")]
                if atoms and self.hit("negative-init-literal", 0.15):
                    items.insert(self.rng.randrange(len(items) + 1), ["not", self.rng.choice(atoms)])
                out.append([":init"] + items)
            elif isinstance(sec, list) and sec and sec[0] == ":goal":
                out.append([":goal", self.expr(sec[1])])
            elif isinstance(sec, list) and sec and sec[0] == ":metric" and len(sec) == 3:
                out.append([":metric", sec[1], self.expr(sec[2])])
            else:
                out.append(sec)
        return d, out


def render_text(rng, tree):
    """tree -> text with random line breaks and comments"""
    def go(t, depth):
        if isinstance(t, str):
            return t
        parts = [go(x, depth + 1) for x in t]
        if depth == 0:
            return "(" + "\n ".join(parts) + "\n)"
        s = "(" + (" " if depth > 1 or rng.random() < 0.5 else "\n   ").join(parts) + ")"
        if depth == 1 and rng.random() < 0.1:
            s += " ; a comment (with parentheses"
        return s
    return go(tree, 0) + "\n"
