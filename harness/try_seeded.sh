#!/bin/bash
# usage: harness/try_seeded.sh <seeded-dir> [check ids...]
# <seeded-dir> contains patch.diff, demo.py, meta.json.  Confirms the demo (passes on /repo, fails with the patch),
# applies the patch to /repo, runs the named checks (default: the property in meta.json), and ALWAYS undoes the patch.
D=$(cd "$1" && pwd); shift
PID=$(/venv/bin/python -c "import json,sys; print(json.load(open('$D/meta.json'))['property'])" 2>/dev/null)
CHECKS=${@:-$PID}
cd /repo
if [ -n "$(git status --porcelain)" ]; then echo "REFUSING: /repo working tree not clean"; exit 2; fi
echo "== demo on unchanged /repo"; PYTHONPATH=/repo /venv/bin/python $D/demo.py > /dev/null 2>&1; echo "exit=$?"
git apply "$D/patch.diff" || { echo "patch does not apply"; exit 2; }
restore() { git -C /repo checkout -- . ; git -C /repo status --short; cd /verif; for c in $CHECKS; do ./check $c > /dev/null 2>&1; echo "evidence of $c refreshed on the clean tree (exit $?)"; done; rm -f /verif/replays/*.json; }
trap restore EXIT
echo "== demo with the seeded change"; PYTHONPATH=/repo /venv/bin/python $D/demo.py 2>&1 | grep -v conda | tail -3; echo "exit=${PIPESTATUS[0]}"
cd /verif
for c in $CHECKS; do
  echo "== ./check $c"
  ./check $c 2>&1 | grep -v conda | grep -E "VIOLATION|KNOWN|tier=|BROKEN|HARNESS" | cut -c1-400
  echo "exit=${PIPESTATUS[0]}"
done
