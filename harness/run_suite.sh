#!/bin/bash
# Runs /repo's pinned baseline suite (guard off — there are no hooks) and compares with BASELINE.json's stable_pass list.
# usage: harness/run_suite.sh [repo_dir]   -> prints PASS/FAIL summary; exit 0 iff every baseline test passed
REPO=${1:-/repo}
OUT=$(mktemp -d /var/tmp/upverif-suite.XXXX)
cd "$REPO" && /venv/bin/python -m pytest -ra -q -p no:cacheprovider --timeout=900 --continue-on-collection-errors -n 8 --junitxml=$OUT/junit.xml > $OUT/log.txt 2>&1 || true
if ! grep -q "testsuite" $OUT/junit.xml 2>/dev/null; then
  # no xdist? retry without -n
  cd "$REPO" && /venv/bin/python -m pytest -ra -q -p no:cacheprovider --timeout=900 --continue-on-collection-errors --junitxml=$OUT/junit.xml > $OUT/log.txt 2>&1 || true
fi
/venv/bin/python - "$OUT/junit.xml" <<'PY'
import json, sys, xml.etree.ElementTree as ET
base = set(json.load(open('/root/.vp/BASELINE.json'))['stable_pass'])
t = ET.parse(sys.argv[1]).getroot()
passed, failed = set(), {}
for tc in t.iter('testcase'):
    name = f"{tc.get('classname')}::{tc.get('name')}"
    bad = [c for c in tc if c.tag in ('failure', 'error')]
    skipped = [c for c in tc if c.tag == 'skipped']
    if bad:
        failed[name] = (bad[0].get('message') or '')[:200]
    elif not skipped:
        passed.add(name)
missing = sorted(base - passed)
print(f"baseline {len(base)}  passed-now {len(passed & base)}  missing {len(missing)}  other-failures {len([f for f in failed if f not in base])}")
for m in missing[:40]:
    print("  MISSING", m, failed.get(m, ''))
sys.exit(0 if not missing else 1)
PY
RC=$?
tail -3 $OUT/log.txt
rm -rf $OUT
exit $RC
