"""Shared helper code of the sequential-simulator checks (properties C01 and C02).

  gen_problem(rng)        -> canonical problem s-expression (or None): upp.ProblemGen + the reading decisions below
  Real(ps, fns)           -> the REAL UPSequentialSimulator on that problem, ops runner, state dumps
  bfs_ops / interleave_ops-> op lists generated with the real simulator
  spec_*                  -> an independent, set/multiset-based Python implementation of the documented
                             successor semantics (used by the ORACLES only; never by the model)

Op language (same as lean/UPVerif/Drv/C01.lean):
  (init) (dump i) (apply i action (obj*)) (isapp i action (obj*)) (applicable i) (goal i) (ugoals i)
Slot 0 holds the initial state, op number j (1-based) fills slot j when it is a successful apply / init.
"""
import warnings
from fractions import Fraction
from itertools import product

warnings.simplefilter("ignore")
import unified_planning as up
from unified_planning.engines import UPSequentialSimulator
from unified_planning.exceptions import (UPProblemDefinitionError, UPStateMissingFluentError, UPUsageError)

import pyden
import sexp
import upp
import upx

# ------------------------------------------------------------------------------------------------
# workaround switch (see report): until DagWalker.walk restores its stack/memo after an exception
# (property C14's patch), a StateEvaluator that raised once is unusable; the runner then swaps in a
# fresh simulator.  Detected automatically, so it disappears when the C14 patch is merged.
# ------------------------------------------------------------------------------------------------


def _dag_walker_is_exception_safe():
    from unified_planning.shortcuts import Fluent, IntType, Problem
    from unified_planning.model.walkers import StateEvaluator
    from unified_planning.model import UPState
    p = Problem("probe")
    f = Fluent("probe_f", IntType())
    p.add_fluent(f)
    se = StateEvaluator(p)
    try:
        se.evaluate(f() + 1, UPState({}, p))
    except UPStateMissingFluentError:
        pass
    except Exception:
        return False
    return not se.stack and not se.memoization


REPLACE_DIRTY_SIM = not _dag_walker_is_exception_safe()


def _simplifier_is_repaired():
    """is notes/patches/C11-simplifier-soundness.patch in the tree?  (Exists v.(v == o1 & !(v == o2)) reaches
    its fixed point `true` in one pass only with the repaired walk_exists.)  The driver's simplifier is
    property C11's model of the REPAIRED code; on an unrepaired tree the generators keep out of the shapes
    on which the two differ observably (an `x == t` conjunct on the bound variable of an Exists)."""
    from unified_planning.shortcuts import UserType, Object, Variable, Exists, And, Not, Equals, ObjectExp
    try:
        t = UserType("ProbeT")
        o1, o2 = Object("probe_o1", t), Object("probe_o2", t)
        v = Variable("probe_v", t)
        e = Exists(And(Equals(v, ObjectExp(o1)), Not(Equals(v, ObjectExp(o2)))), v)
        return e.simplify().is_true()
    except Exception:
        return False


SIMPLIFIER_REPAIRED = _simplifier_is_repaired()

# ------------------------------------------------------------------------------------------------
# problem generation (reading decisions of DESIGN 2.11 + the ones listed in ASSUMPTIONS of C01.py)
# ------------------------------------------------------------------------------------------------

KEPT_OUT = {"exists-eq-elimination": 0, "builder-rejected": 0, "initial-violates-invariants": 0, "unsupported-kind": 0}


def _walk(e, f):
    """bottom-up rewrite of an expression s-expression"""
    if not isinstance(e, list) or not e:
        return e
    h = e[0]
    if h in ("b", "i", "r", "o", "p", "v", "timing", "present"):
        return f(e)
    if h in ("fl", "ifun"):
        return f([h, e[1]] + [_walk(a, f) for a in e[2:]])
    if h in ("exists", "forall"):
        return f([h, e[1], _walk(e[2], f)])
    return f([h] + [_walk(a, f) for a in e[1:]])


def _is_const_num(e):
    return e[0] in ("i", "r")


def _norm_expr(e, flags):
    def f(n):
        h = n[0]
        if h == "div":
            # divisors are non-zero constants (DESIGN 2.11)
            if not _is_const_num(n[2]) or Fraction(n[2][1]) == 0:
                return ["div", n[1], ["i", "2"]]
        if h == "exists":
            # Simplifier.walk_exists rebuilds the variable list from a Python set: write multi-variable
            # Exists nested so that the iteration order is determined
            vs, body = n[1], n[2]
            bound = [sexp.dumps(["v", v[0], v[1]]) for v in vs]
            # x == t conjunct on a bound variable: the elimination in walk_exists is being repaired (C11)
            found = []

            def look(m):
                if m[0] == "eq" and any(sexp.dumps(a) in bound for a in m[1:]):
                    found.append(1)
                return m
            _walk(body, look)
            if found:
                flags["exists-eq"] = True
            for v in reversed(vs[1:]):
                body = ["exists", [v], body]
            return ["exists", [vs[0]], body]
        return n
    return _walk(e, f)


def normalise_problem(ps, flags):
    out = list(ps)
    for i, sec in enumerate(ps):
        if not isinstance(sec, list) or not sec:
            continue
        if sec[0] == "actions":
            acts = []
            for a in sec[1:]:
                pre = ["pre"] + [_norm_expr(c, flags) for c in a[3][1:]]
                effs = ["effs"] + [["eff", e[1], _norm_expr(e[2], flags), _norm_expr(e[3], flags), _norm_expr(e[4], flags), e[5]]
                                   for e in a[4][1:]]
                acts.append(["action", a[1], a[2], pre, effs])
            out[i] = ["actions"] + acts
        elif sec[0] in ("goals", "traj"):
            out[i] = [sec[0]] + [_norm_expr(g, flags) for g in sec[1:]]
    return out


def extra_invariants(rng, g):
    """more state invariants than ProblemGen plants: Boolean fluents that effects write, quantified ones"""
    FL = g.FL
    k = rng.random()
    s1 = ["o", "s1", "S"]
    t1 = ["o", "t1", "T"]
    if k < 0.2:
        return [["always", ["fl", FL["b0"]]]]
    if k < 0.35:
        return [["always", ["not", ["fl", FL["b1"]]]]]
    if k < 0.5:
        return [["always", ["or", ["fl", FL["bq"], s1], ["fl", FL["b0"]]]]]
    if k < 0.62:
        return [["always", ["exists", [["k", ["user", "T"]]], ["fl", FL["bq"], ["v", "k", ["user", "T"]]]]]]
    if k < 0.74:
        return [["always", ["le", ["fl", FL["x"]], ["i", str(rng.choice([2, 3, 4]))]]]]
    if k < 0.84:
        return [["always", ["implies", ["fl", FL["b0"]], ["le", ["fl", FL["z"]], ["i", "2"]]]]]
    if k < 0.92:
        return [["always", ["and", ["le", ["i", "-3"], ["fl", FL["x"]]], ["or", ["fl", FL["b1"]], ["fl", FL["bq"], t1]]]]]
    return [["always", ["forall", [["k", ["user", "S"]]], ["le", ["i", "-1"], ["fl", FL["xq"], ["v", "k", ["user", "S"]]]]]]]


G_INT = ["g", ["int", "_", "_"], [["int", "_", "_"]]]
G_BOOL = ["gb", "bool", [["int", "_", "_"]]]
FN_ARGS = list(range(-2, 5))      # covers xb : int[0,4] and xq : int[-2,3]


def inject_ifuns(rng, ps):
    """wrap some bounded-integer fluent reads into the interpreted function g, replace some Boolean fluent
    reads by gb(bounded fluent) — in preconditions, effect conditions/values and goals (never in targets)"""
    def f(n):
        if n[0] == "fl":
            ty = n[1][1]
            if isinstance(ty, list) and ty[0] == "int" and ty[1] != "_" and ty[2] != "_" and rng.random() < 0.3:
                return ["ifun", G_INT, n]
            if ty == "bool" and rng.random() < 0.12:
                return ["ifun", G_BOOL, ["fl", ["xb", ["int", "0", "4"], []]]]
        return n
    out = list(ps)
    for i, sec in enumerate(ps):
        if not isinstance(sec, list) or not sec:
            continue
        if sec[0] == "actions":
            acts = []
            for a in sec[1:]:
                pre = ["pre"] + [_walk(c, f) for c in a[3][1:]]
                effs = ["effs"] + [["eff", e[1], e[2], _walk(e[3], f), _walk(e[4], f), e[5]] for e in a[4][1:]]
                acts.append(["action", a[1], a[2], pre, effs])
            out[i] = ["actions"] + acts
        elif sec[0] == "goals":
            out[i] = ["goals"] + [_walk(g_, f) for g_ in sec[1:]]
    return out


def gen_tables(rng):
    fns = []
    for i in FN_ARGS:
        fns.append([G_INT, [["n", str(i)]], ["n", str(rng.randint(-1, 3))]])
    for i in FN_ARGS:
        fns.append([G_BOOL, [["n", str(i)]], ["b", "T" if rng.random() < 0.5 else "F"]])
    return fns


def uses_ifuns(ps):
    return '(ifun ' in sexp.dumps(ps)


def planted_invariant_problem(rng):
    """a state invariant that reads a fluent THROUGH another fluent (bq(at) / forall k. xq(own(k)) <= 2), with actions
    that write the inner fluent (at := p, own(s) := p) and the outer one (bq(p) := F, xq(p) += 2, forall w. xq(w) += 1):
    whether an action may break the invariant cannot be told from the syntactic targets of its effects"""
    g = upp.ProblemGen(rng, undefined=False, invariants=False, metrics=False)
    ps = g.problem()
    T, S = ["user", "T"], ["user", "S"]
    FL = g.FL
    tt = ["b", "T"]
    acts = [
        ["action", "kill", [["p0", T]], ["pre"], ["effs", ["eff", "assign", ["fl", FL["bq"], ["p", "p0", T]], ["b", "F"], tt, []]]],
        ["action", "move", [["p0", T]], ["pre"], ["effs", ["eff", "assign", ["fl", FL["at"]], ["p", "p0", T], tt, []]]],
        ["action", "give", [["p0", S], ["p1", T]], ["pre"], ["effs", ["eff", "assign", ["fl", FL["own"], ["p", "p0", S]], ["p", "p1", T], tt, []]]],
        ["action", "bump", [["p0", T]], ["pre"], ["effs", ["eff", "increase", ["fl", FL["xq"], ["p", "p0", T]], ["i", "2"], tt, []]]],
        ["action", "bumpall", [], ["pre"], ["effs", ["eff", "increase", ["fl", FL["xq"], ["v", "w", T]], ["i", "1"], tt, [["w", T]]]]],
    ]
    rng.shuffle(acts)
    inv = [["always", ["fl", FL["bq"], ["fl", FL["at"]]]],
           ["always", ["forall", [["k", S]], ["le", ["fl", FL["xq"], ["fl", FL["own"], ["v", "k", S]]], ["i", "2"]]]]]
    out = []
    for sec in ps:
        if isinstance(sec, list) and sec and sec[0] == "actions":
            out.append(["actions"] + acts[:rng.choice([3, 4, 5])])
        elif isinstance(sec, list) and sec and sec[0] == "traj":
            out.append(["traj"] + ([inv[0]] if rng.random() < 0.4 else [inv[1]] if rng.random() < 0.6 else inv))
        elif isinstance(sec, list) and sec and sec[0] == "fluents":
            # bq true everywhere, xq small: the initial state satisfies the invariants
            fl = []
            for ref, d in sec[1:]:
                if ref[0] == "bq":
                    d = ["b", "T"]
                elif ref[0] == "xq":
                    d = ["i", str(rng.choice([0, 1, 2]))]
                fl.append([ref, d])
            out.append(["fluents"] + fl)
        elif isinstance(sec, list) and sec and sec[0] == "init":
            out.append(["init"] + [iv for iv in sec[1:] if iv[0][1][0] not in ("bq", "xq")])
        else:
            out.append(sec)
    return out


def gen_problem(rng, undefined=True):
    """one canonical problem (the real builders' view of a generated one), or None if kept out"""
    g = upp.ProblemGen(rng, undefined=undefined, invariants=True, metrics=False)
    ps = planted_invariant_problem(rng) if rng.random() < 0.1 else g.problem()
    if rng.random() < 0.3:
        ps = inject_ifuns(rng, ps)
    if rng.random() < 0.35:
        for j, sec in enumerate(ps):
            if isinstance(sec, list) and sec and sec[0] == "traj":
                ps[j] = sec + extra_invariants(rng, g)
    flags = {}
    ps = normalise_problem(ps, flags)
    if flags.get("exists-eq") and not SIMPLIFIER_REPAIRED:
        KEPT_OUT["exists-eq-elimination"] += 1
        return None
    try:
        P, _ = upp.build_problem(ps)
        canon = upp.enc_problem(P)
    except Exception:
        KEPT_OUT["builder-rejected"] += 1
        return None
    # the builders may re-create shapes (they do not); run the normaliser once more for safety
    flags2 = {}
    canon2 = normalise_problem(canon, flags2)
    if (flags2.get("exists-eq") and not SIMPLIFIER_REPAIRED) or canon2 != canon:
        KEPT_OUT["exists-eq-elimination"] += 1
        return None
    return canon


# ------------------------------------------------------------------------------------------------
# the real simulator on one problem
# ------------------------------------------------------------------------------------------------

def ground_keys(ps):
    """all ground fluents in canonical order: declaration order, arguments in product order"""
    out = []
    for ref, _ in upp.get(ps, "fluents"):
        doms = [upp.objects_of(ps, t[1]) for t in ref[2]]
        for combo in product(*doms):
            out.append((ref, list(combo)))
    return out


class Skip(Exception):
    """the problem is outside the checked domain (documented rejection)"""


class Real:
    def __init__(self, ps, fns=(), numeric_params=False):
        """numeric_params: False = only actions with user-typed parameters have instances (historic behaviour);
        True = also Boolean / bounded-integer parameters (what the grounder enumerates); "sampled" = also a few values
        of unbounded-integer / real parameters"""
        self.ps = ps
        self.fns = list(fns)
        self.numeric_params = numeric_params
        self.P, self.ctx = upp.build_problem(ps)
        self.objtype = dict(map(tuple, upp.get(ps, "objects")))
        # interpreted functions are total tables shipped with the case: (ref (arg values) value)
        for ref, args, val in self.fns:
            key = tuple(Fraction(a[1]) if a[0] == "n" else (a[1] == "T") if a[0] == "b" else a[1] for a in args)
            if val[0] == "n":
                q = Fraction(val[1])
                v = int(q) if q.denominator == 1 else q
            elif val[0] == "b":
                v = val[1] == "T"
            else:
                v = self.ctx.obj(val[1], dict(map(tuple, upp.get(ps, "objects")))[val[1]])
            self.ctx.fun_tables.setdefault(ref[0], {})[key] = v
        self.keys = ground_keys(ps)
        em = self.ctx.em
        self.key_exps = [em.FluentExp(self.ctx.fluent(ref), tuple(em.ObjectExp(self.ctx.obj(o, self.objtype[o])) for o in objs))
                         for ref, objs in self.keys]
        self.ptypes = {a[1]: [p[1] for p in a[2]] for a in upp.get(ps, "actions")}
        self.instances = upp.ground_instances(ps, numeric=bool(numeric_params), sampled=(numeric_params == "sampled"))
        self.replaced = 0
        self.sim = None
        self.new_sim()

    def _mk_sim(self):
        if self.numeric_params == "sampled":
            # unbounded-integer / real action parameters are outside the simulator's own supported kind; the plan
            # validator (whose kind includes them) builds its simulator exactly like this (plan_validator.py:150)
            with warnings.catch_warnings(record=True):
                return UPSequentialSimulator(self.P, error_on_failed_checks=False)
        return UPSequentialSimulator(self.P)

    def new_sim(self):
        self.sim = self._mk_sim()
        return self.sim

    def fresh(self):
        return self._mk_sim()

    def params(self, args, an=None):
        """actual parameters from their atoms; with the action name, atoms of Boolean / integer / real formal
        parameters are decoded by the parameter's type (upp.dec_arg), without it every atom is an object name"""
        if an is None or an not in self.ptypes:
            return [self.ctx.obj(o, self.objtype[o]) for o in args]
        return [upp.dec_arg(pt, s, lambda o: self.ctx.obj(o, self.objtype[o])) for pt, s in zip(self.ptypes[an], args)]

    def actuals(self, args, an):
        """the same as constant FNodes"""
        return tuple(self.ctx.em.auto_promote(self.params(args, an)))

    def dump(self, state):
        out = ["state"]
        for fe in self.key_exps:
            try:
                out.append(upx.enc_val(state.get_value(fe)))
            except UPStateMissingFluentError:
                out.append("undef")
        return out

    def state_map(self, state):
        """{(refkey, (vals...)): pyden value} for the defined ground fluents"""
        m = {}
        for (ref, objs), fe in zip(self.keys, self.key_exps):
            try:
                v = state.get_value(fe)
            except UPStateMissingFluentError:
                continue
            m[(pyden.key(ref), tuple(("o", o) for o in objs))] = pyden.val_of_sexp(upx.enc_val(v))
        return m

    @staticmethod
    def exc(e):
        if isinstance(e, UPStateMissingFluentError):
            return ["raise", "missing"]
        if isinstance(e, ZeroDivisionError):
            return ["raise", "zero-div"]
        return ["raise", "other"]

    def query(self, sim, op, slots):
        """one op on the given simulator; returns (answer, new_state_or_None)"""
        h = op[0]
        if h == "init":
            try:
                s = sim.get_initial_state()
            except UPProblemDefinitionError:
                return "rejected", None
            except Exception as e:
                return self.exc(e), None
            return self.dump(s), s
        i = int(op[1])
        s = slots[i] if i < len(slots) else None
        if s is None:
            return "no-state", None
        try:
            if h == "dump":
                return self.dump(s), None
            if h == "apply":
                r = sim.apply(s, self.P.action(op[2]), self.params(op[3], op[2]))
                return ("none", None) if r is None else (self.dump(r), r)
            if h == "isapp":
                return sexp.B(sim.is_applicable(s, self.P.action(op[2]), self.params(op[3], op[2]))), None
            if h == "applicable":
                got = [(a.name, [upp.enc_arg(p) for p in ps_]) for a, ps_ in sim.get_applicable_actions(s)]
                if REPLACE_DIRTY_SIM and self.dirty(sim):
                    # one of the internal is_applicable calls failed and left the shared walker dirty: the
                    # answers for the remaining instances are unreliable (D-C14a)
                    return TOLERATED, None
                idx = {(n, tuple(a)): j for j, (n, a) in enumerate(self.instances)}
                got.sort(key=lambda x: idx.get((x[0], tuple(x[1])), 10 ** 6))
                return [[n, list(a)] for n, a in got], None
            if h == "goal":
                return sexp.B(sim.is_goal(s)), None
            if h == "ugoals":
                goals = list(self.P.goals)
                un = sim.get_unsatisfied_goals(s)
                return [str(j) for j, g in enumerate(goals) if any(g is u for u in un)], None
        except Exception as e:
            if h == "applicable" and REPLACE_DIRTY_SIM and self.dirty(sim) and self.exc(e) == ["raise", "other"]:
                return TOLERATED, None
            return self.exc(e), None
        raise ValueError(op)

    def dirty(self, sim):
        return bool(sim._se.stack or sim._se.memoization)

    def run(self, ops):
        """the ops on ONE simulator instance (swapped for a fresh one after a failed evaluation while
        REPLACE_DIRTY_SIM is on); returns (answers, slots)"""
        try:
            s0 = self.sim.get_initial_state()
        except Exception:
            s0 = None
        if REPLACE_DIRTY_SIM and self.dirty(self.sim):
            self.new_sim()
            self.replaced += 1
        slots, out = [s0], []
        for op in ops:
            a, st = self.query(self.sim, op, slots)
            out.append(a)
            slots.append(st)
            if REPLACE_DIRTY_SIM and self.dirty(self.sim):
                self.new_sim()
                self.replaced += 1
        return out, slots


def make_real(ps, fns=(), numeric_params=False):
    """Real(ps) or Skip: unsupported kind / initial state violating its own invariants"""
    try:
        r = Real(ps, fns, numeric_params)
    except UPUsageError:
        KEPT_OUT["unsupported-kind"] += 1
        raise Skip("unsupported kind")
    try:
        r.sim.get_initial_state()
    except UPProblemDefinitionError:
        KEPT_OUT["initial-violates-invariants"] += 1
        raise Skip("initial state violates invariants")
    except Exception:
        pass
    if REPLACE_DIRTY_SIM and r.dirty(r.sim):
        r.new_sim()
    return r


def bfs_ops(real, depth, max_states):
    """systematic exploration with the REAL simulator: every reachable state (up to the caps) gets
    dump/goal/ugoals/applicable and, for every ground instance, isapp + apply"""
    ops = [["init"]]
    ans, sl = real.run(ops)
    if sl[1] is None:
        return ops
    seen = {sexp.dumps(ans[0])}
    states = {1: sl[1]}
    frontier = [1]
    for d in range(depth + 1):
        nxt = []
        for idx in frontier:
            ops += [["dump", str(idx)], ["goal", str(idx)], ["ugoals", str(idx)], ["applicable", str(idx)]]
            for an, args in real.instances:
                ops.append(["isapp", str(idx), an, list(args)])
                ops.append(["apply", str(idx), an, list(args)])
                if d < depth:
                    a, s2 = real.query(real.sim, ops[-1], _slotview(states))
                    if REPLACE_DIRTY_SIM and real.dirty(real.sim):
                        real.new_sim()
                    if s2 is not None:
                        key = sexp.dumps(a)
                        if key not in seen and len(states) < max_states:
                            seen.add(key)
                            states[len(ops)] = s2
                            nxt.append(len(ops))
        frontier = nxt
        if not frontier:
            break
    return ops


class _slotview:
    """slots addressed by op number, as a list-like"""

    def __init__(self, d):
        self.d = d

    def __len__(self):
        return (max(self.d) + 1) if self.d else 0

    def __getitem__(self, i):
        return self.d.get(i)


def interleave_ops(real, rng, n_ops):
    """random interleaving of the five queries (plus dumps = re-reading) over the states created so far"""
    ops = [["init"]]
    ans, sl = real.run(ops)
    if sl[1] is None:
        return ops
    states = {1: sl[1]}
    live = [1]
    for _ in range(n_ops):
        i = rng.choice(live[-4:]) if rng.random() < 0.7 else rng.choice(live)
        k = rng.random()
        if k < 0.36 and real.instances:
            an, args = rng.choice(real.instances)
            pair = [["isapp", str(i), an, list(args)], ["apply", str(i), an, list(args)]]
            if rng.random() < 0.5:
                pair.reverse()
            for op in pair:
                ops.append(op)
                if op[0] == "apply":
                    a, s2 = real.query(real.sim, op, _slotview(states))
                    if REPLACE_DIRTY_SIM and real.dirty(real.sim):
                        real.new_sim()
                    if s2 is not None:
                        states[len(ops)] = s2
                        live.append(len(ops))
        elif k < 0.47:
            ops.append(["applicable", str(i)])
        elif k < 0.5:
            # asking for the initial state again must give the same state
            ops.append(["init"])
            a, s2 = real.query(real.sim, ops[-1], _slotview(states))
            if s2 is not None:
                states[len(ops)] = s2
                live.append(len(ops))
        elif k < 0.64:
            ops.append(["goal", str(i)])
            ops.append(["ugoals", str(i)])
        elif k < 0.72:
            ops.append(["ugoals", str(i)])
        else:
            ops.append(["dump", str(i)])
    # final re-reading of every state
    for i in live:
        ops.append(["dump", str(i)])
    return ops


def payload(ps, ops, fns=()):
    return ["sim", ps, ["fn"] + list(fns), ["ops"] + ops]


# ------------------------------------------------------------------------------------------------
# independent reference semantics (ORACLE side): the documented successor semantics, order-free
# ------------------------------------------------------------------------------------------------

class Amb(Exception):
    """an expression reads a fluent without value: the property says 'never satisfied'; an evaluator
    with early exit may legitimately not have read it"""


def _fn_table(fns):
    t = {}
    for ref, args, val in fns:
        t[(pyden.key(ref), tuple(pyden.val_of_sexp(a) for a in args))] = pyden.val_of_sexp(val)
    return t


def _interp(ps, smap, fns=()):
    doms = {}
    for n, _ in upp.get(ps, "types"):
        doms[pyden.key(["user", n])] = [("o", o) for o in upp.objects_of(ps, n)]
    return {"fl": smap, "fn": _fn_table(fns), "par": {}, "dom": doms}


def lazy_eval(e, I, rho=None):
    """pyden.den with the evaluator's documented early exit inside quantifiers (None = undefined)"""
    rho = rho or {}
    h = e[0]
    if h in ("exists", "forall"):
        if e[2][0] == "b":
            return ("b", e[2][1] == "T")
        doms = [I["dom"].get(pyden.key(t), []) for _, t in e[1]]
        for combo in product(*doms):
            r2 = dict(rho)
            for (n, t), x in zip(e[1], combo):
                r2[(n, pyden.key(t))] = x
            v = lazy_eval(e[2], I, r2)
            if v is None or v[0] != "b":
                return None
            if h == "exists" and v[1]:
                return ("b", True)
            if h == "forall" and not v[1]:
                return ("b", False)
        return ("b", h == "forall")
    if h in ("b", "i", "r", "o", "p", "v"):
        return pyden.den(e, I, rho)
    if h in ("fl", "ifun"):
        vs = [lazy_eval(a, I, rho) for a in e[2:]]
        if any(v is None for v in vs):
            return None
        return I["fl" if h == "fl" else "fn"].get((pyden.key(e[1]), tuple(vs)))
    # operators: children evaluated with early exit inside their quantifiers, then the strict operator table
    vs = [lazy_eval(a, I, rho) for a in e[1:]]
    if any(v is None for v in vs):
        return None
    return pyden.den(_reapply(h, vs), I, rho)


def _reapply(h, vs):
    out = [h]
    for v in vs:
        if v[0] == "b":
            out.append(["b", "T" if v[1] else "F"])
        elif v[0] == "n":
            q = v[1]
            out.append(["r", f"{q.numerator}/{q.denominator}"] if q.denominator != 1 else ["i", str(q.numerator)])
        else:
            out.append(["o", v[1], "_"])
    return out


def both_eval(e, I):
    """(strict value or None, lazy value or None)"""
    return pyden.den(e, I), lazy_eval(e, I)


def expand_quantifiers(e, ps):
    """quantifier-free version of an invariant body (documented: invariants are checked on their
    grounded version)"""
    def sub(x, env):
        h = x[0]
        if h == "v":
            k = (x[1], pyden.key(x[2]))
            return env.get(k, x)
        if h in ("b", "i", "r", "o", "p"):
            return x
        if h in ("fl", "ifun"):
            return [h, x[1]] + [sub(a, env) for a in x[2:]]
        if h in ("exists", "forall"):
            doms = [upp.objects_of(ps, t[1]) for _, t in x[1]]
            objtype = dict(map(tuple, upp.get(ps, "objects")))
            parts = []
            for combo in product(*doms):
                e2 = dict(env)
                for (n, t), o in zip(x[1], combo):
                    e2[(n, pyden.key(t))] = ["o", o, objtype[o]]
                parts.append(sub(x[2], e2))
            return (["or"] if h == "exists" else ["and"]) + parts
        return [h] + [sub(a, env) for a in x[1:]]
    return sub(e, {})


def problem_invariants(ps):
    """state invariants of the problem text: Always bodies + bounds of every ground instance of bounded fluents"""
    inv = []
    for tc in upp.get(ps, "traj"):
        if tc[0] == "always":
            inv.append(tc[1])
        elif tc[0] == "and":
            inv += [a[1] for a in tc[1:] if a[0] == "always"]
        elif tc[0] == "forall" and tc[2][0] == "always":
            inv.append(["forall", tc[1], tc[2][1]])
    inv = [expand_quantifiers(i, ps) for i in inv]
    objtype = dict(map(tuple, upp.get(ps, "objects")))
    for ref, objs in ground_keys(ps):
        ty = ref[1]
        if isinstance(ty, list) and ty[0] in ("int", "real"):
            fe = ["fl", ref] + [["o", o, objtype[o]] for o in objs]
            if ty[1] != "_":
                inv.append(["le", ["r", ty[1]], fe])
            if ty[2] != "_":
                inv.append(["le", fe, ["r", ty[2]]])
    return inv


def subst_vars(e, env):
    h = e[0]
    if h == "v":
        return env.get((e[1], pyden.key(e[2])), e)
    if h in ("b", "i", "r", "o", "p"):
        return e
    if h in ("fl", "ifun"):
        return [h, e[1]] + [subst_vars(a, env) for a in e[2:]]
    if h in ("exists", "forall"):
        inner = {k: v for k, v in env.items() if k not in [(n, pyden.key(t)) for n, t in e[1]]}
        return [h, e[1], subst_vars(e[2], inner)]
    return [h] + [subst_vars(a, env) for a in e[1:]]


def spec_successor(ps, pre, effs, smap, lazy, fns=()):
    """The documented sequential semantics on a GROUND action (preconditions `pre`, effects `effs` as
    s-expressions) in the state `smap`.  Returns None (inapplicable) or the successor map.
    `lazy` selects the evaluator (strict reference denotation / early-exit one).  Raises Amb when the
    strict evaluator meets an undefined read."""
    I = _interp(ps, smap, fns)
    ev = (lambda e: lazy_eval(e, I)) if lazy else (lambda e: pyden.den(e, I))

    def need(e):
        v = ev(e)
        if v is None:
            if not lazy:
                raise Amb()
            return None
        return v
    # conditions are evaluated in the pre-state
    for c in pre:
        v = need(c)
        if v != ("b", True):
            return None
    objtype = dict(map(tuple, upp.get(ps, "objects")))
    # fired ground effects as a MULTISET: forall effects range over all objects of the variable types
    fired = []
    for e in effs:
        _, kind, fl, val, cond, vs = e
        doms = [upp.objects_of(ps, t[1]) for _, t in vs]
        for combo in product(*doms):
            env = {(n, pyden.key(t)): ["o", o, objtype[o]] for (n, t), o in zip(vs, combo)}
            f1, v1, c1 = subst_vars(fl, env), subst_vars(val, env), subst_vars(cond, env)
            args = [need(a) for a in f1[2:]]
            if any(a is None for a in args):
                return None
            if c1 != ["b", "T"]:
                cv = need(c1)
                if cv is None:
                    return None
                if cv != ("b", True):
                    continue
            vv = need(v1)
            if vv is None:
                return None
            fired.append((kind, (pyden.key(f1[1]), tuple(args)), f1[1][1], vv))
    touched = {k for _, k, _, _ in fired}
    succ = dict(smap)
    for k in touched:
        asg = [v for kind, kk, _, v in fired if kk == k and kind == "assign"]
        inc = [v for kind, kk, _, v in fired if kk == k and kind == "increase"]
        dec = [v for kind, kk, _, v in fired if kk == k and kind == "decrease"]
        ty = next(t for _, kk, t, _ in fired if kk == k)
        if asg and (inc or dec):
            return None                       # no assignment together with increase/decrease
        if asg:
            if ty == "bool":
                succ[k] = ("b", any(v == ("b", True) for v in asg))    # a Boolean assigned both values ends true
            else:
                if len(set(asg)) > 1:
                    return None               # two different values
                succ[k] = asg[0]
        else:
            if k not in smap:
                return None                   # reads a fluent with no value
            succ[k] = ("n", smap[k][1] + sum((v[1] for v in inc), Fraction(0)) - sum((v[1] for v in dec), Fraction(0)))
    # bounded types and state invariants must hold in the successor
    I2 = _interp(ps, succ, fns)
    for inv in problem_invariants(ps):
        v = pyden.den(inv, I2)
        if v is None:
            if not lazy:
                raise Amb()
            return None
        if v != ("b", True):
            return None
    return succ


def spec_outcomes(ps, pre, effs, smap, fns=()):
    """set of acceptable outcomes (None or frozenset of successor items) under the property text"""
    try:
        r = spec_successor(ps, pre, effs, smap, False, fns)
        return [r]
    except Amb:
        # some expression reads an undefined fluent: 'never satisfied' (inapplicable) is always
        # acceptable; so is what the early-exit evaluator gives
        r = spec_successor(ps, pre, effs, smap, True, fns)
        return [None, r] if r is not None else [None]


def static_conflict(effs):
    """the model-building rule (documented for add_effect and for the grounder): unconditional
    effects on one non-Boolean fluent expression must not assign two different values nor mix an
    assignment with an increase/decrease — pairwise, hence order-free"""
    un = [e for e in effs if e[4] == ["b", "T"] and e[2][1][1] != "bool"]
    for i, a in enumerate(un):
        for b in un[i + 1:]:
            if a[2] != b[2]:
                continue
            if a[1] == "assign" and b[1] == "assign":
                same = a[3] == b[3] or (a[3][0] in ("i", "r", "o") and b[3][0] in ("i", "r", "o") and
                                        ((a[3][0] == "o" and b[3][0] == "o" and a[3][1] == b[3][1]) or
                                         (a[3][0] != "o" and b[3][0] != "o" and Fraction(a[3][1]) == Fraction(b[3][1]))))
                if not same:
                    return True
            elif a[1] == "assign" or b[1] == "assign":
                return True
    return False


# ------------------------------------------------------------------------------------------------
# property oracles on the REAL code (C01: successor semantics; C02: queries agree, purity)
# ------------------------------------------------------------------------------------------------

def _ground_real(real, an, args):
    """the REAL grounder's view of the instance: None or (pre, effs) as s-expressions"""
    act = real.P.action(an)
    em = real.ctx.em
    params = real.actuals(args, an)
    ga = real.sim._grounder.ground_action(act, params)
    if ga is None:
        return None
    return [upx.enc_expr(c) for c in ga.preconditions], [upp.enc_effect(e) for e in ga.effects]


def _succ_from_dump(real, dump):
    m = {}
    for (ref, objs), v in zip(real.keys, dump[1:]):
        if v != "undef":
            m[(pyden.key(ref), tuple(("o", o) for o in objs))] = pyden.val_of_sexp(v)
    return m


def _nontrivial_tags(ps, pre, effs, smap, fns=()):
    """why a (state, instance) pair exercises the property: >= 2 fired effects on one ground fluent,
    a bounded / invariant fluent touched, an undefined fluent read"""
    tags = set()
    I = _interp(ps, smap, fns)
    objtype = dict(map(tuple, upp.get(ps, "objects")))
    inv_fluents = set()
    for tc in upp.get(ps, "traj"):
        for r in upx.free_names(tc)["fl"]:
            inv_fluents.add(r[0])
    count = {}
    undefined = False
    for c in pre:
        if pyden.den(c, I) is None:
            undefined = True
    for e in effs:
        _, kind, fl, val, cond, vs = e
        doms = [upp.objects_of(ps, t[1]) for _, t in vs]
        for combo in product(*doms):
            env = {(n, pyden.key(t)): ["o", o, objtype[o]] for (n, t), o in zip(vs, combo)}
            f1, v1, c1 = subst_vars(fl, env), subst_vars(val, env), subst_vars(cond, env)
            args = [pyden.den(a, I) for a in f1[2:]]
            if any(a is None for a in args):
                undefined = True
                continue
            cv = ("b", True) if c1 == ["b", "T"] else pyden.den(c1, I)
            if cv is None:
                undefined = True
                continue
            if cv != ("b", True):
                continue
            if pyden.den(v1, I) is None:
                undefined = True
            k = (pyden.key(f1[1]), tuple(args))
            count[k] = count.get(k, 0) + 1
            ty = f1[1][1]
            if isinstance(ty, list) and ty[0] in ("int", "real") and (ty[1] != "_" or ty[2] != "_"):
                tags.add("bounded-fluent-touched")
            if f1[1][0] in inv_fluents:
                tags.add("invariant-fluent-touched")
            if kind != "assign" and k not in smap:
                undefined = True
    if any(n >= 2 for n in count.values()):
        tags.add("multi-effect-on-one-fluent")
    if undefined:
        tags.add("undefined-read")
    return tags


def _fmt_state(real, m):
    return sexp.dumps(["state"] + [pyden.val_sexp(m.get((pyden.key(ref), tuple(("o", o) for o in objs)))) for ref, objs in real.keys])


def analyse(pl, numeric_params=False):
    """runs the ops of a payload on the real code (one simulator instance, as impl does) and checks every
    answer against the documented semantics.  Returns (violation_or_None, set_of_tags, answers)."""
    ps, fns, ops = pl[1], pl[2][1:], pl[3][1:]
    real = Real(ps, fns, numeric_params)
    answers, slots = real.run(ops)
    dumps = {}     # slot index -> dump of the state in it
    try:
        s0 = real.sim.get_initial_state()
        dumps[0] = real.dump(s0)
    except Exception:
        pass
    for j, (op, a) in enumerate(zip(ops, answers), start=1):
        if op[0] in ("init", "apply") and isinstance(a, list) and a and a[0] == "state":
            dumps[j] = a
    tags = set()
    viol = None
    goals = upp.get(ps, "goals")
    for j, (op, a) in enumerate(zip(ops, answers), start=1):
        h = op[0]
        if h == "init":
            continue
        i = int(op[1])
        if i not in dumps:
            continue
        smap = _succ_from_dump(real, dumps[i])
        if h == "dump":
            if a != dumps[i]:
                viol = viol or f"state {i} reads differently after queries: {sexp.dumps(a)} vs {sexp.dumps(dumps[i])}"
        elif h in ("apply", "isapp"):
            if isinstance(a, list) and a and a[0] == "raise":
                # exceptions other than the documented None/False are outside the documented semantics;
                # with non-zero constant divisors and well-formed problems none may escape
                viol = viol or f"{h} {op[2]}{op[3]} in state {i} raised {a[1]}"
                continue
            g = _ground_real(real, op[2], op[3])
            if g is None:
                outcomes = [None]
            else:
                pre, effs = g
                tags |= _nontrivial_tags(ps, pre, effs, smap, fns)
                if uses_ifuns([pre, effs]):
                    tags.add("interpreted-function-evaluated")
                outcomes = spec_outcomes(ps, pre, effs, smap, fns)
                if len(outcomes) > 1:
                    tags.add("ambiguous-undefined-read")
            if h == "apply":
                got = None if a == "none" else _succ_from_dump(real, a)
                if not any((got is None and o is None) or (got is not None and o is not None and got == o) for o in outcomes):
                    exp = outcomes[0]
                    viol = viol or (f"apply {op[2]}{op[3]} in state {i}: got {'None' if got is None else _fmt_state(real, got)}, "
                                    f"documented semantics gives {'inapplicable' if exp is None else _fmt_state(real, exp)}")
                tags.add("apply:" + ("none" if got is None else "state"))
            else:
                got = a == "T"
                if not any((o is not None) == got for o in outcomes):
                    viol = viol or f"is_applicable {op[2]}{op[3]} in state {i} = {got}, documented semantics says {outcomes[0] is not None}"
        elif h in ("goal", "ugoals"):
            I = _interp(ps, smap, fns)
            strict = [pyden.den(g, I) for g in goals]
            lazy = [lazy_eval(g, I) for g in goals]
            if all(v is not None for v in strict):
                sat = all(v == ("b", True) for v in strict)
                acceptable = [sat]
                unsat_idx = [[str(k) for k, v in enumerate(strict) if v != ("b", True)]]
            else:
                tags.add("undefined-goal-read")
                # an undefined read is never satisfied; the early-exit evaluator may not have read it
                l_ok = all(v is not None for v in lazy)
                acceptable = [False] + ([all(v == ("b", True) for v in lazy)] if l_ok else [])
                unsat_idx = None
            if h == "goal":
                if isinstance(a, list):
                    viol = viol or f"is_goal in state {i} raised {a[1]}"
                elif (a == "T") not in acceptable:
                    viol = viol or f"is_goal in state {i} = {a}, documented semantics says {acceptable[0]}"
            else:
                if unsat_idx is not None and a != unsat_idx[0]:
                    viol = viol or f"get_unsatisfied_goals in state {i} = {sexp.dumps(a)}, expected {sexp.dumps(unsat_idx[0])}"
        elif h == "applicable":
            pass   # C02's clause
    return viol, tags, answers


def analyse_c02(pl, numeric_params=False):
    """C02 on the real code: is_applicable == (apply is not None); get_applicable_actions == the instances
    on which apply succeeds; is_goal == (get_unsatisfied_goals returns []); answering a query changes neither
    the states nor later answers (every answer == the same query on a fresh simulator; states re-read)."""
    ps, fns, ops = pl[1], pl[2][1:], pl[3][1:]
    real = Real(ps, fns, numeric_params)
    answers, slots = real.run(ops)
    created = {}
    for j, (op, a) in enumerate(zip(ops, answers), start=1):
        if op[0] in ("init", "apply") and slots[j] is not None:
            created[j] = a
    box = [real.fresh()]

    def aux():
        """a second, long-lived simulator for the cross-checks (swapped when its evaluator is dirty while
        REPLACE_DIRTY_SIM is on)"""
        if REPLACE_DIRTY_SIM and real.dirty(box[0]):
            box[0] = real.fresh()
        return box[0]
    for j, (op, a) in enumerate(zip(ops, answers), start=1):
        h = op[0]
        if h == "init":
            continue
        i = int(op[1])
        s = slots[i] if i < len(slots) else None
        if s is None:
            continue
        tolerated = a == TOLERATED
        # purity 1: the same query on a fresh simulator instance gives the same answer
        fa, _ = real.query(real.fresh(), op, slots)
        if fa != a and not tolerated:
            return f"answer depends on the history of the simulator: {sexp.dumps(op)} -> {sexp.dumps(a)[:200]} after earlier queries, {sexp.dumps(fa)[:200]} on a fresh simulator"
        # purity 2: every state created so far still reads as when it was created
        for k, d in created.items():
            if k <= j and slots[k] is not None and k in (i,) and real.dump(slots[k]) != d:
                return f"state {k} changed after {sexp.dumps(op)}"
        if h in ("apply", "isapp"):
            act, par = real.P.action(op[2]), real.params(op[3], op[2])
            try:
                ia = aux().is_applicable(s, act, par)
                ap = aux().apply(s, act, par)
            except Exception as e:
                return f"{h} {op[2]}{op[3]}: raised {type(e).__name__}"
            if ia != (ap is not None):
                return f"is_applicable={ia} but apply returns {'a state' if ap is not None else 'None'} for {op[2]}{op[3]} in state {i}"
        elif h == "applicable" and not tolerated:
            want = []
            for an, args in real.instances:
                try:
                    if aux().apply(s, real.P.action(an), real.params(args, an)) is not None:
                        want.append([an, list(args)])
                except Exception as e:
                    return f"apply {an}{args} raised {type(e).__name__}"
            if a != want:
                return f"get_applicable_actions in state {i} = {sexp.dumps(a)}, apply succeeds exactly on {sexp.dumps(want)}"
        elif h in ("goal", "ugoals"):
            try:
                ig = aux().is_goal(s)
            except Exception as e:
                return f"is_goal raised {type(e).__name__}"
            try:
                ug = aux().get_unsatisfied_goals(s)
                empty = len(ug) == 0
            except UPStateMissingFluentError:
                empty = False
            except Exception as e:
                return f"get_unsatisfied_goals raised {type(e).__name__}"
            if ig != empty:
                return f"is_goal={ig} but get_unsatisfied_goals returns {'[]' if empty else 'a non-empty list / raises'} in state {i}"
    # final re-reading of all states
    for k, d in created.items():
        if slots[k] is not None and real.dump(slots[k]) != d:
            return f"state {k} reads differently at the end of the history"
    return None


TOLERATED = ["tolerated", "d-c14a"]


def compare(model_ans, impl_ans):
    """equality; while DagWalker is not exception-safe (defect D-C14a, being repaired by property C14's
    patch) a get_applicable_actions call that died inside the library on its own stale walker stack is
    marked TOLERATED by the runner and not compared"""
    if model_ans == impl_ans:
        return True
    if not isinstance(model_ans, list) or not isinstance(impl_ans, list) or len(model_ans) != len(impl_ans):
        return False
    return all(m == a or a == TOLERATED for m, a in zip(model_ans, impl_ans))


def shrink_problem(pl, rebuild):
    """candidate smaller payloads: drop an action / effect / precondition / goal / constraint, then
    regenerate the ops with `rebuild(ps)`"""
    ps = pl[1]
    secs = {s[0]: (i, s) for i, s in enumerate(ps) if isinstance(s, list) and s}

    def with_sec(name, new):
        out = list(ps)
        out[secs[name][0]] = [name] + new
        return out
    acts = secs["actions"][1][1:]
    cands = []
    for i in range(len(acts)):
        if len(acts) > 1:
            cands.append(with_sec("actions", acts[:i] + acts[i + 1:]))
    for i, a in enumerate(acts):
        effs, pre = a[4][1:], a[3][1:]
        for j in range(len(effs)):
            if len(effs) > 1:
                a2 = ["action", a[1], a[2], a[3], ["effs"] + effs[:j] + effs[j + 1:]]
                cands.append(with_sec("actions", acts[:i] + [a2] + acts[i + 1:]))
        for j in range(len(pre)):
            a2 = ["action", a[1], a[2], ["pre"] + pre[:j] + pre[j + 1:], a[4]]
            cands.append(with_sec("actions", acts[:i] + [a2] + acts[i + 1:]))
        for j, e in enumerate(effs):
            if e[4] != ["b", "T"]:
                e2 = ["eff", e[1], e[2], e[3], ["b", "T"], e[5]]
                a2 = ["action", a[1], a[2], a[3], ["effs"] + effs[:j] + [e2] + effs[j + 1:]]
                cands.append(with_sec("actions", acts[:i] + [a2] + acts[i + 1:]))
    for name in ("goals", "traj"):
        items = secs[name][1][1:]
        for i in range(len(items)):
            cands.append(with_sec(name, items[:i] + items[i + 1:]))
    for c in cands:
        try:
            P, _ = upp.build_problem(c)
            canon = upp.enc_problem(P)
            p2 = rebuild(canon)
        except Exception:
            continue
        if p2 is not None:
            yield p2
