"""Helpers of the plan-text cases of C18 (kinds `ttplan`, `ttread` of harness/props/C18.py).

  gen_tproblem(rng, adversarial)   -> (ps, temporal): a temporal problem of the PDDL fragment in the wire format of
                                      upp.build_problem / ttlib.build (durative + instantaneous actions)
  prepare(ps, temporal)            -> Prepared: the REAL problem, a PDDLWriter that has written domain and problem, the
                                      renaming table and the signature table the model takes as parameters
  gen_tt_plan / gen_seq_plan       -> plans in wire format
  real_plan(prep, plan)            -> the REAL TimeTriggeredPlan / SequentialPlan
  enc_plan(plan)                   -> wire format of a REAL plan (original names)
  read_both(prep, text)            -> what UPPDDLReader and the default PDDLReader return on a plan text
  mutate_text(rng, prep, text)     -> the text rewritten into forms the writer never emits / broken forms

Wire format of plans:  (tt (start name (obj*) dur|-)*)  |  (seq (name obj*)*)      (lean/UPVerif/Drv/C18TTPlan.lean)
Harness code (trusted base of the correspondence check).
"""
import warnings
from fractions import Fraction

warnings.simplefilter("ignore")
import unified_planning as up
from unified_planning.io import PDDLReader
from unified_planning.io.up_pddl_reader import UPPDDLReader
from unified_planning.model import DurativeAction
from unified_planning.plans import ActionInstance, SequentialPlan, TimeTriggeredPlan

import c18_pddl as cp
import ttlib
from upx import q2s

TRUE = ["b", "T"]

# times: integers, short and long finite decimals (below 1e-4 and above 1e16: where `repr(float)` switches to exponent
# notation / loses digits), and rationals without a finite decimal expansion
FINITE = ["0", "1", "2", "3", "5", "10", "1/2", "3/2", "5/2", "1/4", "5/4", "1/8", "1/10", "3/10", "7/20", "1/100", "301/100",
          "1/1000", "1/100000", "3/200000", "1/10000000", "12345678901/100", "123456789012345678901/1000", "10000000000000000",
          "20000000000000001/2", "1/1024", "99999999999/10000000000", "314159265358979/100000000000000", "1000001/1000000",
          "4", "6", "7", "100", "1/5", "12/5", "1/1000000000000000000000"]
NONFINITE = ["1/3", "2/3", "22/7", "5/3", "1/7", "1/300000", "100000000000000001/3", "7/6", "1/11"]


class Names:
    """identifier source: plain or adversarial (keywords, upper case, leading digits, symbols, mangled forms of other names)"""

    def __init__(self, rng, adversarial):
        self.rng, self.adv, self.used, self.fresh = rng, adversarial, set(), 0

    def pick(self, kind):
        r = self.rng
        for _ in range(50):
            if self.adv and r.random() < 0.7:
                n = r.choice(cp.ADV)
            else:
                n = r.choice(cp.PLAIN[kind])
                if r.random() < 0.3:
                    n = n + str(r.randint(0, 9))
            if n not in self.used and all(ord(c) < 128 for c in n):
                self.used.add(n)
                return n
        self.fresh += 1
        n = f"{kind[0]}n{self.fresh}"
        self.used.add(n)
        return n


def gen_tproblem(rng, adversarial):
    """A small `heat / serve` style temporal problem with random shape: 1-3 user types (flat or a chain), 2-4 objects,
    Boolean fluents ready(x) done(x) free, optionally an unbounded counter; 1-2 durative actions (0-2 parameters, fixed or
    interval duration with closed / open bounds, conditions at start / over all / at end, effects at start and at end),
    1-2 instantaneous actions; goals over done(x)."""
    r = rng
    nm = Names(rng, adversarial)
    t0 = nm.pick("types")
    types = [[t0, "_"]]
    sub = None
    if r.random() < 0.5:
        sub = nm.pick("types")
        types.append([sub, t0])
    other = None
    if r.random() < 0.5:
        other = nm.pick("types")
        types.append([other, "_"])
    U = lambda n: ["user", n]
    objects = [[nm.pick("objects"), t0]]
    objects.append([nm.pick("objects"), sub or t0])
    if r.random() < 0.5:
        objects.append([nm.pick("objects"), r.choice([t0, sub or t0])])
    if other:
        objects.append([nm.pick("objects"), other])
    r.shuffle(objects)
    ready = [nm.pick("bool"), "bool", [U(t0)]]
    done = [nm.pick("bool"), "bool", [U(t0)]]
    free = [nm.pick("bool"), "bool", []]
    fluents = [[ready, ["b", "F"]], [done, ["b", "F"]], [free, TRUE]]
    cnt = None
    if r.random() < 0.4:
        cnt = [nm.pick("num"), ["int", "_", "_"], []]
        fluents.append([cnt, ["i", "0"]])

    def params():
        ps = []
        k = r.random()
        if k < 0.75:
            ps.append([nm.pick("params"), U(r.choice([t0, sub or t0]))])
        if other and r.random() < 0.4:
            ps.append([nm.pick("params"), U(other)])
        if r.random() < 0.15:
            r.shuffle(ps)
        return ps

    def first_t0(ps):
        for pn, pt in ps:
            if pt[1] in (t0, sub):
                return ["p", pn, pt]
        return None

    dacts = []
    for _ in range(r.choice([1, 1, 2])):
        ps = params()
        x = first_t0(ps)
        k = r.random()
        if k < 0.5:
            d = r.choice(["1", "2", "5", "3/2", "1/4"])
            de = ["i", d] if "/" not in d else ["r", d]
            dur = ["dur", de, de, "F", "F"]
        else:
            lo, hi = r.choice([("1", "3"), ("2", "5"), ("1/2", "5/2"), ("1", "10")])
            E = lambda q: ["i", q] if "/" not in q else ["r", q]
            dur = ["dur", E(lo), E(hi), r.choice("TF"), r.choice("TF")]
        conds = ["conds"]
        S, En = ["S", "0"], ["E", "0"]
        if r.random() < 0.6:
            conds.append([[S, S, "F", "F"], ["fl", free]])
        if x is not None and r.random() < 0.5:
            conds.append([[S, En, r.choice("TF"), r.choice("TF")], ["not", ["fl", done, x]]])
        if x is not None and r.random() < 0.3:
            conds.append([[En, En, "F", "F"], ["not", ["fl", ready, x]]])
        effs = ["effs"]
        se = []
        if r.random() < 0.6:
            se.append(["eff", "assign", ["fl", free], ["b", "F"], TRUE, []])
        if se:
            effs.append([S] + se)
        ee = []
        if x is not None:
            ee.append(["eff", "assign", ["fl", ready, x], TRUE, TRUE, []])
        if se or x is None:
            ee.append(["eff", "assign", ["fl", free], TRUE, TRUE, []])
        if cnt and r.random() < 0.5:
            ee.append(["eff", "increase", ["fl", cnt], ["i", "1"], TRUE, []])
        effs.append([En] + ee)
        dacts.append(["daction", nm.pick("actions"), ps, dur, conds, effs])
    iacts = []
    for _ in range(r.choice([1, 1, 2])):
        ps = params()
        x = first_t0(ps)
        pre = ["pre"]
        effs = ["effs"]
        if x is not None:
            if r.random() < 0.8:
                pre.append(["fl", ready, x])
            effs.append(["eff", "assign", ["fl", done, x], TRUE, TRUE, []])
        else:
            if r.random() < 0.5:
                pre.append(["fl", free])
            effs.append(["eff", "assign", ["fl", free], r.choice([TRUE, ["b", "F"]]), TRUE, []])
        if cnt and r.random() < 0.4:
            effs.append(["eff", "increase", ["fl", cnt], ["i", "2"], TRUE, []])
        iacts.append(["action", nm.pick("actions"), ps, pre, effs])
    t0objs = [o for o in objects if o[1] in (t0, sub)]
    goals = []
    for o, ot in t0objs:
        if r.random() < 0.4:
            goals.append(["fl", done, ["o", o, ot]])
    ps_ = ["problem", nm.pick("actions") if adversarial and r.random() < 0.3 else "tprob",
           ["types"] + types, ["objects"] + objects, ["fluents"] + fluents, ["init"],
           ["actions"] + iacts, ["goals"] + goals, ["traj"], ["metrics"]]
    temporal = ["temporal", ["dactions"] + dacts, ["teff"], ["tgoal"]]
    return ps_, temporal


# ------------------------------------------------------------------------------------------------
# the real problem, its writer and the tables the model takes as parameters
# ------------------------------------------------------------------------------------------------

class Prepared:
    pass


_PREP = {}


def prepare(ps, temporal):
    """raises what the real builders / the real writer raise"""
    import sexp
    key = sexp.dumps([ps, temporal])
    if key in _PREP:
        return _PREP[key]
    b = ttlib.build(ps, temporal)
    w, dom, prob, kind, ren = cp.derive(b.P)
    p = Prepared()
    p.b, p.P, p.w, p.ren = b, b.P, w, ren
    p.sig = sig_of(b.P)
    p.ren_ok = ren_hypothesis(b.P, w)
    if len(_PREP) > 64:
        _PREP.clear()
    _PREP[key] = p
    return p


def ren_hypothesis(P, w):
    """the hypothesis `RenOK` of Props/C18TTPlan.lean evaluated on the REAL writer: get_item_named inverts the renaming on
    every action and object, and their new names are non-empty words over [a-z0-9_-]"""
    import re
    for item in list(P.actions) + list(P.all_objects):
        new = w.otn_renamings.get(item)
        if new is None or re.fullmatch(r"[a-z0-9_-]+", new) is None:
            return False
        try:
            if w.get_item_named(new) is not item:
                return False
        except Exception:
            return False
    return True


def sig_of(P):
    """(sig (types (t father|_)*) (objs (o t)*) (acts (a t*)*)) read from the REAL problem"""
    return ["sig",
            ["types"] + [[t.name, t.father.name if t.father is not None else "_"] for t in P.user_types],
            ["objs"] + [[o.name, o.type.name] for o in P.all_objects],
            ["acts"] + [[a.name] + [p.type.name for p in a.parameters] for a in P.actions]]


def action_table(ps, temporal):
    """[(name, [(pname, ptype)], dur-or-None)]"""
    import upp
    out = [(a[1], a[2], None) for a in upp.get(ps, "actions")]
    out += [(d[1], d[2], d[3]) for d in ttlib.tsec(temporal, "dactions")]
    return out


def _is_sub(types, t, u):
    fathers = {n: (None if f == "_" else f) for n, f in types}
    while t is not None:
        if t == u:
            return True
        t = fathers.get(t)
    return False


def _args_for(rng, ps, params, well_typed=True):
    import upp
    types, objects = upp.get(ps, "types"), upp.get(ps, "objects")
    out = []
    for pn, pt in params:
        opts = [o for o, ot in objects if _is_sub(types, ot, pt[1])] if well_typed else [o for o, ot in objects]
        if not opts:
            return None
        out.append(rng.choice(opts))
    return out


def _goal_directed(rng, ps, temporal, allow_nonfinite):
    """for each goal object (else a random object): a durative action on it with a duration inside its bounds, then an
    instantaneous action on it just after the end — the schedules the validator can accept"""
    import upp
    r = rng
    acts = action_table(ps, temporal)
    types, objects = upp.get(ps, "types"), dict(map(tuple, upp.get(ps, "objects")))
    goal_objs = [g[2][1] for g in upp.get(ps, "goals")]
    if not goal_objs:
        goal_objs = [r.choice(sorted(objects))]
    entries = []
    clock = Fraction(r.choice(["0", "0", "1/2", "1/100000", "1", "12345678901/100", "3/8"]))
    eps = [Fraction(q) for q in ("1/1000", "1/2", "1", "1/100000", "1/100000000000000000000")]
    for o in goal_objs:
        for want_dur in (True, False):
            cands = [a for a in acts if (a[2] is not None) == want_dur and a[1] and _is_sub(types, objects[o], a[1][0][1][1])]
            if not cands:
                continue
            name, params, dur = r.choice(cands)
            args = [o] + (_args_for(r, ps, params[1:]) or [])
            if len(args) != len(params):
                continue
            start = clock + (Fraction(r.choice(NONFINITE)) if allow_nonfinite and r.random() < 0.5 else 0)
            if dur is None:
                entries.append([q2s(start), name, args, "-"])
                clock = start + r.choice(eps)
            else:
                lo, hi = Fraction(dur[1][1]), Fraction(dur[2][1])
                q = r.choice([(lo + hi) / 2, lo + (hi - lo) / 8] + ([lo] if dur[3] == "F" else []) + ([hi] if dur[4] == "F" else []))
                entries.append([q2s(start), name, args, q2s(q)])
                clock = start + q + r.choice(eps)
    return entries[:5]


def gen_tt_plan(rng, ps, temporal, allow_nonfinite):
    """1-5 entries mixing durative and instantaneous actions in every order.  Half of the plans are goal directed (a
    durative action with a duration inside its bounds, an instantaneous one just after its end, …) so that the validator
    accepts a good share; the others draw actions, starts and durations freely (also a duration on an instantaneous action
    and none on a durative one: the plan classes accept that, the validator rejects it)."""
    r = rng
    acts = action_table(ps, temporal)
    entries = []
    pool = FINITE + (NONFINITE * 2 if allow_nonfinite else [])
    if r.random() < 0.5:
        entries = _goal_directed(r, ps, temporal, allow_nonfinite)
    if not entries:
        for i in range(r.choice([1, 2, 2, 3, 3, 4, 5])):
            name, params, dur = r.choice(acts)
            args = _args_for(r, ps, params)
            if args is None:
                continue
            start = Fraction(r.choice(pool))
            k = r.random()
            if dur is None:
                du = "-" if k < 0.85 else r.choice(pool)
            else:
                du = "0" if k < 0.06 else r.choice(pool) if k < 0.9 else "-"
            entries.append([q2s(start), name, args, du if du == "-" else q2s(Fraction(du))])
    if not entries:
        return None
    if r.random() < 0.3:
        r.shuffle(entries)
    return ["tt"] + entries


def gen_seq_plan(rng, ps, temporal):
    acts = action_table(ps, temporal)
    steps = []
    for _ in range(rng.choice([0, 1, 2, 3])):
        name, params, dur = rng.choice(acts)
        args = _args_for(rng, ps, params)
        if args is not None:
            steps.append([name] + args)
    return ["seq"] + steps


def real_plan(prep, plan):
    P, em = prep.P, prep.P.environment.expression_manager

    def inst(name, args):
        return ActionInstance(P.action(name), tuple(em.ObjectExp(P.object(o)) for o in args))
    if plan[0] == "tt":
        return TimeTriggeredPlan([(Fraction(st), inst(name, args), None if du == "-" else Fraction(du))
                                  for st, name, args, du in plan[1:]], P.environment)
    return SequentialPlan([inst(s[0], s[1:]) for s in plan[1:]], P.environment)


def enc_plan(plan):
    if isinstance(plan, TimeTriggeredPlan):
        return ["tt"] + [[q2s(Fraction(s)), ai.action.name, [p.object().name for p in ai.actual_parameters],
                          "-" if d is None else q2s(Fraction(d))] for s, ai, d in plan.timed_actions]
    if isinstance(plan, SequentialPlan):
        return ["seq"] + [[ai.action.name] + [p.object().name for p in ai.actual_parameters] for ai in plan.actions]
    raise ValueError("unexpected plan class")


ERRORS = ("UPException", "AssertionError", "UPTypeError", "TypeError")


def read_one(prep, reader, text):
    try:
        back = ttlib.guarded(lambda: reader.parse_plan_string(prep.P, text, prep.w.get_item_named), 20)
    except Exception as e:
        n = type(e).__name__
        return ["error", n if n in ERRORS else "other:" + n]
    return enc_plan(back)


_READERS = []


def readers(prep=None):
    """one UPPDDLReader and one default PDDLReader, reused for every problem (building the pyparsing grammar costs 0.1 s;
    parse_plan_string uses only the problem and get_item_named that are passed to it)"""
    if not _READERS:
        _READERS.extend([("UPPDDLReader", UPPDDLReader()), ("PDDLReader", cp.reader("default"))])
    return _READERS


def read_both(prep, text):
    (_, u), (_, d) = readers(prep)
    return read_one(prep, u, text), read_one(prep, d, text)


def write_text(prep, plan):
    """(text | None, inexact?) — the REAL writer; inexact = it warned that a constant cannot be represented exactly"""
    with warnings.catch_warnings(record=True) as wl:
        warnings.simplefilter("always")
        text = prep.w.get_plan(plan)
    return text, any("cannot exactly represent" in str(x.message) for x in wl)


def text_codes(text):
    return ["text"] + [str(ord(c)) for c in text]


def codes_text(t):
    return "".join(chr(int(c)) for c in t[1:])


def validate_tt(prep, plan):
    """verdict of the REAL TimeTriggeredPlanValidator on a REAL plan"""
    from unified_planning.engines.plan_validator import TimeTriggeredPlanValidator
    try:
        res = ttlib.guarded(lambda: TimeTriggeredPlanValidator(environment=prep.P.environment).validate(prep.P, plan), 20)
    except Exception as e:
        return "raise:" + type(e).__name__
    return res.status.name + ("" if res.reason is None else ":" + res.reason.name)


# ------------------------------------------------------------------------------------------------
# texts the writer never emits
# ------------------------------------------------------------------------------------------------

SPACES = [" ", "  ", "\t", " \t ", "\x1f"]
BREAKS = ["\r\n", "\r", "\x0b", "\x0c", "\x1c", "\x1d", "\x1e", "\x85", chr(0x2028), chr(0x2029), " ", "\n\n", "\n \n", "\n\r", "\r\r\n"]
NUMBER_FORMS = ["5.", "05", "5.0", "5.50", ".5", "1e3", "-1", "+1", "1/2", "1_0", "0.", "00.250", "7.", "1.5e1", "", "1..5", "1.5."]


def mutate_text(rng, prep, text):
    """1-3 rewrites of a written plan text; returns (text, tags)"""
    r = rng
    tags = []
    lines = text.split("\n")
    if lines and lines[-1] == "":
        lines.pop()
    ren = prep.ren[1:]
    by_kind = {}
    for e in ren:
        by_kind.setdefault(e[0], []).append(e)
    act_new = [e[-1] for e in by_kind.get("action", [])]
    obj_new = [e[-1] for e in by_kind.get("obj", [])]
    other_new = [e[-1] for k in ("fluent", "ty") for e in by_kind.get(k, [])]

    def some_line():
        idx = [i for i, l in enumerate(lines) if "(" in l]
        return r.choice(idx) if idx else None

    for _ in range(r.choice([1, 1, 2, 3])):
        k = r.choice(["space", "space", "case", "comment", "blank", "number", "duration", "paren", "junk", "actname",
                      "objname", "arity", "swap", "seqline", "strip-times", "glue", "origname"])
        i = some_line()
        if i is None and k not in ("comment", "blank"):
            continue
        if i is not None and k not in ("comment", "blank", "space", "case", "number", "duration", "paren", "junk", "strip-times") \
                and ")" not in lines[i][lines[i].index("("):]:
            continue
        if k == "space":
            l = lines[i]
            out = []
            for c in l:
                if c in "():[]" and r.random() < 0.5:
                    out.append(r.choice(SPACES) if r.random() < 0.5 else "")
                    out.append(c)
                    out.append(r.choice(SPACES) if r.random() < 0.5 else "")
                elif c == " " and r.random() < 0.4:
                    out.append(r.choice(SPACES))
                else:
                    out.append(c)
            lines[i] = r.choice(["", " ", "\t"]) + "".join(out) + r.choice(["", " ", "\x1f"])
        elif k == "case":
            lines[i] = lines[i].upper() if r.random() < 0.5 else "".join(c.upper() if r.random() < 0.3 else c for c in lines[i])
        elif k == "comment":
            lines.insert(r.randint(0, len(lines)), r.choice(["; a comment", "   ;; (a b)", ";", "\t; 0: (x)", ";0.5: (a)[1]"]))
        elif k == "blank":
            lines.insert(r.randint(0, len(lines)), r.choice(["", "   ", "\t", "\x1f "]))
        elif k == "number":
            l = lines[i]
            if ":" in l:
                head, rest = l.split(":", 1)
                lines[i] = r.choice(NUMBER_FORMS) + ":" + rest
        elif k == "duration":
            l = lines[i]
            body = l[:l.index("[")] if "[" in l else l
            lines[i] = body + r.choice(["[ 5 ]", " [5]", "[5", "5]", "[]", "[5][6]", "[5.]", "[.5]", " [ 2.50 ] ", "[1e1]",
                                        "[-1]", "[5] ;c", "[ ]", "[5 5]", "\t[\t7\t]\t"])
        elif k == "paren":
            l = lines[i]
            lines[i] = r.choice([l.replace("(", "", 1), l.replace(")", "", 1), l.replace(")", "))", 1), l.replace("(", "((", 1),
                                 l.replace("(", "( ", 1).replace(")", " )", 1)])
        elif k == "junk":
            lines[i] = r.choice([lines[i] + " x", lines[i] + " ; c", "x " + lines[i], lines[i] + "(", lines[i] + " 3",
                                 lines[i].replace(": ", " ", 1), lines[i].replace(": ", ":: ", 1), lines[i].replace(": ", ":", 1)])
        elif k in ("actname", "origname"):
            l = lines[i]
            a, b = l.index("("), l.index(")")
            toks = l[a + 1:b].split()
            if toks:
                if k == "origname":
                    orig = [e[1] for e in by_kind.get("action", []) if e[-1] == toks[0]]
                    toks[0] = orig[0] if orig else toks[0]
                else:
                    toks[0] = r.choice(act_new + obj_new + other_new + ["zz-unknown", "?x", "a?b", toks[0] + "_", "-", "_"])
                lines[i] = l[:a + 1] + " ".join(toks) + l[b:]
        elif k == "objname":
            l = lines[i]
            a, b = l.index("("), l.index(")")
            toks = l[a + 1:b].split()
            if len(toks) > 1:
                j = r.randint(1, len(toks) - 1)
                toks[j] = r.choice(obj_new + obj_new + act_new + other_new + ["zz-unknown", "?o", toks[j].upper()])
                lines[i] = l[:a + 1] + " ".join(toks) + l[b:]
        elif k == "arity":
            l = lines[i]
            a, b = l.index("("), l.index(")")
            toks = l[a + 1:b].split()
            if r.random() < 0.5 and len(toks) > 1:
                toks.pop()
            elif obj_new:
                toks.append(r.choice(obj_new))
            lines[i] = l[:a + 1] + " ".join(toks) + l[b:]
        elif k == "swap":
            l = lines[i]
            a, b = l.index("("), l.index(")")
            toks = l[a + 1:b].split()
            if len(toks) > 2:
                toks[1], toks[-1] = toks[-1], toks[1]
                lines[i] = l[:a + 1] + " ".join(toks) + l[b:]
        elif k == "seqline":
            l = lines[i]
            a, b = l.index("("), l.index(")")
            lines.insert(r.choice([0, len(lines), r.randint(0, len(lines))]), l[a:b + 1])
        elif k == "strip-times":
            new = []
            for l in lines:
                if "(" in l and ")" in l:
                    new.append(l[l.index("("):l.index(")") + 1])
                else:
                    new.append(l)
            lines = new
        elif k == "glue":
            l = lines[i]
            a, b = l.index("("), l.index(")")
            toks = l[a + 1:b].split()
            if len(toks) > 1:
                lines[i] = l[:a + 1] + toks[0] + r.choice(["", ",", ".", ";"]) + " ".join(toks[1:]) + l[b:]
        tags.append(k)
    sep = "\n"
    if r.random() < 0.35:
        sep = r.choice(BREAKS)
        tags.append("break")
    out = sep.join(lines)
    if r.random() < 0.7:
        out += sep if r.random() < 0.7 else "\n"
    return out, sorted(set(tags))
