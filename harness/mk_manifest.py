#!/venv/bin/python
"""Regenerates MANIFEST.json from the property modules present in harness/props (keeps it valid at all times)."""
import importlib, json, os, sys, warnings
warnings.simplefilter("ignore")
HERE = os.path.dirname(os.path.abspath(__file__))
VERIF = os.path.dirname(HERE)
sys.path.insert(0, HERE)
props = [json.loads(l) for l in open(os.path.join(VERIF, "properties.jsonl"))]
reasons = json.load(open(os.path.join(HERE, "not_claimed.json")))
claimed = json.load(open(os.path.join(HERE, "claimed.json")))
checks, na = [], []
for p in props:
    pid = p["id"]
    if pid in claimed and os.path.exists(os.path.join(HERE, "props", pid + ".py")):
        mod = importlib.import_module("props." + pid)
        M = mod.MANIFEST
        checks.append({
            "property_id": pid,
            "quick_cmd": f"./check {pid} --tier quick",
            "thorough_cmd": f"./check {pid} --tier thorough",
            "evidence_file": f"evidence/{pid}.json",
            "replay_cmd_template": f"./check {pid} --replay {{path}}",
            "engine": "lean4-proof+correspondence",
            "level_claimed": {"category": getattr(mod, "LEVEL", "proof"), "text": M["level_text"], "design_ref": M["design_ref"]},
            "level_note": M["level_note"],
            "technique": M["technique"],
        })
    else:
        na.append({"property_id": pid, "reason": reasons.get(pid, reasons.get("_withdrawn", {}).get(pid, "not claimed yet: model/theorems not built (see DESIGN.md §5); never claimed at a level the machinery does not reach"))})
man = {
    "version": 1,
    "setup_cmd": "./check --setup",
    "hooks": {"guard": "UP_VERIF", "enable": "no hooks are needed: every check observes /repo through its public API in-process",
              "baseline_off_cmd": "cd /repo && /venv/bin/python -m pytest -ra -q -p no:cacheprovider --timeout=900 --continue-on-collection-errors",
              "source_commits": [], "add_only": True},
    "engines": [{"name": "lean4-proof+correspondence", "path": "lean/ + harness/",
                 "serves_properties": [c["property_id"] for c in checks],
                 "kind_free_text": "Lean 4 model + kernel-checked theorems (lean/UPVerif), tables regenerated from /repo by harness/translate.py, compiled line-protocol driver diffed against the real Python implementation by harness/run_check.py"}],
    "checks": checks,
    "notes": "See DESIGN.md. known_findings.json lists fixed defects (fix: commits in /repo) and open findings.",
    "not_applicable": na,
}
json.dump(man, open(os.path.join(VERIF, "MANIFEST.json"), "w"), indent=1)
print(f"{len(checks)} checks, {len(na)} not claimed")
