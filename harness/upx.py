"""Bridge between the wire format (lean/UPVerif/Core/ExprSexp.lean) and real unified_planning objects.

  Ctx      one fresh Environment + caches of the UP objects (types, fluents, functions, parameters,
           variables, objects) named in s-expressions, so `ctx.expr(sexp)` builds a real FNode and
           `enc_expr(fnode)` gives back the s-expression of a real FNode.
  ExprGen  seeded, typed random generator of expressions (s-expressions) over a small signature.

Everything here is harness (trusted base of the correspondence check).
"""
import warnings
from collections import OrderedDict
from fractions import Fraction

warnings.simplefilter("ignore")
import unified_planning as up
from unified_planning.environment import Environment
from unified_planning.model import Fluent, InterpretedFunction, Object, Parameter, Variable
from unified_planning.model.operators import OperatorKind as OK


# ----------------------------------------------------------------------------------------------
# rationals / values
# ----------------------------------------------------------------------------------------------

def q2s(q):
    q = Fraction(q)
    return str(q.numerator) if q.denominator == 1 else f"{q.numerator}/{q.denominator}"


def s2q(s):
    return Fraction(s)


def enc_ty(t):
    if t.is_bool_type():
        return "bool"
    if t.is_time_type():
        return "time"
    if t.is_int_type():
        return ["int", "_" if t.lower_bound is None else str(t.lower_bound), "_" if t.upper_bound is None else str(t.upper_bound)]
    if t.is_real_type():
        return ["real", "_" if t.lower_bound is None else q2s(t.lower_bound), "_" if t.upper_bound is None else q2s(t.upper_bound)]
    if t.is_user_type():
        return ["user", t.name]
    raise ValueError(f"type {t} not in the wire format")


OPS = {OK.AND: "and", OK.OR: "or", OK.NOT: "not", OK.IMPLIES: "implies", OK.IFF: "iff", OK.PLUS: "plus",
       OK.MINUS: "minus", OK.TIMES: "times", OK.DIV: "div", OK.LE: "le", OK.LT: "lt", OK.EQUALS: "eq",
       OK.ALWAYS: "always", OK.SOMETIME: "sometime", OK.SOMETIME_BEFORE: "sometime-before",
       OK.SOMETIME_AFTER: "sometime-after", OK.AT_MOST_ONCE: "at-most-once"}
OPS_INV = {v: k for k, v in OPS.items()}


def enc_expr(e, sort_vars=False):
    """real FNode -> s-expression.  sort_vars: quantifier variable lists come out of a Python set in
    Simplifier.walk_exists, so callers comparing syntactic outputs sort them."""
    t = e.node_type
    if t == OK.BOOL_CONSTANT:
        return ["b", "T" if e.bool_constant_value() else "F"]
    if t == OK.INT_CONSTANT:
        return ["i", str(e.int_constant_value())]
    if t == OK.REAL_CONSTANT:
        return ["r", q2s(e.real_constant_value())]
    if t == OK.OBJECT_EXP:
        return ["o", e.object().name, e.object().type.name]
    if t == OK.PARAM_EXP:
        return ["p", e.parameter().name, enc_ty(e.parameter().type)]
    if t == OK.VARIABLE_EXP:
        return ["v", e.variable().name, enc_ty(e.variable().type)]
    if t == OK.TIMING_EXP:
        return ["timing", str(e.timing())]
    if t == OK.PRESENT_EXP:
        return ["present", str(e)]
    if t == OK.DOT:
        return ["dot", e.agent(), enc_expr(e.arg(0), sort_vars)]
    if t == OK.FLUENT_EXP:
        f = e.fluent()
        return ["fl", [f.name, enc_ty(f.type), [enc_ty(p.type) for p in f.signature]]] + [enc_expr(a, sort_vars) for a in e.args]
    if t == OK.INTERPRETED_FUNCTION_EXP:
        g = e.interpreted_function()
        return ["ifun", [g.name, enc_ty(g.return_type), [enc_ty(p.type) for p in g.signature]]] + [enc_expr(a, sort_vars) for a in e.args]
    if t in (OK.EXISTS, OK.FORALL):
        vs = [[v.name, enc_ty(v.type)] for v in e.variables()]
        if sort_vars:
            vs = sorted(vs, key=lambda x: repr(x))
        return ["exists" if t == OK.EXISTS else "forall", vs, enc_expr(e.arg(0), sort_vars)]
    return [OPS[t]] + [enc_expr(a, sort_vars) for a in e.args]


def enc_val(c):
    """constant FNode -> value s-expression"""
    if c.is_bool_constant():
        return ["b", "T" if c.bool_constant_value() else "F"]
    if c.is_int_constant() or c.is_real_constant():
        return ["n", q2s(c.constant_value())]
    if c.is_object_exp():
        return ["o", c.object().name]
    raise ValueError(f"not a constant: {c}")


class Ctx:
    """One fresh environment plus the named things of a case."""

    def __init__(self, types=(), env=None):
        """types: iterable of (name, father_name_or_None) in declaration order (fathers first)."""
        self.env = env or Environment()
        self.env.error_used_name = False
        self.tm = self.env.type_manager
        self.em = self.env.expression_manager
        self.utypes, self.type_decl = {}, []
        for n, f in types:
            self.add_type(n, f)
        self.fluents, self.funs, self.params, self.vars, self.objs = {}, {}, {}, {}, {}
        self.fun_tables = {}

    # -- types -----------------------------------------------------------------------------
    def add_type(self, name, father=None):
        if name not in self.utypes:
            self.utypes[name] = self.tm.UserType(name, self.utypes[father] if father else None)
            self.type_decl.append((name, father))
        return self.utypes[name]

    def types_sexp(self):
        return ["types"] + [[n, f if f else "_"] for n, f in self.type_decl]

    def ty(self, s):
        if s == "bool":
            return self.tm.BoolType()
        if s == "time":
            raise ValueError("time type cannot be built directly")
        if s[0] == "int":
            return self.tm.IntType(None if s[1] == "_" else int(s[1]), None if s[2] == "_" else int(s[2]))
        if s[0] == "real":
            return self.tm.RealType(None if s[1] == "_" else s2q(s[1]), None if s[2] == "_" else s2q(s[2]))
        if s[0] == "user":
            return self.add_type(s[1])
        raise ValueError(f"bad type {s}")

    # -- named things ----------------------------------------------------------------------
    def _key(self, s):
        import sexp as _s
        return _s.dumps(s)

    def fluent(self, ref):
        k = self._key(ref)
        if k not in self.fluents:
            sig = OrderedDict((f"a{i}", self.ty(t)) for i, t in enumerate(ref[2]))
            self.fluents[k] = Fluent(ref[0], self.ty(ref[1]), sig, self.env)
        return self.fluents[k]

    def fun(self, ref):
        k = self._key(ref)
        if k not in self.funs:
            sig = OrderedDict((f"a{i}", self.ty(t)) for i, t in enumerate(ref[2]))
            name = ref[0]
            table = self.fun_tables.setdefault(name, {})

            def call(*args, _t=table, _n=name):
                key = tuple(a.name if isinstance(a, Object) else Fraction(a) if not isinstance(a, bool) else a for a in args)
                if key not in _t:
                    raise KeyError(f"interpreted function {_n} has no entry for {key}")
                return _t[key]
            self.funs[k] = InterpretedFunction(name, self.ty(ref[1]), sig, call, self.env)
        return self.funs[k]

    def param(self, name, ty_s):
        k = (name, self._key(ty_s))
        if k not in self.params:
            self.params[k] = Parameter(name, self.ty(ty_s), self.env)
        return self.params[k]

    def var(self, name, ty_s):
        k = (name, self._key(ty_s))
        if k not in self.vars:
            self.vars[k] = Variable(name, self.ty(ty_s), self.env)
        return self.vars[k]

    def obj(self, name, tyname):
        k = (name, tyname)
        if k not in self.objs:
            self.objs[k] = Object(name, self.add_type(tyname), self.env)
        return self.objs[k]

    # -- expressions -----------------------------------------------------------------------
    def expr(self, s):
        em = self.em
        h = s[0]
        if h == "b":
            return em.Bool(s[1] == "T")
        if h == "i":
            return em.Int(int(s[1]))
        if h == "r":
            return em.Real(s2q(s[1]))
        if h == "o":
            return em.ObjectExp(self.obj(s[1], s[2]))
        if h == "p":
            return em.ParameterExp(self.param(s[1], s[2]))
        if h == "v":
            return em.VariableExp(self.var(s[1], s[2]))
        if h == "fl":
            return em.FluentExp(self.fluent(s[1]), tuple(self.expr(a) for a in s[2:]))
        if h == "ifun":
            return em.InterpretedFunctionExp(self.fun(s[1]), tuple(self.expr(a) for a in s[2:]))
        if h == "dot":
            return em.Dot(s[1], self.expr(s[2]))
        if h in ("exists", "forall"):
            vs = [self.var(n, t) for n, t in s[1]]
            body = self.expr(s[2])
            return em.Exists(body, *vs) if h == "exists" else em.Forall(body, *vs)
        args = tuple(self.expr(a) for a in s[1:])
        # raw node creation: the manager's n-ary constructors collapse 0/1-argument lists, which is
        # itself behaviour under test elsewhere; here we want exactly the tree that was written
        kind = OPS_INV[h]
        if kind == OK.NOT:
            return em.create_node(OK.NOT, args) if len(args) == 1 else em.Not(*args)
        return em.create_node(kind, args)

    def val(self, s):
        """value s-expression -> constant FNode (objects need their type: looked up among known objects)"""
        if s[0] == "b":
            return self.em.Bool(s[1] == "T")
        if s[0] == "n":
            q = s2q(s[1])
            return self.em.Int(q.numerator) if q.denominator == 1 else self.em.Real(q)
        if s[0] == "o":
            for (n, t), o in self.objs.items():
                if n == s[1]:
                    return self.em.ObjectExp(o)
            raise KeyError(f"unknown object {s[1]}")
        raise ValueError(s)


# ----------------------------------------------------------------------------------------------
# typed random expression generator (s-expressions)
# ----------------------------------------------------------------------------------------------

BIG = [2 ** 53 + 1, -(2 ** 53) - 1, 10 ** 30, 3 * (2 ** 60 + 1), 10 ** 400]


class ExprGen:
    """Signature:
         user types T (root) > S (child), U (unrelated), E (no objects); objects t1,t2:T  s1,s2:S  u1:U
         bool fluents   b0, b1, b2 : bool;  bq(T) : bool;  bs(S): bool
         int fluents    x, y : int;  xb : int[0,10];  xq(T) : int[-5,5]
         real fluents   z : real;  zb : real[0, 7/2]
         object fluents at : T ; own(S) : T
         parameters     pb:bool pi:int[−5,−1] pj:int pr:real pt:T ps:S
         interpreted    g(int)->int, gb(int)->bool (tables supplied with the case when evaluated)
    """
    TYPES = [("T", None), ("S", "T"), ("U", None), ("E", None)]
    OBJECTS = [("t1", "T"), ("t2", "T"), ("s1", "S"), ("s2", "S"), ("u1", "U")]
    INT, REAL, BOOL = ["int", "_", "_"], ["real", "_", "_"], "bool"

    def __init__(self, rng, big=True, quantifiers=True, ifuns=False, params=True, temporal=False, static=(), repeats=False):
        """repeats (opt-in; the default draws exactly the stream it always drew): n-ary Plus/Times nodes get
        syntactically IDENTICAL arguments (2-5 copies, alone or mixed with other arguments in any position) and
        Minus/Div nodes identical operands — shapes independent draws practically never produce."""
        self.rng, self.big, self.quantifiers, self.ifuns, self.params = rng, big, quantifiers, ifuns, params
        self.repeats = repeats
        U = lambda n: ["user", n]
        self.bool_fl = [["b0", "bool", []], ["b1", "bool", []], ["b2", "bool", []],
                        ["bq", "bool", [U("T")]], ["bs", "bool", [U("S")]]]
        self.int_fl = [["x", self.INT, []], ["y", self.INT, []], ["xb", ["int", "0", "10"], []],
                       ["xq", ["int", "-5", "5"], [U("T")]]]
        self.real_fl = [["z", self.REAL, []], ["zb", ["real", "0", "7/2"], []]]
        self.obj_fl = [["at", U("T"), []], ["own", U("T"), [U("S")]]]
        self.fresh = 0

    # -- leaves --------------------------------------------------------------------------------
    def const_int(self):
        r = self.rng
        if self.big and r.random() < 0.12:
            return ["i", str(r.choice(BIG))]
        return ["i", str(r.choice([0, 0, 1, 1, -1, 2, 3, 5, -4, 7, 12]))]

    def const_real(self):
        r = self.rng
        if self.big and r.random() < 0.1:
            return ["r", q2s(Fraction(r.choice(BIG), r.choice([3, 7, 10 ** 20 + 1])))]
        return ["r", q2s(Fraction(r.choice([0, 1, -1, 2, 3, 5, 7, -9]), r.choice([1, 2, 3, 4, 10])))]

    def obj_of(self, tyname, scope):
        r = self.rng
        fathers = dict((n, f if f != "_" else None) for n, f in map(tuple, self.TYPES))

        def is_sub(t, u):
            while t is not None:
                if t == u:
                    return True
                t = fathers.get(t)
            return False
        opts = []
        for o, ot in map(tuple, self.OBJECTS):
            if is_sub(ot, tyname):
                opts.append(["o", o, ot])
        for (n, t) in scope:
            if t == ["user", tyname] or (tyname == "T" and t == ["user", "S"]):
                opts.append(["v", n, t])
        if self.params:
            if tyname == "T":
                opts += [["p", "pt", ["user", "T"]], ["p", "ps", ["user", "S"]]]
            if tyname == "S":
                opts.append(["p", "ps", ["user", "S"]])
        if tyname == "T" and r.random() < 0.3:
            opts.append(["fl", self.obj_fl[0]])
        return r.choice(opts) if opts else None

    def fl_app(self, ref, scope):
        args = []
        for t in ref[2]:
            a = self.obj_of(t[1], scope)
            if a is None:
                return None
            args.append(a)
        return ["fl", ref] + args

    # -- typed generation ----------------------------------------------------------------------
    def _dup(self, args):
        """(repeats) copy one argument over others / append further copies of it: up to 5 identical arguments,
        the remaining ones (if any) stay where they were."""
        r = self.rng
        i = r.randrange(len(args))
        js = [j for j in range(len(args)) if j != i and r.random() < 0.7] or [(i + 1) % len(args)]
        for j in js:
            args[j] = args[i]
        for _ in range(r.choice([0, 0, 1, 2, 3])):
            if len(args) < 6:
                args.insert(r.randrange(len(args) + 1), args[i])
        return args

    def num(self, depth, scope=(), real_ok=True):
        r = self.rng
        if depth <= 0 or r.random() < 0.25:
            k = r.random()
            if k < 0.35:
                return self.const_int()
            if k < 0.45 and real_ok:
                return self.const_real()
            if k < 0.8:
                return self.fl_app(r.choice(self.int_fl), scope) or self.const_int()
            if k < 0.9 and real_ok:
                return self.fl_app(r.choice(self.real_fl), scope)
            if self.params:
                return r.choice([["p", "pi", ["int", "-5", "-1"]], ["p", "pj", self.INT]] + ([["p", "pr", self.REAL]] if real_ok else []))
            return self.const_int()
        k = r.random()
        sub = lambda: self.num(depth - 1, scope, real_ok)
        if k < 0.35:
            n = r.choice([2, 2, 3, 4])
            args = [sub() for _ in range(n)]
            if r.random() < 0.3:   # nested same operator (flattening)
                args[r.randrange(n)] = ["plus", sub(), sub()]
            if self.repeats and r.random() < 0.3:
                args = self._dup(args)
            return ["plus"] + args
        if k < 0.55:
            if self.repeats and r.random() < 0.2:
                a = sub()
                return ["minus", a, a]
            return ["minus", sub(), sub()]
        if k < 0.85:
            n = r.choice([2, 2, 3])
            args = [sub() for _ in range(n)]
            if r.random() < 0.3:
                args[r.randrange(n)] = ["times", sub(), sub()]
            if self.repeats and r.random() < 0.3:
                args = self._dup(args)
            return ["times"] + args
        if k < 0.95 and real_ok:
            if self.repeats and r.random() < 0.15:
                a = sub()
                return ["div", a, a]
            d = self.const_int() if r.random() < 0.7 else self.const_real()
            if Fraction(d[1]) == 0:
                d = ["i", "3"]
            return ["div", sub(), d if r.random() < 0.8 else sub()]
        if self.ifuns:
            return ["ifun", ["g", self.INT, [self.INT]], self.num(depth - 1, scope, False)]
        return sub()

    def boolean(self, depth, scope=()):
        r = self.rng
        if depth <= 0 or r.random() < 0.2:
            k = r.random()
            if k < 0.08:
                return ["b", r.choice(["T", "F"])]
            if k < 0.85:
                return self.fl_app(r.choice(self.bool_fl), scope) or ["fl", self.bool_fl[0]]
            if self.params:
                return ["p", "pb", "bool"]
            return ["fl", self.bool_fl[1]]
        k = r.random()
        sub = lambda: self.boolean(depth - 1, scope)
        if k < 0.22:
            n = r.choice([2, 2, 3, 4])
            args = [sub() for _ in range(n)]
            j = r.random()
            if j < 0.2:
                args[r.randrange(n)] = ["and", sub(), sub()]
            elif j < 0.35:
                a = args[0]
                args[-1] = a if r.random() < 0.5 else ["not", a]   # duplicate / complementary literal
            return ["and"] + args
        if k < 0.44:
            n = r.choice([2, 2, 3, 4])
            args = [sub() for _ in range(n)]
            j = r.random()
            if j < 0.2:
                args[r.randrange(n)] = ["or", sub(), sub()]
            elif j < 0.35:
                a = args[0]
                args[-1] = a if r.random() < 0.5 else ["not", a]
            return ["or"] + args
        if k < 0.56:
            return ["not", sub()]
        if k < 0.63:
            return ["implies", sub(), sub()]
        if k < 0.70:
            a = sub()
            return ["iff", a, a if r.random() < 0.2 else sub()]
        if k < 0.86:
            op = r.choice(["le", "lt", "eq", "le", "lt"])
            a, b = self.num(depth - 1, scope), self.num(depth - 1, scope)
            if r.random() < 0.15:
                a, b = self.const_int(), self.const_int()   # constant-only atom
            return [op, a, b]
        if k < 0.92:
            ta = r.choice(["T", "S", "U"])
            tb = r.choice(["T", "S", "U"]) if r.random() < 0.4 else ta
            a, b = self.obj_of(ta, scope), self.obj_of(tb, scope)
            if a is None or b is None:
                return sub()
            return ["eq", a, b]
        if self.quantifiers and depth >= 1:
            q = r.choice(["exists", "forall"])
            self.fresh += 1
            tyn = r.choice(["T", "S", "S", "U", "E"] if (r.random() < 0.15 and getattr(self, "empty_type", True)) else ["T", "S", "S", "U"])
            v = (f"q{self.fresh}", ["user", tyn])
            vs = [list(v)]
            sc = tuple(scope) + (v,)
            if r.random() < 0.2:
                self.fresh += 1
                v2 = (f"q{self.fresh}", ["user", r.choice(["T", "S"])])
                vs.append(list(v2))
                sc = sc + (v2,)
            body = self.boolean(depth - 1, sc)
            if r.random() < 0.35:   # the x == t shape that walk_exists eliminates
                t = self.obj_of(tyn, scope)
                if t is not None:
                    eqn = ["eq", ["v", v[0], v[1]], t] if r.random() < 0.5 else ["eq", t, ["v", v[0], v[1]]]
                    body = ["and", eqn, body] if r.random() < 0.5 else ["and", body, eqn]
            return [q, vs, body]
        if self.ifuns:
            return ["ifun", ["gb", "bool", [self.INT]], self.num(depth - 1, scope, False)]
        return sub()


def free_names(s, acc=None):
    """fluent refs / params / vars / objects mentioned by an expression s-expression"""
    acc = acc if acc is not None else {"fl": [], "p": [], "v": [], "o": [], "ifun": []}
    if isinstance(s, list) and s:
        h = s[0]
        if h in ("fl", "ifun"):
            if s[1] not in acc[h]:
                acc[h].append(s[1])
            for a in s[2:]:
                free_names(a, acc)
        elif h in ("p", "v", "o"):
            if s not in acc[h]:
                acc[h].append(s)
        elif h in ("exists", "forall"):
            free_names(s[2], acc)
        elif h in ("b", "i", "r", "timing", "present"):
            pass
        else:
            for a in s[1:]:
                free_names(a, acc)
    return acc
