"""Independent reference evaluator on s-expressions with exact Fractions (the Python twin of
lean/UPVerif/Core/Den.lean; used by property oracles — never by the models).

  interp = {"fl": {(refkey, (vals...)): val}, "fn": {...}, "par": {name: val}, "dom": {tykey: [vals]}}
  values are ("b", bool) | ("n", Fraction) | ("o", name); undefined = None (strict).
"""
from fractions import Fraction
from itertools import product

import sexp


def key(s):
    return sexp.dumps(s)


def den(e, I, rho=None):
    rho = rho or {}
    h = e[0]
    if h == "b":
        return ("b", e[1] == "T")
    if h in ("i", "r"):
        return ("n", Fraction(e[1]))
    if h == "o":
        return ("o", e[1])
    if h == "p":
        return I["par"].get(e[1])
    if h == "v":
        return rho.get((e[1], key(e[2])))
    if h in ("timing", "present", "dot", "always", "sometime", "sometime-before", "sometime-after", "at-most-once"):
        return None
    if h in ("exists", "forall"):
        doms = [I["dom"].get(key(t), []) for _, t in e[1]]
        res = []
        for combo in product(*doms):
            r2 = dict(rho)
            # later bindings of the same variable shadow earlier ones (first match in the Lean VEnv)
            for (n, t), x in reversed(list(zip(e[1], combo))):
                r2[(n, key(t))] = x
            v = den(e[2], I, r2)
            if v is None or v[0] != "b":
                return None
            res.append(v[1])
        return ("b", any(res) if h == "exists" else all(res))
    if h in ("fl", "ifun"):
        vs = [den(a, I, rho) for a in e[2:]]
        if any(v is None for v in vs):
            return None
        return I["fl" if h == "fl" else "fn"].get((key(e[1]), tuple(vs)))
    vs = [den(a, I, rho) for a in e[1:]]
    if any(v is None for v in vs):
        return None
    kinds = [v[0] for v in vs]
    xs = [v[1] for v in vs]
    if h == "and":
        return ("b", all(xs)) if all(k == "b" for k in kinds) else None
    if h == "or":
        return ("b", any(xs)) if all(k == "b" for k in kinds) else None
    if h == "not":
        return ("b", not xs[0]) if kinds == ["b"] else None
    if h == "implies":
        return ("b", (not xs[0]) or xs[1]) if kinds == ["b", "b"] else None
    if h == "iff":
        return ("b", xs[0] == xs[1]) if kinds == ["b", "b"] else None
    if h == "plus":
        return ("n", sum(xs, Fraction(0))) if all(k == "n" for k in kinds) else None
    if h == "times":
        if not all(k == "n" for k in kinds):
            return None
        p = Fraction(1)
        for x in xs:
            p *= x
        return ("n", p)
    if h == "minus":
        return ("n", xs[0] - xs[1]) if kinds == ["n", "n"] else None
    if h == "div":
        if kinds != ["n", "n"] or xs[1] == 0:
            return None
        return ("n", xs[0] / xs[1])
    if h == "le":
        return ("b", xs[0] <= xs[1]) if kinds == ["n", "n"] else None
    if h == "lt":
        return ("b", xs[0] < xs[1]) if kinds == ["n", "n"] else None
    if h == "eq":
        if kinds == ["n", "n"] or kinds == ["o", "o"]:
            return ("b", xs[0] == xs[1])
        return None
    raise ValueError(f"unknown head {h}")


def val_sexp(v):
    if v is None:
        return "undef"
    if v[0] == "b":
        return ["b", "T" if v[1] else "F"]
    if v[0] == "n":
        q = v[1]
        return ["n", str(q.numerator) if q.denominator == 1 else f"{q.numerator}/{q.denominator}"]
    return ["o", v[1]]


def val_of_sexp(s):
    if s == "undef":
        return None
    if s[0] == "b":
        return ("b", s[1] == "T")
    if s[0] == "n":
        return ("n", Fraction(s[1]))
    return ("o", s[1])


def interp_sexp(I):
    """to the wire format understood by parseInterp"""
    fl = [[sexp.loads(k), [val_sexp(a) for a in args], val_sexp(v)] for (k, args), v in I["fl"].items()]
    fn = [[sexp.loads(k), [val_sexp(a) for a in args], val_sexp(v)] for (k, args), v in I["fn"].items()]
    par = [[n, val_sexp(v)] for n, v in I["par"].items()]
    dom = [[sexp.loads(k)] + [val_sexp(v) for v in vs] for k, vs in I["dom"].items()]
    return ["interp", ["fl"] + fl, ["fn"] + fn, ["par"] + par, ["dom"] + dom]


def random_interp(rng, names, objects_by_type, defined=1.0):
    """total (or `defined`-fraction) interpretation for the names mentioned by an expression
    (names = upx.free_names(expr)); objects_by_type: {"T": ["t1", ...]} including subtypes' objects."""
    from itertools import product as _p

    def rand_val(ty):
        if ty == "bool":
            return ("b", rng.random() < 0.5)
        if ty[0] == "int":
            lo = int(ty[1]) if ty[1] != "_" else -6
            hi = int(ty[2]) if ty[2] != "_" else 6
            return ("n", Fraction(rng.randint(lo, hi)))
        if ty[0] == "real":
            lo = Fraction(ty[1]) if ty[1] != "_" else Fraction(-6)
            hi = Fraction(ty[2]) if ty[2] != "_" else Fraction(6)
            return ("n", lo + (hi - lo) * Fraction(rng.randint(0, 12), 12))
        if ty[0] == "user":
            os_ = objects_by_type.get(ty[1], [])
            return ("o", rng.choice(os_)) if os_ else None
        return None

    def dom_of(ty):
        if ty == "bool":
            return [("b", False), ("b", True)]
        if ty[0] == "user":
            return [("o", o) for o in objects_by_type.get(ty[1], [])]
        if ty[0] == "int":
            lo = int(ty[1]) if ty[1] != "_" else -2
            hi = int(ty[2]) if ty[2] != "_" else 2
            return [("n", Fraction(i)) for i in range(lo, hi + 1)]
        return [("n", Fraction(0)), ("n", Fraction(1))]

    I = {"fl": {}, "fn": {}, "par": {}, "dom": {}}
    for kind, tab in (("fl", "fl"), ("ifun", "fn")):
        for ref in names[kind]:
            for args in _p(*[dom_of(t) for t in ref[2]]):
                if rng.random() <= defined:
                    v = rand_val(ref[1])
                    if v is not None:
                        I[tab][(key(ref), tuple(args))] = v
    for p in names["p"]:
        v = rand_val(p[2])
        if v is not None:
            I["par"][p[1]] = v
    for t, os_ in objects_by_type.items():
        I["dom"][key(["user", t])] = [("o", o) for o in os_]
    return I
