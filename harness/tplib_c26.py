"""Small temporal-problem builder used by harness/props/C26.py (and only by it).

Payload grammar (s-expressions as nested lists of str):

  (c26 (eps -|q) [(env G|F)]                     G (default): the global Environment; F: a fresh Environment
       (fl (name T|F|int)*)                       Boolean fluents (init T/F) and int fluents (init = the integer)
       (acts A*)
       (teff (t fl-effect)*)                      timed effects at GLOBAL_START + t          (t a rational >= 0)
       (tgoal (lo hi T|F T|F lit)*)               timed goals over GLOBAL_START + [lo, hi]   (flags: left-open, right-open)
       (goal lit*)
       (plan (start name dur|-)*))                the time-triggered plan, in list order
  A   ::= (i name (pre lit*) (eff E*))
        | (d name (dur lo hi T|F T|F) (cond (T1 T2 T|F T|F lit)*) (eff (T1 E)*))
  T1  ::= (S delay) | (E delay)                   StartTiming()+delay / EndTiming()+delay (delay a rational, may be < 0)
  lit ::= (fl T) | (fl F) | (fl ge k) | (fl le k)
  E   ::= (fl T) | (fl F) | (fl set k) | (fl inc k) | (fl dec k)

"""
import warnings
from fractions import Fraction as F

warnings.simplefilter("ignore")
import unified_planning as up
from unified_planning.environment import Environment
from unified_planning.model import (DurativeAction, Fluent, InstantaneousAction, Problem, Timing, Timepoint,
                                    TimepointKind, TimeInterval)
from unified_planning.model.timing import DurationInterval
from unified_planning.plans import ActionInstance, TimeTriggeredPlan
from unified_planning.shortcuts import BoolType, IntType

up.shortcuts.get_environment().credits_stream = None
up.shortcuts.get_environment().error_used_name = False


def q(s):
    return F(s)


def qs(v):
    v = F(v)
    return str(v.numerator) if v.denominator == 1 else f"{v.numerator}/{v.denominator}"


def sec(p, key):
    for s in p[1:]:
        if isinstance(s, list) and s and s[0] == key:
            return s[1:]
    raise KeyError(key)


def with_sec(p, key, items):
    return [p[0]] + [([key] + list(items)) if (isinstance(s, list) and s and s[0] == key) else s for s in p[1:]]


def timing(t, glob=False):
    k, d = t
    if glob:
        kind = TimepointKind.GLOBAL_START if k == "S" else TimepointKind.GLOBAL_END
    else:
        kind = TimepointKind.START if k == "S" else TimepointKind.END
    d = q(d)
    return Timing(d.numerator if d.denominator == 1 else d, Timepoint(kind))


class Built:
    pass


def fresh_env(p):
    try:
        return sec(p, "env")[0] == "F"
    except KeyError:
        return False


def build(p):
    if fresh_env(p):
        env = Environment()               # a problem of its own Environment (optional section `(env F)`)
        env.credits_stream = None
        env.error_used_name = False
    else:
        env = up.shortcuts.get_environment()
    em = env.expression_manager
    B = Built()
    P = Problem("c26", env)
    eps = sec(p, "eps")[0]
    if eps != "-":
        P.epsilon = q(eps)
    fl = {}
    for name, init in sec(p, "fl"):
        if init in ("T", "F"):
            f = Fluent(name, env.type_manager.BoolType(), environment=env)
            P.add_fluent(f, default_initial_value=(init == "T"))
        else:
            f = Fluent(name, env.type_manager.IntType(), environment=env)
            P.add_fluent(f, default_initial_value=int(init))
        fl[name] = f

    def lit(l):
        f = fl[l[0]]()
        if l[1] == "T":
            return f
        if l[1] == "F":
            return em.Not(f)
        if l[1] == "ge":
            return em.GE(f, int(l[2]))
        if l[1] == "le":
            return em.LE(f, int(l[2]))
        raise ValueError(l)

    def add_eff(adder, e, *pre):
        f = fl[e[0]]()
        if e[1] in ("T", "F"):
            adder.add_effect(*pre, f, e[1] == "T")
        elif e[1] == "set":
            adder.add_effect(*pre, f, int(e[2]))
        elif e[1] == "inc":
            adder.add_increase_effect(*pre, f, int(e[2]))
        elif e[1] == "dec":
            adder.add_decrease_effect(*pre, f, int(e[2]))
        else:
            raise ValueError(e)

    acts = {}
    for a in sec(p, "acts"):
        if a[0] == "i":
            A = InstantaneousAction(a[1], _env=env)
            for l in sec(a[1:], "pre"):
                A.add_precondition(lit(l))
            for e in sec(a[1:], "eff"):
                add_eff(A, e)
        else:
            A = DurativeAction(a[1], _env=env)
            lo, hi, lop, rop = sec(a[1:], "dur")
            lo, hi = q(lo), q(hi)
            A.set_duration_constraint(DurationInterval(em.Real(lo) if lo.denominator != 1 else em.Int(lo.numerator),
                                                       em.Real(hi) if hi.denominator != 1 else em.Int(hi.numerator),
                                                       lop == "T", rop == "T"))
            for c in sec(a[1:], "cond"):
                t1, t2, lop, rop, l = c
                A.add_condition(TimeInterval(timing(t1), timing(t2), lop == "T", rop == "T"), lit(l))
            for t, e in sec(a[1:], "eff"):
                add_eff(A, e, timing(t))
        P.add_action(A)
        acts[a[1]] = A
    for t, e in sec(p, "teff"):
        add_eff(_TimedAdder(P), e, timing(["S", t], glob=True))
    for lo, hi, lop, rop, l in sec(p, "tgoal"):
        P.add_timed_goal(TimeInterval(timing(["S", lo], glob=True), timing(["S", hi], glob=True), lop == "T", rop == "T"),
                         lit(l))
    for l in sec(p, "goal"):
        P.add_goal(lit(l))
    entries = []
    for st, name, du in sec(p, "plan"):
        entries.append((q(st), ActionInstance(acts[name]), None if du == "-" else q(du)))
    B.problem, B.actions, B.fluents = P, acts, fl
    B.plan = TimeTriggeredPlan(entries, env)
    B.entries = entries
    return B


class _TimedAdder:
    def __init__(self, P):
        self.P = P

    def add_effect(self, t, f, v):
        self.P.add_timed_effect(t, f, v)

    def add_increase_effect(self, t, f, v):
        self.P.add_increase_effect(t, f, v)

    def add_decrease_effect(self, t, f, v):
        self.P.add_decrease_effect(t, f, v)
