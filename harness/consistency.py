#!/venv/bin/python
"""Developer-side consistency check of the committed records (not a property check; never prints VIOLATION).

 * MANIFEST.json is what harness/mk_manifest.py generates now (a stale generated file is the C21 record problem of §9.13);
 * every claimed property has an evidence file that validates against the schema, carries the level the manifest claims,
   has discharged == obligations for a proof-level claim, no violation and no correspondence disagreement that a listed
   finding does not explain (a file like that comes from a mutated or alarmed run and must not be committed).

exit 0 = consistent, 1 = something to regenerate / re-run (listed on stdout).
"""
import json, os, subprocess, sys

HERE = os.path.dirname(os.path.abspath(__file__))
VERIF = os.path.dirname(HERE)
SCHEMA = "/root/.vp/EVIDENCE.schema.json"


def main():
    bad = []
    mpath = os.path.join(VERIF, "MANIFEST.json")
    before = open(mpath).read()
    subprocess.run(["/venv/bin/python", os.path.join(HERE, "mk_manifest.py")], stdout=subprocess.DEVNULL,
                   stderr=subprocess.DEVNULL, check=True)
    if open(mpath).read() != before:
        bad.append("MANIFEST.json was stale: regenerated now, commit it")
    man = json.load(open(mpath))
    validator = None
    if os.path.exists(SCHEMA):
        try:
            import jsonschema
            validator = jsonschema.Draft202012Validator(json.load(open(SCHEMA)))
        except Exception as e:  # noqa: BLE001
            print(f"note: schema validation skipped ({e!r})")
    for c in man["checks"]:
        pid = c["property_id"]
        p = os.path.join(VERIF, c["evidence_file"])
        if not os.path.exists(p):
            bad.append(f"{pid}: no evidence file")
            continue
        ev = json.load(open(p))
        if validator is not None:
            for e in list(validator.iter_errors(ev))[:3]:
                bad.append(f"{pid}: evidence does not validate: {e.message[:160]}")
        if ev.get("level") != c["level_claimed"]["category"]:
            bad.append(f"{pid}: evidence level {ev.get('level')!r} != manifest {c['level_claimed']['category']!r}")
        cov = ev.get("coverage", {})
        if ev.get("level") == "proof" and cov.get("obligations") != cov.get("discharged"):
            bad.append(f"{pid}: discharged {cov.get('discharged')} != obligations {cov.get('obligations')} "
                       f"(seed {ev.get('seed')}, tier {ev.get('tier')}): the file comes from an alarmed run")
        if ev.get("violations"):
            bad.append(f"{pid}: evidence records {ev['violations']} violation(s) (seed {ev.get('seed')})")
        corr = cov.get("correspondence", {})
        if corr.get("disagreements", 0) != corr.get("disagreements_explained_by_listed_findings", 0):
            bad.append(f"{pid}: {corr.get('disagreements')} correspondence disagreement(s) not explained by listed findings")
        if cov.get("broken"):
            names = [b.get("name") for b in cov["broken"]]
            if corr.get("disagreements", 0) == 0 or any(not str(n).startswith("corr:") for n in names):
                bad.append(f"{pid}: broken obligations recorded: {names}")
    for b in bad:
        print("INCONSISTENT", b)
    print(f"consistency: {len(man['checks'])} checks, {len(bad)} problem(s)")
    return 1 if bad else 0


if __name__ == "__main__":
    sys.exit(main())
