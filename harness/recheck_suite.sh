#!/bin/bash
# usage: harness/recheck_suite.sh Cxx-n ...  -> re-runs the pinned suite with the seeded change applied in a scratch worktree (for collections made under load)
for S in "$@"; do
  WT=/tmp/recheck-$S; D=/verif/seeded/$S
  git -C /repo worktree add -q --detach $WT HEAD && git -C $WT apply $D/patch.diff || { echo "$S: cannot apply"; continue; }
  SUITE=$(/verif/harness/run_suite.sh $WT 2>&1 | grep -E "^baseline|MISSING" | head -5 | tr '\n' ';')
  echo "$S: $SUITE"
  /venv/bin/python - "$D/meta.json" "$SUITE" <<'PY'
import json, sys
p, s = sys.argv[1:3]
m = json.load(open(p)); m.setdefault("confirmed", {})["pinned_suite_with_change_recheck"] = s; m["confirmed"].pop("note", None)
json.dump(m, open(p, "w"), indent=1)
PY
  git -C /repo worktree remove --force $WT
done
