"""Case generation aimed at NegativeConditionsRemover (properties C06 / C07; model Core/Compile/NCR.lean).

  gen_ncr_case(rng, depth)  -> payload ["case", "ncr", depth, problem] or None

A problem of complib.gen_case(rng, "ncr", depth) with one to three of the shapes the compiler cases on injected into
a precondition, an effect condition, the goals or a trajectory constraint:

  * not (l == r) over user types: constant on the left / on the right, of a SUBTYPE of the other side's type; two
    fluent applications of different types; a quantified variable against a fluent; over the one-object type U;
  * not (l == r), not (l <= r), not (l < r) over numbers;
  * negation that NNF has to push inwards (iff, implies, negated conjunction / disjunction);
  * negated literals under a quantifier (rewritten), negated compound formulas under a quantifier and negated
    quantifiers (the walker raises UPExpressionDefinitionError: the model must say so);
  * effects that write a negated fluent: fluent-valued and negated Boolean values, forall effects, delete + add;
  * fluents that already carry the names the compiler wants for its complementary fluents (not_b0, not_b0_0);
  * quality metrics: oversubscription goals with such shapes, action costs (explicit and default), plan length.

Harness code (trusted base of the correspondence check).  All randomness from the rng given.
"""
import warnings

warnings.simplefilter("ignore")

import complib
import upp

U = lambda n: ["user", n]
FL = {
    "b0": ["b0", "bool", []], "b1": ["b1", "bool", []], "bq": ["bq", "bool", [U("T")]],
    "x": ["x", ["int", "_", "_"], []], "xb": ["xb", ["int", "0", "4"], []],
    "at": ["at", U("T"), []], "own": ["own", U("T"), [U("S")]],
}
OBJ = {"t1": "T", "s1": "S", "s2": "S", "u1": "U"}


def o(n):
    return ["o", n, OBJ[n]]


def fl(n, *args):
    return ["fl", FL[n]] + list(args)


def shapes(rng, params):
    """candidate Boolean expressions (closed but for the action parameters `params`)"""
    r = rng
    k = ["k", U(r.choice(["T", "S"]))]
    kv = ["v", k[0], k[1]]
    ku = ["k", U("U")]
    b = lambda: r.choice([fl("b0"), fl("b1"), fl("bq", o(r.choice(["t1", "s1", "s2"])))])
    out = [
        ["not", ["eq", o("s1"), fl("at")]],
        ["not", ["eq", fl("at"), o(r.choice(["s1", "t1"]))]],
        ["not", ["eq", fl("at"), fl("own", o("s2"))]],
        ["not", ["eq", fl("own", o("s1")), fl("at")]],
        ["not", ["eq", fl("own", o("s1")), fl("own", o("s2"))]],
        ["not", ["eq", fl("x"), ["i", str(r.choice([0, 1, 2]))]]],
        ["not", ["eq", fl("x"), fl("xb")]],
        ["not", ["le", fl("x"), fl("xb")]],
        ["not", ["lt", ["i", "2"], fl("x")]],
        ["iff", b(), ["not", b()]],
        ["implies", b(), b()],
        ["not", ["and", b(), ["or", b(), ["not", b()]]]],
        ["not", ["or", b(), ["not", ["eq", fl("at"), o("s2")]]]],
        ["not", ["implies", b(), ["lt", fl("x"), ["i", "3"]]]],
        ["not", ["exists", [k], fl("bq", kv)]],
        ["forall", [k], ["not", fl("bq", kv)]],
        ["exists", [k], ["and", ["not", fl("bq", kv)], b()]],
        ["exists", [k], ["not", ["and", fl("bq", kv), b()]]],
        ["exists", [["k", U("T")]], ["not", ["eq", ["v", "k", U("T")], fl("at")]]],
        ["forall", [["k", U("S")]], ["not", ["eq", fl("at"), ["v", "k", U("S")]]]],
        ["exists", [ku], ["not", ["eq", ["v", "k", U("U")], o("u1")]]],
        ["not", b()],
        ["and", ["not", b()], ["not", fl("bq", o("s1"))]],
    ]
    for pn, pt in params:
        if pt in (U("T"), U("S")):
            out.append(["not", ["eq", ["p", pn, pt], fl("at")]])
            out.append(["not", ["eq", fl("own", o("s1")), ["p", pn, pt]]])
            out.append(["not", fl("bq", ["p", pn, pt])])
            out.append(["not", ["eq", ["p", pn, pt], o("s2")]])
    return out


def writers(rng, params):
    """effects that write Boolean fluents (which the injected conditions negate)"""
    r = rng
    k = ["w", U(r.choice(["T", "S"]))]
    kv = ["v", "w", k[1]]
    T = ["b", "T"]
    out = [
        ["eff", "assign", fl("b0"), fl("b1"), T, []],
        ["eff", "assign", fl("b1"), ["not", fl("b0")], T, []],
        ["eff", "assign", fl("b0"), ["and", fl("b1"), ["not", fl("bq", o("s1"))]], T, []],
        ["eff", "assign", fl("bq", kv), ["b", r.choice("TF")], T, [k]],
        ["eff", "assign", fl("bq", kv), ["b", r.choice("TF")], ["not", fl("bq", kv)], [k]],
        ["eff", "assign", fl("bq", kv), fl("b0"), r.choice([T, ["not", fl("b1")]]), [k]],
        ["eff", "assign", fl("bq", o("s1")), ["b", "T"], ["not", fl("b0")], []],
        ["eff", "assign", fl("b1"), ["b", "F"], ["not", ["eq", fl("at"), o("s1")]], []],
    ]
    for pn, pt in params:
        if pt in (U("T"), U("S")):
            out.append(["eff", "assign", fl("bq", ["p", pn, pt]), ["b", r.choice("TF")], T, []])
    return out


def gen_ncr_case(rng, depth):
    base = None
    for _ in range(50):
        base = complib.gen_case(rng, "ncr", depth)
        if base is not None:
            break
    if base is None:
        return None
    ps = [list(s) if isinstance(s, list) else s for s in base[3]]
    idx = {s[0]: i for i, s in enumerate(ps) if isinstance(s, list) and s}
    acts = [list(a) for a in ps[idx["actions"]][1:]]
    r = rng
    if not acts:
        return None
    for _ in range(r.choice([1, 2, 2, 3])):
        j = r.randrange(len(acts))
        a = acts[j]
        params = a[2]
        sh = r.choice(shapes(r, params))
        where = r.random()
        if where < 0.4:
            a = ["action", a[1], a[2], list(a[3]) + [sh], a[4]]
        elif where < 0.7:
            effs = [list(e) for e in a[4][1:]]
            if effs and r.random() < 0.6:
                i = r.randrange(len(effs))
                if not effs[i][5]:
                    effs[i][4] = sh
            else:
                w = r.choice(writers(r, params))
                effs.append(w)
            a = ["action", a[1], a[2], a[3], ["effs"] + effs[:6]]
        elif where < 0.85:
            closed = r.choice(shapes(r, []))
            ps[idx["goals"]] = list(ps[idx["goals"]]) + [closed]
        else:
            closed = r.choice(shapes(r, []))
            ps[idx["traj"]] = list(ps[idx["traj"]]) + [[r.choice(["always", "sometime", "at-most-once"]), closed]]
        if r.random() < 0.4:
            effs = [list(e) for e in a[4][1:]]
            effs.append(r.choice(writers(r, a[2])))
            a = ["action", a[1], a[2], a[3], ["effs"] + effs[:6]]
        acts[j] = a
    ps[idx["actions"]] = ["actions"] + acts
    if r.random() < 0.25:
        # the names the compiler wants are taken
        extra = [[["not_b0", "bool", []], ["b", "F"]]]
        if r.random() < 0.5:
            extra.append([["not_b0_0", "bool", []], ["b", "T"]])
        if r.random() < 0.5:
            extra.append([["not_bq", ["int", "_", "_"], []], ["i", "0"]])
        ps[idx["fluents"]] = list(ps[idx["fluents"]]) + extra
    if r.random() < 0.35:
        # quality metrics: the goals of an oversubscription metric go through the walker (and can be the only place where
        # a fluent is negated), the action costs must survive the compilation
        k = r.random()
        if k < 0.5:
            gs = [[r.choice(shapes(r, [])), r.choice(["1", "2", "5/2"])] for _ in range(r.choice([1, 2, 3]))]
            ms = [["oversub", gs]]
        elif k < 0.9:
            names = [a[1] for a in acts]
            listed = [n for n in names if r.random() < 0.6]
            ms = [["min-action-costs", [[n, ["i", str(r.choice([0, 1, 3]))]] for n in listed],
                   ["i", "1"] if len(listed) < len(names) or r.random() < 0.5 else "_"]]
        else:
            ms = [["min-length"]]
        ps[idx["metrics"]] = ["metrics"] + ms
    try:
        P, _ = upp.build_problem(ps)
        if not complib.supports("ncr", P):
            return None
        canon = upp.enc_problem(P)
        P2, _ = upp.build_problem(canon)
        if upp.enc_problem(P2) != canon:
            return None
    except Exception:
        return None
    return ["case", "ncr", str(depth), canon]
