"""S-expressions for the line protocol.  Python side: nested lists of str (atoms) / list."""


def _needs_quote(s):
    return s == "" or any(c in '()"\\' or c.isspace() for c in s)


def dumps(e):
    if isinstance(e, bool):
        return "T" if e else "F"
    if isinstance(e, int):
        return str(e)
    if isinstance(e, str):
        if _needs_quote(e):
            return '"' + e.replace("\\", "\\\\").replace('"', '\\"') + '"'
        return e
    if isinstance(e, (list, tuple)):
        return "(" + " ".join(dumps(x) for x in e) + ")"
    raise TypeError(f"cannot serialise {e!r}")


def loads(s):
    toks = []
    i, n = 0, len(s)
    while i < n:
        c = s[i]
        if c in "()":
            toks.append(c)
            i += 1
        elif c.isspace():
            i += 1
        elif c == '"':
            i += 1
            buf = []
            while i < n and s[i] != '"':
                if s[i] == "\\" and i + 1 < n:
                    buf.append(s[i + 1])
                    i += 2
                else:
                    buf.append(s[i])
                    i += 1
            if i >= n:
                raise ValueError("unterminated string")
            i += 1
            toks.append(("a", "".join(buf)))
        else:
            j = i
            while j < n and s[j] not in "()" and not s[j].isspace():
                j += 1
            toks.append(("a", s[i:j]))
            i = j
    pos = 0

    def parse():
        nonlocal pos
        if pos >= len(toks):
            raise ValueError("unexpected end")
        t = toks[pos]
        pos += 1
        if t == "(":
            out = []
            while pos < len(toks) and toks[pos] != ")":
                out.append(parse())
            if pos >= len(toks):
                raise ValueError("missing )")
            pos += 1
            return out
        if t == ")":
            raise ValueError("unexpected )")
        return t[1]

    e = parse()
    if pos != len(toks):
        raise ValueError("trailing tokens")
    return e


def B(b):
    return "T" if b else "F"
