import UPVerif.Core.Sexp
import UPVerif.Core.Kind
import UPVerif.Gen.Features
import UPVerif.Lemmas.KindLemmas
import UPVerif.Props.C33
import UPVerif.Drv.C33
