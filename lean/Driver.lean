import UPVerif.Core.Sexp
import UPVerif.Drv.C33
import UPVerif.Drv.Den
import UPVerif.Drv.C06
import UPVerif.Drv.C09
import UPVerif.Drv.C05
import UPVerif.Drv.C04
import UPVerif.Drv.C27
import UPVerif.Drv.C37
import UPVerif.Drv.C19
import UPVerif.Drv.C03
import UPVerif.Drv.C21
import UPVerif.Drv.C18
import UPVerif.Drv.C35
import UPVerif.Drv.C17
import UPVerif.Drv.C02
import UPVerif.Drv.C01
import UPVerif.Drv.C26
import UPVerif.Drv.C08
import UPVerif.Drv.C31
import UPVerif.Drv.C11
import UPVerif.Drv.C23
import UPVerif.Drv.C22
import UPVerif.Drv.C30
import UPVerif.Drv.C10
import UPVerif.Drv.C10Ext
import UPVerif.Drv.C28
import UPVerif.Drv.C20
import UPVerif.Drv.C15
import UPVerif.Drv.C14
import UPVerif.Drv.C13
import UPVerif.Drv.C25
import UPVerif.Drv.C34
import UPVerif.Drv.C16
import UPVerif.Drv.C12
import UPVerif.Drv.C24
import UPVerif.Drv.C32
import UPVerif.Drv.C36
import UPVerif.Drv.C38
import UPVerif.Drv.C29
/-!
Line-protocol driver.  One case per input line `(<Prop> <n> <payload>)`, one answer per output line
`(<n> <answer>)`.  Never defaults: anything unparsable is answered `bad-case`.
-/
open UPVerif

def handlers : List (String × (Sexp → Sexp)) := [
  ("C33", Drv.C33.handle),
  ("C12", Drv.C12.handle),
  ("C24", Drv.C24.handle),
  ("C32", Drv.C32.handle),
  ("C36", Drv.C36.handle),
  ("C38", Drv.C38.handle),
  ("C29", Drv.C29.handle),
  ("C16", Drv.C16.handle),
  ("C34", Drv.C34.handle),
  ("C25", Drv.C25.handle),
  ("C13", Drv.C13.handle),
  ("C14", Drv.C14.handle),
  ("C15", Drv.C15.handle),
  ("C20", Drv.C20.handle),
  ("C28", Drv.C28.handle),
  ("C10", Drv.C10Ext.handle),
  ("C30", Drv.C30.handle),
  ("C22", Drv.C22.handle),
  ("C23", Drv.C23.handle),
  ("C11", Drv.C11.handle),
  ("C31", Drv.C31.handle),
  ("C08", Drv.C08.handle),
  ("C26", Drv.C26.handle),
  ("C01", Drv.C01.handle),
  ("C02", Drv.C02.handle),
  ("C17", Drv.C17.handle),
  ("C35", Drv.C35.handle),
  ("C18", Drv.C18.handle),
  ("C21", Drv.C21.handle),
  ("C03", Drv.C03.handle),
  ("C19", Drv.C19.handle),
  ("C37", Drv.C37.handle),
  ("C27", Drv.C27.handle),
  ("C04", Drv.C04.handle),
  ("C05", Drv.C05.handle),
  ("C09", Drv.C09.handle),
  ("C06", Drv.C06.handle),
  ("C07", Drv.C06.handle),
  ("ECHO", Drv.Den.handleEcho),
  ("DEN", Drv.Den.handleDen)
]

def answer (line : String) : String :=
  match Sexp.parse line with
  | some (.list [.atom p, n, payload]) =>
    match handlers.lookup p with
    | some h => toString (Sexp.list [n, h payload])
    | none => toString (Sexp.list [n, .atom "bad-case"])
  | _ => "(? bad-case)"

partial def loop (h : IO.FS.Stream) (out : IO.FS.Stream) : IO Unit := do
  let line ← h.getLine
  if line.isEmpty then return ()
  let l := line.trimAscii.toString
  if !l.isEmpty then
    out.putStrLn (answer l)
  loop h out

def main : IO Unit := do
  let out ← IO.getStdout
  loop (← IO.getStdin) out
  out.flush
