import UPVerif.Core.Sexp
import UPVerif.Drv.C33
import UPVerif.Drv.Den
/-!
Line-protocol driver.  One case per input line `(<Prop> <n> <payload>)`, one answer per output line
`(<n> <answer>)`.  Never defaults: anything unparsable is answered `bad-case`.
-/
open UPVerif

def handlers : List (String × (Sexp → Sexp)) := [
  ("C33", Drv.C33.handle),
  ("ECHO", Drv.Den.handleEcho),
  ("DEN", Drv.Den.handleDen)
]

def answer (line : String) : String :=
  match Sexp.parse line with
  | some (.list [.atom p, n, payload]) =>
    match handlers.lookup p with
    | some h => toString (Sexp.list [n, h payload])
    | none => toString (Sexp.list [n, .atom "bad-case"])
  | _ => "(? bad-case)"

partial def loop (h : IO.FS.Stream) (out : IO.FS.Stream) : IO Unit := do
  let line ← h.getLine
  if line.isEmpty then return ()
  let l := line.trimAscii.toString
  if !l.isEmpty then
    out.putStrLn (answer l)
  loop h out

def main : IO Unit := do
  let out ← IO.getStdout
  loop (← IO.getStdin) out
  out.flush
