import UPVerif.Core.Sexp
import UPVerif.Core.KindProg
import UPVerif.Gen.Features
import UPVerif.Gen.Kinds
/-! line-protocol handler for C09: runs the model of the compilers' kind declarations and of the
factory's pipeline chaining on one case -/
namespace UPVerif.Drv.C09
open UPVerif UPVerif.Kind UPVerif.KindProg

def T := UPVerif.Gen.tables

def parseKind : Sexp → Option Kind
  | .list [.atom "k", fs, v] => do
    let feats ← fs.asStrs?
    let ver ← (match v with
      | .atom "none" => some none
      | e => e.asNat?.map some)
    some { feats := feats, version := ver }
  | _ => none

def sortStrs (l : List String) : List String := (l.toArray.qsort (· < ·)).toList
def dedupS (l : List String) : List String := l.foldl (fun acc x => if acc.contains x then acc else acc ++ [x]) []

def kindOut (k : Kind) : Sexp :=
  .list [.atom "k", Sexp.ofStrs (sortStrs (dedupS k.feats)),
         match k.version with | some v => Sexp.ofNat v | none => .atom "none"]

def findDecl (name : String) : Option Decl := Gen.Kinds.decls.find? (fun d => d.name == name)

/-- the features of `a` (valid at the common version) that `b` lacks: what makes `a <= b` fail -/
def offending (a b : Kind) : List Feature :=
  let (fa, fb, v) := equalize T a.feats b.feats (a.ver T) (b.ver T)
  setDiff (validPart T v fa) (validPart T v fb)

/-- the registered compilers in preference order, restricted to the engines the real factory has -/
def prefOf (avail : List String) : List (String × Decl) :=
  Gen.Kinds.preference.filter (fun e => avail.contains e.1)

def chainOut : Outcome → Sexp
  | .ok st fin => Sexp.tag "ok" [Sexp.ofStrs (st.map (·.1)), .list (st.map (fun s => kindOut s.2.2)), kindOut fin]
  | .noSuitable => .atom "no-engine"
  | .assertion => .atom "assert"

/-- per stage: does the stage's compiler support the ACTUAL kind it receives; is the ACTUAL kind it
    produces within the kind DECLARED for its output -/
def pipeRows : List (String × Decl × Kind) → Kind → List Kind → Kind → Option (List Sexp)
  | [], _, _, _ => some []
  | (n, d, _) :: _, a, [], _ =>               -- the real pipeline produced nothing at this stage
    (d.supportsKind T a).map (fun acc => [Sexp.tag n [Sexp.ofBool acc]])
  | (n, d, dk) :: rest, a, a' :: as, fin =>
    match d.supportsKind T a, d.resultingKind T dk with
    | some acc, some dnext =>
      let row := Sexp.tag n [Sexp.ofBool acc, Sexp.ofStrs (sortStrs (dedupS (offending a' dnext)))]
      (pipeRows rest a' as fin).map (row :: ·)
    | _, _ => none

/-- one compiler on one real problem -/
def probRow (kp : Kind) : Sexp → Sexp
  | .list [.atom cls, .atom ck, ekq] =>
    let res : Sexp :=
      match findDecl cls with
      | none => .atom "bad-case"
      | some d =>
        if !(d.cks.contains ck) then .atom "unsupported-compilation"
        else match d.supportsKind T kp with
          | none => .atom "assert"
          | some false => .atom "unsupported"
          | some true =>
            match ekq with
            | .atom "compile-error" => .atom "compile-error"
            | _ =>
              match parseKind ekq, d.resultingKind T kp with
              | some kq, some dk =>
                .list [Sexp.tag "declared" [kindOut dk],
                       Sexp.tag "extra" [Sexp.ofStrs (sortStrs (dedupS (offending kq dk)))]]
              | none, _ => .atom "bad-case"
              | _, none => .atom "assert"
    .list [.atom cls, .atom ck, res]
  | _ => .atom "bad-case"

def handle : Sexp → Sexp
  | .list [.atom "rk", .atom cls, ek] =>
    match findDecl cls, parseKind ek with
    | some d, some k =>
      if !(k.wf T) then .atom "reject"
      else match d.resultingKind T k with
        | some r => kindOut r
        | none => .atom "assert"
    | _, _ => .atom "bad-case"
  -- `utils._kind_at_latest_version(k)` alone
  | .list [.atom "up", ek] =>
    match parseKind ek with
    | some k =>
      if !(k.wf T) then .atom "reject"
      else match kindAtLatest T k with
        | some r => kindOut r
        | none => .atom "assert"
    | none => .atom "bad-case"
  | .list [.atom "sk", .atom cls] =>
    match findDecl cls with
    | some d =>
      match d.supportedKind T with
      | some k => .list [kindOut k, Sexp.ofStrs d.cks]
      | none => .atom "assert"
    | none => .atom "bad-case"
  | .list [.atom "chain", ek, ecks, eav] =>
    match parseKind ek, ecks.asStrs?, eav.asStrs? with
    | some k, some cks, some av =>
      if !(k.wf T) then .atom "reject" else chainOut (chain T (prefOf av) k cks)
    | _, _, _ => .atom "bad-case"
  -- every applicable compiler on one real problem: observed kinds of the problem and of the compiled problems
  | .list [.atom "probsk", ekp, .list rows] =>
    match parseKind ekp with
    | some kp => .list (rows.map (probRow kp))
    | none => .atom "bad-case"
  | .list [.atom "problem-error", e] => .list [.atom "problem-error", e]
  -- a factory pipeline on one real problem: observed kinds of the problems flowing through it
  | .list [.atom "pipek", ecks, eav, .list eks] =>
    match ecks.asStrs?, eav.asStrs?, eks.mapM parseKind with
    | some cks, some av, some (k0 :: ks) =>
      match chain T (prefOf av) k0 cks with
      | .ok st fin =>
        match pipeRows st k0 ks fin with
        | some rows => Sexp.tag "ok" [Sexp.ofStrs (st.map (·.1)), .list rows]
        | none => .atom "assert"
      | o => chainOut o
    | _, _, _ => .atom "bad-case"
  | .atom "skip" => .atom "skip"
  | _ => .atom "bad-case"

end UPVerif.Drv.C09
