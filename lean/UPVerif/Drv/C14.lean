import UPVerif.Core.Sexp
import UPVerif.Core.ExprSexp
import UPVerif.Core.DagWalker
/-!
Line-protocol handler for C14: replays one HISTORY of calls on the model of one environment's shared
walkers (`Dag.Env`: Substituter, FreeVarsOracle, FreeVarsExtractor) plus two probe walkers, and
prints, per call, the answer and the walker's observable state (stack length, cache size).

  case   ::= (hist (reject expr*) (keep salt (expr*)) (calls call*))
  call   ::= (subst expr ((key value T|F)*))     -- pair flag = outcome of the compatibility test
           | (fv expr) | (fl expr)
           | (pinv salt (bad*) expr)              -- probe walker with a one-time cache
           | (pkeep expr)                         -- probe walker that keeps its cache
           | (other …)                            -- a call the model does not follow (oracle only)
  answer ::= ((<result> (st <stack> <cache>))*)    `unmodelled` for `other`
-/
namespace UPVerif.Drv.C14
open UPVerif UPVerif.Dag

structure St where
  env : Env
  pinv : Walker Nat
  pkeep : Walker Nat

def stOut {V : Type} (w : Walker V) (withMemo : Bool) : Sexp :=
  Sexp.tag "st" ([Sexp.ofNat w.stack.length] ++ (if withMemo then [Sexp.ofNat w.memo.length] else []))

def dedupE {α : Type} [DecidableEq α] (l : List α) : List α :=
  l.foldl (fun acc x => if acc.contains x then acc else acc ++ [x]) []

def ansOut : Ans → Sexp
  | .expr e => Sexp.tag "ok" [exprToSexp e]
  | .vars vs => Sexp.tag "vars" ((dedupE vs).map varToSexp)
  | .exprs es => Sexp.tag "exprs" ((dedupE es).map exprToSexp)
  | .incompatible => .atom "incompatible"
  | .raised _ => .atom "raised"
  | .broken => .atom "broken"

def probeOut : Except (Err Expr) Nat → Sexp
  | .ok n => Sexp.tag "ok" [Sexp.ofNat n]
  | .error (.node e) => Sexp.tag "raised" [exprToSexp e]
  | .error (.key _) => .atom "key-error"
  | .error .fuel => .atom "fuel"

def parsePairs : List Sexp → Option (List (Expr × Expr × Bool))
  | [] => some []
  | .list [k, v, c] :: r => do
    let k' ← parseExpr k
    let v' ← parseExpr v
    let c' ← c.asBool?
    let r' ← parsePairs r
    some ((k', v', c') :: r')
  | _ => none

def stepCall (reject : Expr → Bool) (keep : ProbeArg) (s : St) : Sexp → Option (Sexp × St)
  | .list [.atom "subst", e, .list ps] => do
    let e' ← parseExpr e
    let σ ← parsePairs ps
    let r := s.env.call reject (.subst σ e')
    some (.list [ansOut r.1, stOut r.2.sub true], { s with env := r.2 })
  | .list [.atom "fv", e] => do
    let e' ← parseExpr e
    let r := s.env.call reject (.freeVars e')
    some (.list [ansOut r.1, stOut r.2.fv false], { s with env := r.2 })
  | .list [.atom "fl", e] => do
    let e' ← parseExpr e
    let r := s.env.call reject (.fluents e')
    some (.list [ansOut r.1, stOut r.2.fl false], { s with env := r.2 })
  | .list [.atom "pinv", salt, .list bad, e] => do
    let e' ← parseExpr e
    let n ← salt.asNat?
    let b ← bad.mapM parseExpr
    let r := walk probeInvSpec { salt := n, bad := b } s.pinv e'
    some (.list [probeOut r.1, stOut r.2 true], { s with pinv := r.2 })
  | .list [.atom "pkeep", e] => do
    let e' ← parseExpr e
    let r := walk (probeKeepSpec keep) () s.pkeep e'
    some (.list [probeOut r.1, stOut r.2 true], { s with pkeep := r.2 })
  | .list (.atom "other" :: _) => some (.atom "unmodelled", s)
  | _ => none

def runCalls (reject : Expr → Bool) (keep : ProbeArg) : St → List Sexp → Option (List Sexp)
  | _, [] => some []
  | s, c :: cs => do
    let (a, s') ← stepCall reject keep s c
    let r ← runCalls reject keep s' cs
    some (a :: r)

def handle : Sexp → Sexp
  | .list [.atom "hist", .list (.atom "reject" :: rej), .list [.atom "keep", salt, .list bad],
           .list (.atom "calls" :: calls)] =>
    match rej.mapM parseExpr, salt.asNat?, bad.mapM parseExpr with
    | some rs, some n, some b =>
      let init : St := { env := Env.fresh, pinv := Walker.fresh, pkeep := Walker.fresh }
      match runCalls (fun e => rs.contains e) { salt := n, bad := b } init calls with
      | some out => .list out
      | none => .atom "bad-case"
    | _, _, _ => .atom "bad-case"
  | _ => .atom "bad-case"

end UPVerif.Drv.C14
