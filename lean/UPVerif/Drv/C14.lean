import UPVerif.Core.Sexp
import UPVerif.Core.ExprSexp
import UPVerif.Core.DagWalker
import UPVerif.Core.DagCtx
/-!
Line-protocol handler for C14: replays one HISTORY of calls on the model of one environment's shared
walkers (`Dag.Env`: Substituter, FreeVarsOracle, FreeVarsExtractor) plus two probe walkers, and
prints, per call, the answer and the walker's observable state (stack length, cache size).

  case   ::= (hist (reject expr*) (keep salt (expr*)) (calls call*) [world])
  world  ::= (world (types (name father|_)*) (pb (obj type)*)*)   -- the problems of the environment and their objects
  call   ::= (subst expr ((key value T|F)*))     -- pair flag = outcome of the compatibility test
           | (mut obj p name type)                -- the caller adds an object to problem p between two calls
           | (mut …)                              -- any other mutation: no effect on what the model follows
           | (qrm p expr)                         -- the long-lived ExpressionQuantifiersRemover on problem p
           | (fv expr) | (fl expr)
           | (pinv salt (bad*) expr)              -- probe walker with a one-time cache
           | (pkeep expr)                         -- probe walker that keeps its cache
           | (other …)                            -- a call the model does not follow (oracle only)
  answer ::= ((<result> (st <stack> <cache>))*)    `unmodelled` for `other`, `mutated` for `mut`;
             a `qrm` answer also carries the shared Substituter's state (its node functions call it)

`subst` / `fv` / `fl` / `mut` / `qrm` are steps of `Dag.EnvX.step` — the function the theorem
`C14_envx_history_independent` is about.
-/
namespace UPVerif.Drv.C14
open UPVerif UPVerif.Dag

structure St where
  x : EnvX
  pinv : Walker Nat
  pkeep : Walker Nat

def stOut {V : Type} (w : Walker V) (withMemo : Bool) : Sexp :=
  Sexp.tag "st" ([Sexp.ofNat w.stack.length] ++ (if withMemo then [Sexp.ofNat w.memo.length] else []))

def dedupE {α : Type} [DecidableEq α] (l : List α) : List α :=
  l.foldl (fun acc x => if acc.contains x then acc else acc ++ [x]) []

def ansOut : Ans → Sexp
  | .expr e => Sexp.tag "ok" [exprToSexp e]
  | .vars vs => Sexp.tag "vars" ((dedupE vs).map varToSexp)
  | .exprs es => Sexp.tag "exprs" ((dedupE es).map exprToSexp)
  | .incompatible => .atom "incompatible"
  | .raised _ => .atom "raised"
  | .broken => .atom "broken"

def optAnsOut : Option Ans → Sexp
  | some a => ansOut a
  | none => .atom "mutated"

def probeOut : Except (Err Expr) Nat → Sexp
  | .ok n => Sexp.tag "ok" [Sexp.ofNat n]
  | .error (.node e) => Sexp.tag "raised" [exprToSexp e]
  | .error (.key _) => .atom "key-error"
  | .error .fuel => .atom "fuel"

def parsePairs : List Sexp → Option (List (Expr × Expr × Bool))
  | [] => some []
  | .list [k, v, c] :: r => do
    let k' ← parseExpr k
    let v' ← parseExpr v
    let c' ← c.asBool?
    let r' ← parsePairs r
    some ((k', v', c') :: r')
  | _ => none

def stepCall (reject : Expr → Bool) (keep : ProbeArg) (s : St) : Sexp → Option (Sexp × St)
  | .list [.atom "subst", e, .list ps] => do
    let e' ← parseExpr e
    let σ ← parsePairs ps
    let r := s.x.step reject (.call (.subst σ e'))
    some (.list [optAnsOut r.1, stOut r.2.env.sub true], { s with x := r.2 })
  | .list [.atom "fv", e] => do
    let e' ← parseExpr e
    let r := s.x.step reject (.call (.freeVars e'))
    some (.list [optAnsOut r.1, stOut r.2.env.fv false], { s with x := r.2 })
  | .list [.atom "fl", e] => do
    let e' ← parseExpr e
    let r := s.x.step reject (.call (.fluents e'))
    some (.list [optAnsOut r.1, stOut r.2.env.fl false], { s with x := r.2 })
  | .list [.atom "mut", .atom "obj", p, .atom n, .atom t] => do
    let p' ← p.asNat?
    if p' < s.x.world.problems.length then
      let r := s.x.step reject (.mutate (.addObject p' (n, t)))
      some (optAnsOut r.1, { s with x := r.2 })
    else none
  | .list (.atom "mut" :: _) => some (.atom "mutated", s)
  | .list [.atom "qrm", p, e] => do
    let p' ← p.asNat?
    let e' ← parseExpr e
    if p' < s.x.world.problems.length then
      let r := s.x.step reject (.qrm p' e')
      some (.list [optAnsOut r.1, stOut r.2.qrm.walker true, stOut r.2.env.sub true], { s with x := r.2 })
    else none
  | .list [.atom "pinv", salt, .list bad, e] => do
    let e' ← parseExpr e
    let n ← salt.asNat?
    let b ← bad.mapM parseExpr
    let r := walk probeInvSpec { salt := n, bad := b } s.pinv e'
    some (.list [probeOut r.1, stOut r.2 true], { s with pinv := r.2 })
  | .list [.atom "pkeep", e] => do
    let e' ← parseExpr e
    let r := walk (probeKeepSpec keep) () s.pkeep e'
    some (.list [probeOut r.1, stOut r.2 true], { s with pkeep := r.2 })
  | .list (.atom "other" :: _) => some (.atom "unmodelled", s)
  | _ => none

def runCalls (reject : Expr → Bool) (keep : ProbeArg) : St → List Sexp → Option (List Sexp)
  | _, [] => some []
  | s, c :: cs => do
    let (a, s') ← stepCall reject keep s c
    let r ← runCalls reject keep s' cs
    some (a :: r)

def parseObjs : List Sexp → Option (List Obj)
  | [] => some []
  | .list [.atom n, .atom t] :: r => do
    let r' ← parseObjs r
    some ((n, t) :: r')
  | _ => none

def parseWorld : Sexp → Option QWorld
  | .list (.atom "world" :: tys :: pbs) => do
    let te ← parseTypeEnv tys
    let ps ← pbs.mapM (fun pb => match pb with
      | .list (.atom "pb" :: os) => parseObjs os
      | _ => none)
    some { types := te, problems := ps }
  | _ => none

def runCase (rej : List Sexp) (salt : Sexp) (bad : List Sexp) (calls : List Sexp) (W : QWorld) : Sexp :=
  match rej.mapM parseExpr, salt.asNat?, bad.mapM parseExpr with
  | some rs, some n, some b =>
    let init : St :=
      { x := { env := Env.fresh, world := W, qrm := { fields := none, walker := Walker.fresh } },
        pinv := Walker.fresh, pkeep := Walker.fresh }
    match runCalls (fun e => rs.contains e) { salt := n, bad := b } init calls with
    | some out => .list out
    | none => .atom "bad-case"
  | _, _, _ => .atom "bad-case"

def handle : Sexp → Sexp
  | .list [.atom "hist", .list (.atom "reject" :: rej), .list [.atom "keep", salt, .list bad],
           .list (.atom "calls" :: calls)] =>
    runCase rej salt bad calls { types := { fathers := [] }, problems := [] }
  | .list [.atom "hist", .list (.atom "reject" :: rej), .list [.atom "keep", salt, .list bad],
           .list (.atom "calls" :: calls), w] =>
    match parseWorld w with
    | some W => runCase rej salt bad calls W
    | none => .atom "bad-case"
  | _ => .atom "bad-case"

end UPVerif.Drv.C14
