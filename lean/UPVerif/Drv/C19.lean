import UPVerif.Core.Sexp
import UPVerif.Core.ExprSexp
import UPVerif.Core.Problem
import UPVerif.Core.AnmlSyntax
import UPVerif.Core.AnmlPrint
import UPVerif.Core.AnmlRead
import UPVerif.Core.AnmlFragment
/-!
line-protocol handler for C19.

case    := (rt <aproblem> (ren <entry>…)) | (w <aproblem> (ren <entry>…)) | (skip …)
aproblem:= (aproblem (types (T _|F)…) (fluents ((name type (sigtype…)) (pname…))…) (objects (o T)…) (init (fe v)…)
             (actions (inst name ((p type)…) (pre e…) (effs eff…)) | (dur name ((p type)…) (duration lo hi T|F T|F) (conds (iv e)…) (effs (t eff)…))…)
             (timed-effects (t eff)…) (goals e…) (timed-goals (iv e)…) (invariants e…))
t       := (s|e|gs|ge q)      iv := (iv t t T|F T|F)      eff := (eff assign|increase|decrease fe v cond ((v type)…))
entry   := ((type n) new) | ((fluent n) new) | ((action n) new) | ((object n) new) | ((param n type) new) | ((var n type) new)
answer  := ((tokens tok…) (reread <aproblem>)) | ((tokens tok…) (read-error)) | ((tokens tok…))      -- rt / rt / w
         | (out-of-fragment) | (bad-renaming)
tok     := (id s) | (kw s) | (num n) | (dec i frac digits) | (str s) | (sym s)
-/
namespace UPVerif.Drv.C19
open UPVerif UPVerif.Anml

def parseTP : String → Option TP
  | "s" => some .start | "e" => some .end_ | "gs" => some .gstart | "ge" => some .gend | _ => none

def parseTiming : Sexp → Option Timing
  | .list [.atom k, .atom q] => do
    let tp ← parseTP k
    let d ← parseRat q
    some { tp := tp, delay := d }
  | _ => none

def parseInterval : Sexp → Option Interval
  | .list [.atom "iv", a, b, lo, ro] => do
    let a ← parseTiming a
    let b ← parseTiming b
    let lo ← lo.asBool?
    let ro ← ro.asBool?
    some { lo := a, hi := b, lopen := lo, ropen := ro }
  | _ => none

def parseParams (ps : List Sexp) : Option (List (String × Ty)) :=
  ps.mapM (fun p => match p with
    | .list [.atom pn, t] => (parseTy t).map (fun ty => (pn, ty))
    | _ => none)

def parseAction : Sexp → Option AAction
  | .list [.atom "inst", .atom n, .list ps, .list (.atom "pre" :: pre), .list (.atom "effs" :: effs)] => do
    let params ← parseParams ps
    let pre' ← pre.mapM parseExpr
    let effs' ← effs.mapM parseEffect
    some (.inst n params pre' effs')
  | .list [.atom "dur", .atom n, .list ps, .list [.atom "duration", lo, hi, lop, rop],
           .list (.atom "conds" :: conds), .list (.atom "effs" :: effs)] => do
    let params ← parseParams ps
    let lo' ← parseExpr lo
    let hi' ← parseExpr hi
    let lop' ← lop.asBool?
    let rop' ← rop.asBool?
    let conds' ← conds.mapM (fun c => match c with
      | .list [iv, e] => do
        let i ← parseInterval iv
        let x ← parseExpr e
        some (i, x)
      | _ => none)
    let effs' ← effs.mapM (fun c => match c with
      | .list [t, e] => do
        let i ← parseTiming t
        let x ← parseEffect e
        some (i, x)
      | _ => none)
    some (.dur n params { lo := lo', hi := hi', lopen := lop', ropen := rop' } conds' effs')
  | _ => none

def parseAProblem : Sexp → Option AProblem
  | .list [.atom "aproblem", .list (.atom "types" :: tys), .list (.atom "fluents" :: fls),
           .list (.atom "objects" :: objs), .list (.atom "init" :: inits), .list (.atom "actions" :: acts),
           .list (.atom "timed-effects" :: tes), .list (.atom "goals" :: goals),
           .list (.atom "timed-goals" :: tgs), .list (.atom "invariants" :: invs)] => do
    let types ← tys.mapM (fun e => match e with
      | .list [.atom n, .atom "_"] => some (n, none)
      | .list [.atom n, .atom f] => some (n, some f)
      | _ => none)
    let fluents ← fls.mapM (fun f => match f with
      | .list [r, pn] => do
        let (n, ty, sig) ← parseRef r
        let pns ← pn.asStrs?
        some ({ ref := { name := n, ty := ty, sig := sig }, pnames := pns } : AFluent)
      | _ => none)
    let objects ← objs.mapM (fun o => match o with
      | .list [.atom n, .atom t] => some (n, t)
      | _ => none)
    let init ← inits.mapM (fun i => match i with
      | .list [f, v] => do
        let fe ← parseExpr f
        let ve ← parseExpr v
        some (fe, ve)
      | _ => none)
    let actions ← acts.mapM parseAction
    let tes' ← tes.mapM (fun c => match c with
      | .list [t, e] => do
        let i ← parseTiming t
        let x ← parseEffect e
        some (i, x)
      | _ => none)
    let goals' ← goals.mapM parseExpr
    let tgs' ← tgs.mapM (fun c => match c with
      | .list [iv, e] => do
        let i ← parseInterval iv
        let x ← parseExpr e
        some (i, x)
      | _ => none)
    let invs' ← invs.mapM parseExpr
    some { types := types, fluents := fluents, objects := objects, init := init, actions := actions,
           timedEffects := tes', goals := goals', timedGoals := tgs', invariants := invs' }
  | _ => none

/-- the renaming table: item ↦ new name -/
def parseRen (es : List Sexp) : Option (List (Item × String)) :=
  es.mapM (fun e => match e with
    | .list [.list [.atom "type", .atom n], .atom v] => some (.ty n, v)
    | .list [.list [.atom "fluent", .atom n], .atom v] => some (.fl n, v)
    | .list [.list [.atom "action", .atom n], .atom v] => some (.act n, v)
    | .list [.list [.atom "object", .atom n], .atom v] => some (.obj n, v)
    | .list [.list [.atom "param", .atom n, t], .atom v] => (parseTy t).map (fun ty => (.par n ty, v))
    | .list [.list [.atom "var", .atom n, t], .atom v] => (parseTy t).map (fun ty => (.var n ty, v))
    | _ => none)

def look (tbl : List (Item × String)) (i : Item) : String :=
  match tbl.lookup i with
  | some v => v
  | none => ""

def mkRen (tbl : List (Item × String)) : Ren :=
  { ty := fun n => look tbl (.ty n), fl := fun n => look tbl (.fl n), act := fun n => look tbl (.act n),
    obj := fun n => look tbl (.obj n), par := fun n t => look tbl (.par n t), var := fun n t => look tbl (.var n t) }

def tokToSexp : Tok → Sexp
  | .id s => .list [.atom "id", .atom s]
  | .kw s => .list [.atom "kw", .atom s]
  | .num n => .list [.atom "num", Sexp.ofNat n]
  | .dec i fr dg => .list [.atom "dec", Sexp.ofNat i, Sexp.ofNat fr, Sexp.ofNat dg]
  | .str s => .list [.atom "str", .atom s]
  | .sym s => .list [.atom "sym", .atom s]

def timingToSexp (t : Timing) : Sexp :=
  .list [.atom (match t.tp with | .start => "s" | .end_ => "e" | .gstart => "gs" | .gend => "ge"), .atom (ratToString t.delay)]

def intervalToSexp (i : Interval) : Sexp :=
  .list [.atom "iv", timingToSexp i.lo, timingToSexp i.hi, Sexp.ofBool i.lopen, Sexp.ofBool i.ropen]

def paramsToSexp (ps : List (String × Ty)) : Sexp := .list (ps.map (fun p => .list [.atom p.1, tyToSexp p.2]))

def aactionToSexp : AAction → Sexp
  | .inst n ps pre effs =>
    .list [.atom "inst", .atom n, paramsToSexp ps, .list (.atom "pre" :: pre.map exprToSexp),
           .list (.atom "effs" :: effs.map effectToSexp)]
  | .dur n ps d conds effs =>
    .list [.atom "dur", .atom n, paramsToSexp ps,
           .list [.atom "duration", exprToSexp d.lo, exprToSexp d.hi, Sexp.ofBool d.lopen, Sexp.ofBool d.ropen],
           .list (.atom "conds" :: conds.map (fun c => .list [intervalToSexp c.1, exprToSexp c.2])),
           .list (.atom "effs" :: effs.map (fun e => .list [timingToSexp e.1, effectToSexp e.2]))]

def aproblemToSexp (P : AProblem) : Sexp :=
  .list [.atom "aproblem",
    .list (.atom "types" :: P.types.map (fun t => .list [.atom t.1, .atom (match t.2 with | some f => f | none => "_")])),
    .list (.atom "fluents" :: P.fluents.map (fun f => .list [refToSexp f.ref.name f.ref.ty f.ref.sig, Sexp.ofStrs f.pnames])),
    .list (.atom "objects" :: P.objects.map (fun o => .list [.atom o.1, .atom o.2])),
    .list (.atom "init" :: P.init.map (fun i => .list [exprToSexp i.1, exprToSexp i.2])),
    .list (.atom "actions" :: P.actions.map aactionToSexp),
    .list (.atom "timed-effects" :: P.timedEffects.map (fun e => .list [timingToSexp e.1, effectToSexp e.2])),
    .list (.atom "goals" :: P.goals.map exprToSexp),
    .list (.atom "timed-goals" :: P.timedGoals.map (fun g => .list [intervalToSexp g.1, exprToSexp g.2])),
    .list (.atom "invariants" :: P.invariants.map exprToSexp)]

def run (readBack : Bool) (p : Sexp) (ren : List Sexp) : Sexp :=
  match parseAProblem p, parseRen ren with
  | some P, some tbl =>
    if !(P.items.all (fun i => (tbl.lookup i).isSome)) then .atom "bad-case"
    else if !inFragment P then .list [.atom "out-of-fragment"]
    else
      let ρ := mkRen tbl
      if !goodRen ρ P then .list [.atom "bad-renaming"]
      else
        let toks := anmlPrint ρ P
        let t := Sexp.list (.atom "tokens" :: toks.map tokToSexp)
        if readBack then
          match anmlRead toks with
          | some Q => .list [t, .list [.atom "reread", aproblemToSexp Q]]
          | none => .list [t, .list [.atom "read-error"]]
        else .list [t]
  | _, _ => .atom "bad-case"

def handle : Sexp → Sexp
  | .list [.atom "rt", p, .list (.atom "ren" :: ren)] => run true p ren
  | .list [.atom "w", p, .list (.atom "ren" :: ren)] => run false p ren
  | .list [.atom "skip", e] => e
  | _ => .atom "bad-case"

end UPVerif.Drv.C19
