import UPVerif.Core.Sexp
import UPVerif.Core.Kind
import UPVerif.Core.Factory
import UPVerif.Gen.Features
/-! line-protocol handler for C32: runs the executable model of the factory's engine selection.

Case grammar
```
case := (sel F R) | (byname F R name) | (pipe F K (ck …))
F    := (fac (E …) (pref name …))
E    := (eng name (mode …) K (opt …) (any …) (plan …) (comp …) TR)
TR   := (id) | (rules (rem feature …) (add feature …)) | (table (ck K K|(raises Exc)) …)
K    := (k (feature …) version|none)
R    := (req mode K opt|- comp|- plan|- any|-)
```
Answers: `sel` → `((cls O) (pub O|n/a) (all (ok name …)|(err O)))`, `byname` → `O`,
`pipe` → `(ok name …)|(err O)`, with `O := (sel name) | no-suitable | no-requested | assertion | key-error`.
-/
namespace UPVerif.Drv.C32
open UPVerif UPVerif.Kind UPVerif.Factory

def T := UPVerif.Gen.tables

def parseKind : Sexp → Option Kind
  | .list [.atom "k", fs, v] => do
    let feats ← fs.asStrs?
    let ver ← (match v with
      | .atom "none" => some none
      | e => e.asNat?.map some)
    some { feats := feats, version := ver }
  | _ => none

def parseMode : Sexp → Option Mode
  | .atom "oneshot_planner" => some .oneshotPlanner
  | .atom "anytime_planner" => some .anytimePlanner
  | .atom "plan_validator" => some .planValidator
  | .atom "portfolio_selector" => some .portfolioSelector
  | .atom "compiler" => some .compiler
  | .atom "sequential_simulator" => some .sequentialSimulator
  | .atom "replanner" => some .replanner
  | .atom "plan_repairer" => some .planRepairer
  | .atom "action_selector" => some .actionSelector
  | _ => none

def parseOpt : Sexp → Option (Option String)
  | .atom "-" => some none
  | .atom s => some (some s)
  | _ => none

def sortStrs (l : List String) : List String := (l.toArray.qsort (· < ·)).toList
def dedup (l : List String) : List String := l.foldl (fun acc x => if acc.contains x then acc else acc ++ [x]) []
def kindKey (k : Kind) : List String × Option Nat := (sortStrs (dedup k.feats), k.version)

/-- returned by a table-defined `resulting_problem_kind` outside its table; reaching it makes the
    case ill-formed (`bad-case`), never a default -/
def sentinel : Kind := { feats := ["__OUTSIDE_TABLE__"], version := some 0 }
def isSentinel (k : Kind) : Bool := k.version == some 0
/-- a tabulated `resulting_problem_kind` that RAISES `x` on this input (engine failure: outside the
    model, passed through by the driver as `(err (other x))` so that it surfaces through the oracle) -/
def raisesMark (x : String) : Kind := { feats := ["__RAISES__", x], version := some 0 }
def raised? (k : Kind) : Option String :=
  match k.version, k.feats with
  | some 0, ["__RAISES__", x] => some x
  | _, _ => none

def parseTr : Sexp → Option (Kind → String → Kind)
  | .list [.atom "id"] => some (fun k _ => k)
  | .list [.atom "rules", .list (.atom "rem" :: rem), .list (.atom "add" :: add)] => do
    let r ← rem.mapM Sexp.asAtom?
    let a ← add.mapM Sexp.asAtom?
    some (fun k _ => rulesTransform r a k)
  | .list (.atom "table" :: rows) => do
    let tbl ← rows.mapM (fun row =>
      match row with
      | .list [.atom ck, kin, .list [.atom "raises", .atom x]] => do
        let i ← parseKind kin
        if i.wf T then some (ck, kindKey i, raisesMark x) else none
      | .list [.atom ck, kin, kout] => do
        let i ← parseKind kin
        let o ← parseKind kout
        if i.wf T && o.wf T then some (ck, kindKey i, o) else none
      | _ => none)
    some (fun k ck =>
      match tbl.find? (fun e => e.1 == ck && e.2.1 == kindKey k) with
      | some e => e.2.2
      | none => sentinel)
  | _ => none

def parseEngine : Sexp → Option (String × Engine)
  | .list [.atom "eng", .atom name, modes, kind, opts, anys, plans, comps, tr] => do
    let ms ← (← modes.asList?).mapM parseMode
    let k ← parseKind kind
    if !(k.wf T) then none
    let o ← opts.asStrs?
    let a ← anys.asStrs?
    let p ← plans.asStrs?
    let c ← comps.asStrs?
    let t ← parseTr tr
    some (name, mkEngine T ms k o a p c t)
  | _ => none

def parseFactory : Sexp → Option Factory
  | .list [.atom "fac", .list es, .list (.atom "pref" :: ps)] => do
    let engines ← es.mapM parseEngine
    let names := engines.map (·.1)
    if (dedup names).length != names.length then none
    let pref ← ps.mapM Sexp.asAtom?
    some { engines := engines, pref := pref }
  | _ => none

def parseReq : Sexp → Option Req
  | .list [.atom "req", m, k, o, c, p, a] => do
    let mode ← parseMode m
    let kind ← parseKind k
    if !(kind.wf T) then none
    some { mode := mode, kind := kind, opt := ← parseOpt o, comp := ← parseOpt c,
           plan := ← parseOpt p, any := ← parseOpt a }
  | _ => none

def outcomeOut : Outcome → Sexp
  | .selected n => Sexp.tag "sel" [.atom n]
  | .noSuitable => .atom "no-suitable"
  | .noRequested => .atom "no-requested"
  | .assertion => .atom "assertion"
  | .keyError => .atom "key-error"

def namesOut : Except Outcome (List String) → Sexp
  | .ok ns => Sexp.tag "ok" (ns.map .atom)
  | .error o => Sexp.tag "err" [outcomeOut o]

/-- the problem kinds the pipeline queries, stage by stage (to detect a table miss) -/
def pipeKinds (F : Factory) : Kind → List String → List Kind
  | k, [] => [k]
  | k, ck :: cks =>
    match getEngineClass F none (stageReq k ck) with
    | .selected n =>
      match F.lookup n with
      | some e => k :: pipeKinds F (e.resultingKind k ck) cks
      | none => [k]
    | _ => [k]

def handle : Sexp → Sexp
  | .list [.atom "sel", f, r] =>
    match parseFactory f, parseReq r with
    | some F, some R =>
      let cls := getEngineClass F none R
      -- the public entry points can express exactly the well-shaped requests; `Replanner` is
      -- observed through `_get_engine_class` only (see ASSUMPTIONS in harness/props/C32.py)
      let pub := if R.wellShaped && R.mode != .replanner then outcomeOut cls else .atom "n/a"
      .list [Sexp.tag "cls" [outcomeOut cls], Sexp.tag "pub" [pub], Sexp.tag "all" [namesOut (allApplicable F R)]]
    | _, _ => .atom "bad-case"
  | .list [.atom "byname", f, r, .atom n] =>
    match parseFactory f, parseReq r with
    | some F, some R => outcomeOut (getEngineClass F (some n) R)
    | _, _ => .atom "bad-case"
  | .list [.atom "pipe", f, k, cks] =>
    match parseFactory f, parseKind k, cks.asStrs? with
    | some F, some K, some cs =>
      if !(K.wf T) then .atom "bad-case"
      else
        let ks := pipeKinds F K cs
        match ks.find? (fun k => isSentinel k || !(k.wf T)) with
        | some k =>
          match raised? k with
          | some x => Sexp.tag "err" [Sexp.tag "other" [.atom x]]
          | none => .atom "bad-case"
        | none => namesOut (pipeline F K cs)
    | _, _, _ => .atom "bad-case"
  | _ => .atom "bad-case"

end UPVerif.Drv.C32
