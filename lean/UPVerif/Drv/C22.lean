import UPVerif.Core.Sexp
import UPVerif.Core.ExprSexp
import UPVerif.Core.Problem
import UPVerif.Core.Build
/-!
Line-protocol handler for C22 (and, through `Drv/C23.lean`, C23): runs the executable model of the
model-building API (`Core/Build.lean`) on one history.

```
case  ::= (hist ENV NEW (pre OP*) (post ITEM*))
ENV   ::= (env (types (T father|_)*) (eun T|F) (tytab (EXPR TYPE)*) (simp (EXPR EXPR)*))
NEW   ::= (new NAME ((TYPE EXPR)*))                       -- Problem(name, initial_defaults=…)
OP    ::= (add-fluent REF EXPR|_) | (add-object NAME TYPENAME) | (set-init F V)
        | (add-action NAME ((P TYPE)*)) | (act-pre A E) | (act-eff A KIND F V C ((v TYPE)*))
        | (add-goal E) | (add-traj E) | (timed-eff TIMING KIND F V C ((v TYPE)*))
        | (timed-goal (iv TIMING TIMING T|F T|F) E) | (add-metric M)
        | (set-epsilon Q|_) | (set-discrete T|F) | (set-overlap T|F)
TIMING::= (gs Q) | (ge Q) | (s Q) | (e Q)
ITEM  ::= (both OP) | (left OP) | (right OP) | (reclone)
answer::= (ctor-error CLS)
        | ((pre CLS*) (clone ok|CLS EQ) (post R*) (final DUMP DUMP) (tc T|F T|F))
R     ::= (both CLS CLS EQ) | (left CLS EQ UNCHANGED) | (right CLS EQ UNCHANGED) | (reclone ok|CLS EQ)
```
`EQ` is `Build.eqBody` (the `kind` comparison of `Problem.__eq__` is handled by the harness).
-/
namespace UPVerif.Drv.C22
open UPVerif UPVerif.Build Sexp

def errName : Err → String
  | .typeError => "type" | .usage => "usage" | .conflict => "conflict" | .problemDef => "problem-def"
  | .unbounded => "unbounded" | .exprDef => "expr-def" | .value => "value" | .assertion => "assert"

def clsOf : Option Err → Sexp
  | none => .atom "ok"
  | some e => .atom (errName e)

def parseKindE : String → Option EffKind
  | "assign" => some .assign | "increase" => some .increase | "decrease" => some .decrease
  | _ => none

def parseTiming : Sexp → Option Timing
  | .list [.atom k, .atom q] => do
    let kind ← (match k with
      | "gs" => some TPKind.globalStart | "ge" => some .globalEnd | "s" => some .start | "e" => some .end_
      | _ => none)
    let d ← parseRat q
    some { kind := kind, delay := d }
  | _ => none

def parseInterval : Sexp → Option TInterval
  | .list [.atom "iv", l, u, lo, ro] => do
    let l' ← parseTiming l
    let u' ← parseTiming u
    let lo' ← lo.asBool?
    let ro' ← ro.asBool?
    some { lower := l', upper := u', leftOpen := lo', rightOpen := ro' }
  | _ => none

def parseParams (ps : List Sexp) : Option (List (String × Ty)) :=
  ps.mapM (fun p => match p with
    | .list [.atom n, t] => (parseTy t).map (fun ty => (n, ty))
    | _ => none)

def parseOp : Sexp → Option Build.Op
  | .list [.atom "add-fluent", r, d] => do
    let (n, ty, sig) ← parseRef r
    let dflt ← (match d with
      | .atom "_" => some none
      | e => (parseExpr e).map some)
    some (.addFluent { name := n, ty := ty, sig := sig } dflt)
  | .list [.atom "add-object", .atom n, .atom t] => some (.addObject n t)
  | .list [.atom "set-init", f, v] => do
    let fe ← parseExpr f
    let ve ← parseExpr v
    some (.setInit fe ve)
  | .list [.atom "add-action", .atom n, .list ps] => (parseParams ps).map (fun p => .addAction n p)
  | .list [.atom "act-pre", .atom a, e] => (parseExpr e).map (fun x => .actAddPre a x)
  | .list [.atom "act-eff", .atom a, .atom k, f, v, c, .list vs] => do
    let kind ← parseKindE k
    let fe ← parseExpr f
    let ve ← parseExpr v
    let ce ← parseExpr c
    let vars ← vs.mapM parseVar
    some (.actAddEff a kind fe ve ce vars)
  | .list [.atom "add-goal", e] => (parseExpr e).map .addGoal
  | .list [.atom "add-traj", e] => (parseExpr e).map .addTraj
  | .list [.atom "timed-eff", t, .atom k, f, v, c, .list vs] => do
    let tm ← parseTiming t
    let kind ← parseKindE k
    let fe ← parseExpr f
    let ve ← parseExpr v
    let ce ← parseExpr c
    let vars ← vs.mapM parseVar
    some (.addTimedEffect tm kind fe ve ce vars)
  | .list [.atom "timed-goal", i, e] => do
    let iv ← parseInterval i
    let x ← parseExpr e
    some (.addTimedGoal iv x)
  | .list [.atom "add-metric", m] => (parseMetric m).map .addMetric
  | .list [.atom "set-epsilon", .atom "_"] => some (.setEpsilon none)
  | .list [.atom "set-epsilon", .atom q] => (parseRat q).map (fun r => .setEpsilon (some r))
  | .list [.atom "set-discrete", b] => b.asBool?.map .setDiscreteTime
  | .list [.atom "set-overlap", b] => b.asBool?.map .setSelfOverlapping
  | _ => none

def parseItem : Sexp → Option Item
  | .list [.atom "both", o] => (parseOp o).map .both
  | .list [.atom "left", o] => (parseOp o).map .left
  | .list [.atom "right", o] => (parseOp o).map .right
  | .list [.atom "reclone"] => some .reclone
  | _ => none

def parseEnv : Sexp → Option Env
  | .list [.atom "env", tys, .list [.atom "eun", eun], .list (.atom "tytab" :: tt), .list (.atom "simp" :: st)] => do
    let types ← parseTypeEnv tys
    let e ← eun.asBool?
    let tytab ← tt.mapM (fun p => match p with
      | .list [x, t] => do
        let xe ← parseExpr x
        let ty ← parseTy t
        some (xe, ty)
      | _ => none)
    let stab ← st.mapM (fun p => match p with
      | .list [x, y] => do
        let xe ← parseExpr x
        let ye ← parseExpr y
        some (xe, ye)
      | _ => none)
    some { types := types, errorUsedName := e, typeOf := tableTypeOf tytab, simplify := tableSimplify stab }
  | _ => none

def parseNew : Sexp → Option (String × List (Ty × Expr))
  | .list [.atom "new", .atom n, .list ds] => do
    let defaults ← ds.mapM (fun p => match p with
      | .list [t, x] => do
        let ty ← parseTy t
        let xe ← parseExpr x
        some (ty, xe)
      | _ => none)
    some (n, defaults)
  | _ => none

/-! ### dump of a state (same layout as `buildlib.dump_problem` on the real objects) -/

def sortSexps (l : List Sexp) : List Sexp :=
  (l.toArray.qsort (fun a b => Sexp.toString a < Sexp.toString b)).toList

def timingToSexp (t : Timing) : Sexp :=
  .list [.atom (match t.kind with | .globalStart => "gs" | .globalEnd => "ge" | .start => "s" | .end_ => "e"),
         .atom (ratToString t.delay)]

def intervalToSexp (i : TInterval) : Sexp :=
  .list [.atom "iv", timingToSexp i.lower, timingToSexp i.upper, ofBool i.leftOpen, ofBool i.rightOpen]

def optExprToSexp : Option Expr → Sexp
  | none => .atom "_"
  | some e => exprToSexp e

def metricToSexp : Metric → Sexp
  | .minActionCosts costs d =>
    .list [.atom "min-action-costs", .list (costs.map (fun ac => .list [.atom ac.1, exprToSexp ac.2])), optExprToSexp d]
  | .minLength => .list [.atom "min-length"]
  | .minFinal e => .list [.atom "min-final", exprToSexp e]
  | .maxFinal e => .list [.atom "max-final", exprToSexp e]
  | .oversub gs => .list [.atom "oversub", .list (gs.map (fun gw => .list [exprToSexp gw.1, .atom (ratToString gw.2)]))]

def pairsToSexp (l : List (Expr × Expr)) : List Sexp :=
  l.map (fun fv => .list [exprToSexp fv.1, exprToSexp fv.2])

def actionStToSexp (a : ActionSt) : Sexp :=
  .list [.atom "act", .atom a.name, .list (a.params.map (fun p => .list [.atom p.1, tyToSexp p.2])),
         tag "pre" (a.pre.map exprToSexp), tag "effs" (a.effs.map effectToSexp),
         tag "asg" (pairsToSexp a.assigned), tag "incdec" (sortSexps (a.incdec.map exprToSexp))]

def dump (s : State) : Sexp :=
  .list [.atom "st", .atom s.name,
    tag "types" (s.userTypes.map .atom),
    tag "objects" (s.objects.map (fun o => .list [.atom o.1, .atom o.2])),
    tag "fluents" (s.fluents.map (fun f => refToSexp f.name f.ty f.sig)),
    tag "fdef" (s.fluentsDefaults.map (fun fd => .list [refToSexp fd.1.name fd.1.ty fd.1.sig, exprToSexp fd.2])),
    tag "idef" (s.initialDefaults.map (fun td => .list [tyToSexp td.1, exprToSexp td.2])),
    tag "init" (pairsToSexp s.init),
    tag "actions" (s.actions.map actionStToSexp),
    tag "goals" (s.goals.map exprToSexp),
    tag "traj" (s.traj.map exprToSexp),
    tag "metrics" (s.metrics.map metricToSexp),
    tag "teff" (s.timedEffects.map (fun te => .list (timingToSexp te.1 :: te.2.map effectToSexp))),
    tag "tgoals" (s.timedGoals.map (fun tg => .list (intervalToSexp tg.1 :: tg.2.map exprToSexp))),
    tag "tasg" (sortSexps (s.tAssigned.map (fun ta => .list (timingToSexp ta.1 :: pairsToSexp ta.2)))),
    tag "tincdec" (sortSexps (s.tIncDec.map (fun ti => .list (timingToSexp ti.1 :: sortSexps (ti.2.map exprToSexp))))),
    .list [.atom "time", (match s.epsilon with | none => .atom "_" | some q => .atom (ratToString q)),
           ofBool s.discreteTime, ofBool s.selfOverlapping]]

/-! ### running a history -/

def runPre (E : Env) : State → List Build.Op → State × List Sexp
  | s, [] => (s, [])
  | s, op :: ops =>
    let r := Build.apply E s op
    let rest := runPre E r.st ops
    (rest.1, clsOf r.err :: rest.2)

def eqS (E : Env) (a b : State) : Sexp := ofBool (eqBody E.types a b)

/-- original `p`, twin `c`; the states evolve by `Build.stepWorld`.  `UNCHANGED` is `T` by construction
    in the pure model (theorem `C22_independent`); on the real side the objects are dumped. -/
def runPost (E : Env) : State → State → List Item → State × State × List Sexp
  | p, c, [] => (p, c, [])
  | p, c, it :: its =>
    let w := stepWorld E p c it
    let out := match it with
      | .both op => tag "both" [clsOf (Build.apply E p op).err, clsOf (Build.apply E c op).err, eqS E w.1 w.2]
      | .left op => tag "left" [clsOf (Build.apply E p op).err, eqS E w.1 w.2, ofBool (decide (w.2 = c))]
      | .right op => tag "right" [clsOf (Build.apply E c op).err, eqS E w.1 w.2, ofBool (decide (w.1 = p))]
      | .reclone =>
        match Build.clone p with
        | .ok c' => tag "reclone" [.atom "ok", eqS E c' p]
        | .error e => tag "reclone" [.atom (errName e)]
    let rest := runPost E w.1 w.2 its
    (rest.1, rest.2.1, out :: rest.2.2)

def handleHist (env new : Sexp) (pre post : List Sexp) : Sexp :=
  match parseEnv env, parseNew new, pre.mapM parseOp, post.mapM parseItem with
  | some E, some (name, defaults), some preOps, some items =>
    match newProblem E name defaults with
    | .error e => tag "ctor-error" [.atom (errName e)]
    | .ok s0 =>
      let (p, preCls) := runPre E s0 preOps
      match Build.clone p with
      | .error e => .list [tag "pre" preCls, tag "clone" [.atom (errName e)]]
      | .ok c =>
        let (p', c', res) := runPost E p c items
        .list [tag "pre" preCls, tag "clone" [.atom "ok", eqS E c p], tag "post" res,
               tag "final" [dump p', dump c'],
               tag "tc" [ofBool (typeCorrect E p'), ofBool (typeCorrect E c')]]
  | _, _, _, _ => .atom "bad-case"

def handle : Sexp → Sexp
  | .list [.atom "hist", env, new, .list (.atom "pre" :: pre), .list (.atom "post" :: post)] =>
    handleHist env new pre post
  -- lock-step differential of real subclasses (contingent / hierarchical / multi-agent): the model
  -- covers `Problem` only; these cases are decided by the property's oracle on the real code
  | .list (.atom "sub" :: _) => .atom "not-modelled"
  | _ => .atom "bad-case"

end UPVerif.Drv.C22
