import UPVerif.Core.Sexp
import UPVerif.Core.ExprSexp
import UPVerif.Core.Problem
import UPVerif.Core.PddlPrint
import UPVerif.Core.PddlRead
import UPVerif.Core.PddlNorm
import UPVerif.Drv.C18TTPlan
/-!
Line-protocol handler for C18 (and, through `read`, for C21).

```
(write  <problem> (kind F*) (ren R*))          -> (ok <domain-tree> <problem-tree>) | unsupported
(read   <domain-tree> <problem-tree>)          -> (ok <problem>) | error
(rt     <problem> (kind F*) (ren R*) [raw])    -> (ok <domain-tree> <problem-tree> <problem read back from them> <T|F: it equals pddlNorm>) | unsupported | error
(plan   (ren R*) (steps (action obj*)*) [problem]) -> (ok (<tree>*) (<steps read back>)) | unsupported
(num    <q>)                                   -> (ok <decimal text> <q parsed back>) | inexact
(ttplan …) (ttread …)                          -> see Drv/C18TTPlan.lean
R ::= (problem new) | (ty old new) | (fluent old new) | (obj old new) | (action old new) | (param old ty new) | (var old ty new)
```
-/
namespace UPVerif.Drv.C18
open UPVerif UPVerif.Pddl

def parseRenEntry : Sexp → Option (NameKey × String)
  | .list [.atom "problem", .atom n] => some (.problem, n)
  | .list [.atom "ty", .atom o, .atom n] => some (.ty o, n)
  | .list [.atom "fluent", .atom o, .atom n] => some (.fluent o, n)
  | .list [.atom "obj", .atom o, .atom n] => some (.obj o, n)
  | .list [.atom "action", .atom o, .atom n] => some (.action o, n)
  | .list [.atom "param", .atom o, .atom t, .atom n] => some (.param o t, n)
  | .list [.atom "var", .atom o, .atom t, .atom n] => some (.var o t, n)
  | _ => none

def parseRen : Sexp → Option (List (NameKey × String))
  | .list (.atom "ren" :: es) => es.mapM parseRenEntry
  | _ => none

def renOf (tbl : List (NameKey × String)) : Ren := fun k => tbl.lookup k
/-- `nto_renamings`: the problem's own name is not an entry of the writer's tables -/
def invOf (tbl : List (NameKey × String)) : Inv :=
  fun s => ((tbl.filter (fun p => p.1 != .problem)).find? (fun p => p.2 == s)).map (·.1)

def parseKind : Sexp → Option PKind
  | .list (.atom "kind" :: fs) => (fs.mapM Sexp.asAtom?).map (fun l => { feats := l })
  | _ => none

def metricToSexp : Metric → Sexp
  | .minActionCosts cs d => .list [.atom "min-action-costs", .list (cs.map (fun c => .list [.atom c.1, exprToSexp c.2])),
      match d with | some e => exprToSexp e | none => .atom "_"]
  | .minLength => .list [.atom "min-length"]
  | .minFinal e => .list [.atom "min-final", exprToSexp e]
  | .maxFinal e => .list [.atom "max-final", exprToSexp e]
  | .oversub gs => .list [.atom "oversub", .list (gs.map (fun g => .list [exprToSexp g.1, .atom (ratToString g.2)]))]

def problemToSexp (P : Problem) : Sexp :=
  .list [.atom "problem", .atom P.name,
    .list (.atom "types" :: P.types.fathers.map (fun p => .list [.atom p.1, .atom (p.2.getD "_")])),
    .list (.atom "objects" :: P.objects.map (fun o => .list [.atom o.1, .atom o.2])),
    .list (.atom "fluents" :: P.fluents.map (fun f => .list [refToSexp f.ref.name f.ref.ty f.ref.sig,
      match f.default with | some e => exprToSexp e | none => .atom "_"])),
    .list (.atom "init" :: P.init.map (fun p => .list [exprToSexp p.1, exprToSexp p.2])),
    .list (.atom "actions" :: P.actions.map actionToSexp),
    .list (.atom "goals" :: P.goals.map exprToSexp),
    .list (.atom "traj" :: P.traj.map exprToSexp),
    .list (.atom "metrics" :: P.metrics.map metricToSexp)]

def handle : Sexp → Sexp
  | .list [.atom "write", p, k, r] =>
    match parseProblem p, parseKind k, parseRen r with
    | some P, some K, some tbl =>
      match printDomain (renOf tbl) K P, printProblem (renOf tbl) K P with
      | some d, some q => .list [.atom "ok", d, q]
      | _, _ => .atom "unsupported"
    | _, _, _ => .atom "bad-case"
  | .list [.atom "read", d, q] =>
    match pddlRead d q with
    | some P => .list [.atom "ok", problemToSexp P]
    | none => .atom "error"
  | .list (.atom "rt" :: p :: k :: r :: _) =>          -- a trailing `(raw …)` is for the oracle only
    match parseProblem p, parseKind k, parseRen r with
    | some P, some K, some tbl =>
      match printDomain (renOf tbl) K P, printProblem (renOf tbl) K P with
      | some d, some q =>
        match pddlRead d q with
        | some P' =>
          .list [.atom "ok", d, q, problemToSexp P',
                 Sexp.ofBool (match pddlNorm (renOf tbl) K P with
                   | some N => toString (problemToSexp N) == toString (problemToSexp P')
                   | none => false)]
        | none => .atom "error"
      | _, _ => .atom "unsupported"
    | _, _, _ => .atom "bad-case"
  | .list (.atom "plan" :: r :: .list (.atom "steps" :: steps) :: _) =>   -- trailing problem: for the real code only
    match parseRen r, steps.mapM (fun s => match s with
        | .list (.atom a :: os) => (os.mapM Sexp.asAtom?).map (fun l => (a, l))
        | _ => none) with
    | some tbl, some plan =>
      match printPlan (renOf tbl) plan with
      | some trees =>
        .list [.atom "ok", .list trees,
          match readPlan (invOf tbl) trees with
          | some back => .list (back.map (fun s => .list (.atom s.1 :: s.2.map .atom)))
          | none => .atom "error"]
      | none => .atom "unsupported"
    | _, _ => .atom "bad-case"
  | .list [.atom "num", .atom q] =>
    match parseRat q with
    | some r =>
      match decimalStr r with
      | some s => .list [.atom "ok", .atom s, match parseNumber s with
          | some r' => .atom (ratToString r')
          | none => .atom "error"]
      | none => .atom "inexact"
    | none => .atom "bad-case"
  | s => Drv.C18TTPlan.handle s                 -- `ttplan`, `ttread`: plan text, character level (Core/PddlTTPlan.lean)

end UPVerif.Drv.C18
