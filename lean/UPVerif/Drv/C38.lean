import UPVerif.Core.Sexp
import UPVerif.Core.MangleSelect
import UPVerif.Gen.Keywords
/-! line-protocol handler for C38: runs the executable model of the writers' name mangling on one case

```
(pddl  PROB HIER (names n…) (items (cls name extra…)…) (ops op…) (write W))
                                                              op ::= (m i) | (named s) | (pname i)
(pddlw PROB (items (cls name extra…)…))
(maw   (agents N) (items (cls name extra…)…))
(anml  (types (name father)…) (fluents (name ty (params (name ty)…))…)
       (actions (cls name (params (name ty)…))…) (objects (name tyIdx)…) [(opts D N)])   ty ::= bool | <type index>

PROB ::= (view (mro C…) (actions (C…)…) (lens nProcesses nEvents nTrajectory nTimedEffects nTimedGoals) DISCRETE)
       | (flags P 3 T C)        -- legacy: the four table choices given directly
```
`view` is what `PDDLWriter.__init__` can read of the problem (`ProblemView`); the keyword set is computed from it by the
conditions extracted from `__init__` (`Gen.pddlSelect`).
`extra` (types of objects and parameters, owners of parameters, fathers of types) and `W` (whether the real
writer is also asked for its output after the calls) only matter for building the real problem; the model's
inputs are the classes and names, `problem.has_name` (`names`) and `has_hierarchical_typing` (`HIER`).
-/
namespace UPVerif.Drv.C38
open UPVerif UPVerif.Mangle

def T := UPVerif.Gen.mangleTables

def nm (n : Name) : Sexp := Sexp.tag "n" [.atom (String.ofList n)]
def noneS : Sexp := Sexp.tag "none" []

def parseFlags : Sexp → Option (Bool × Bool × Bool × Bool)
  | .list [.atom "flags", a, b, c, d] => do
    some (← a.asBool?, ← b.asBool?, ← c.asBool?, ← d.asBool?)
  | _ => none

def parseNames : List Sexp → Option (List Name) := fun xs => xs.mapM (fun e => e.asAtom?.map String.toList)

def parseView : Sexp → Option ProblemView
  | .list [.atom "view", .list (.atom "mro" :: mro), .list (.atom "actions" :: acts),
           .list [.atom "lens", np, ne, ntr, nte, ntg], d] => do
    let mro ← parseNames mro
    let acts ← acts.mapM (fun a => match a with | .list cs => parseNames cs | _ => none)
    some { mro := mro, actions := acts, nProcesses := ← np.asNat?, nEvents := ← ne.asNat?, nTrajectory := ← ntr.asNat?,
           nTimedEffects := ← nte.asNat?, nTimedGoals := ← ntg.asNat?, discrete := ← d.asBool? }
  | _ => none

/-- the keyword set of the writer: from the problem view by the extracted conditions, or (legacy) from four flags -/
def parseKw (e : Sexp) : Option (List Name) :=
  match parseView e with
  | some v => some (initKeywords T UPVerif.Gen.pddlSelect v)
  | none => (parseFlags e).map fun (a, b, c, d) => pddlKeywords T a b c d

/-- `sorted(self.pddl_keywords - GENERAL_PDDL_KEYWORDS)` -/
def optKw (kw : List Name) : Sexp :=
  let ks := ((kw.filter fun k => !T.pddlGeneral.contains k).eraseDups.map String.ofList).toArray.qsort (· < ·)
  Sexp.tag "optkw" (ks.toList.map Sexp.atom)

def parseItems : Sexp → Option (List Item)
  | .list (.atom "items" :: xs) =>
    (xs.zipIdx.mapM fun (e, i) =>
      match e with
      | .list (.atom c :: .atom n :: _) => some ({ cls := c.toList, name := n.toList, uid := i } : Item)
      | _ => none)
  | _ => none

inductive Op
  | mangle (i : Nat)
  | named (s : Name)
  | pname (i : Nat)

def parseOp : Sexp → Option Op
  | .list [.atom "m", i] => i.asNat?.map .mangle
  | .list [.atom "named", .atom s] => some (.named s.toList)
  | .list [.atom "pname", i] => i.asNat?.map .pname
  | _ => none

def itemIdx (items : List Item) (it : Item) : Sexp :=
  match items.idxOf? it with
  | some i => Sexp.tag "i" [Sexp.ofNat i]
  | none => .atom "bad-case"

def runOps (env : PddlEnv) (items : List Item) : List Op → PddlState → List Sexp → Option (PddlState × List Sexp)
  | [], st, acc => some (st, acc.reverse)
  | .mangle i :: r, st, acc =>
    match items[i]? with
    | none => none
    | some it =>
      let (n, st') := getMangledName T env st it
      runOps env items r st' (nm n :: acc)
  | .named s :: r, st, acc =>
    runOps env items r st ((match getItemNamed st s with | some it => itemIdx items it | none => noneS) :: acc)
  | .pname i :: r, st, acc =>
    match items[i]? with
    | none => none
    | some it => runOps env items r st ((match getPddlName st it with | some n => nm n | none => noneS) :: acc)

def handlePddl (fl hier names items ops : Sexp) : Option Sexp := do
  let kw ← parseKw fl
  let hier ← hier.asBool?
  let names ← (match names with
    | .list (.atom "names" :: xs) => parseNames xs
    | _ => none)
  let items ← parseItems items
  let ops ← (match ops with
    | .list (.atom "ops" :: xs) => xs.mapM parseOp
    | _ => none)
  let env : PddlEnv := { kw := kw, hier := hier, names := names }
  let (st, res) ← runOps env items ops {} []
  some (.list [Sexp.tag "hier" [Sexp.ofBool hier], Sexp.tag "nkw" [Sexp.ofNat env.kw.eraseDups.length],
               optKw env.kw, Sexp.tag "res" res,
               Sexp.tag "otn" (st.otn.map fun (it, n) => .list [itemIdx items it, nm n]),
               Sexp.tag "nto" (st.nto.map fun (n, it) => .list [nm n, itemIdx items it])])

def handlePddlW (fl items : Sexp) : Option Sexp := do
  let kw ← parseKw fl
  let items ← parseItems items
  some (.list [Sexp.tag "nkw" [Sexp.ofNat kw.eraseDups.length], optKw kw,
               Sexp.tag "base" (items.map fun it => nm (pddlName T kw it))])

/-- `MAPDDLWriter`: the fixed keyword set, `_get_pddl_name` of every element -/
def handleMaW (items : Sexp) : Option Sexp := do
  let items ← parseItems items
  let kw := maKeywords T UPVerif.Gen.maSelect
  some (.list [Sexp.tag "nkw" [Sexp.ofNat kw.eraseDups.length], optKw kw,
               Sexp.tag "base" (items.map fun it => nm (pddlName T kw it))])

def userCls : Name := "_UserType".toList
def paramCls : Name := "Parameter".toList

def parseTy (ntypes : Nat) (types : List Item) : Sexp → Option (Item × Nat)
  | .atom "bool" => some (boolKey, 0)
  | e => do
    let i ← e.asNat?
    let t ← types[i]?
    if i < ntypes then some (t, i + 1) else none

def parseParams (types : List Item) : Sexp → Option (List (Item × Item))
  | .list (.atom "params" :: ps) =>
    ps.mapM fun p =>
      match p with
      | .list [.atom n, ty] => do
        let (t, code) ← parseTy types.length types ty
        some (({ cls := paramCls, name := n.toList, uid := code } : Item), t)
      | _ => none
  | _ => none

def handleAnml (types fluents actions objects : Sexp) : Option Sexp := do
  let types ← (match types with
    | .list (.atom "types" :: xs) =>
      xs.zipIdx.mapM fun (e, i) =>
        match e with
        | .list [.atom n, _] => some ({ cls := userCls, name := n.toList, uid := i } : Item)
        | _ => none
    | _ => none)
  let fluents ← (match fluents with
    | .list (.atom "fluents" :: xs) =>
      xs.zipIdx.mapM fun (e, i) =>
        match e with
        | .list [.atom n, ty, ps] => do
          let (t, _) ← parseTy types.length types ty
          let ps ← parseParams types ps
          some (({ cls := "Fluent".toList, name := n.toList, uid := i } : Item), t, ps)
        | _ => none
    | _ => none)
  let actions ← (match actions with
    | .list (.atom "actions" :: xs) =>
      xs.zipIdx.mapM fun (e, i) =>
        match e with
        | .list [.atom c, .atom n, ps] => do
          let ps ← parseParams types ps
          some (({ cls := c.toList, name := n.toList, uid := i } : Item), ps)
        | _ => none
    | _ => none)
  let objects ← (match objects with
    | .list (.atom "objects" :: xs) =>
      xs.zipIdx.mapM fun (e, i) =>
        match e with
        | .list [.atom n, ty] => do
          let j ← ty.asNat?
          let t ← types[j]?
          some (({ cls := "Object".toList, name := n.toList, uid := i } : Item), t)
        | _ => none
    | _ => none)
  let p : AnmlProblem := { types := types, fluents := fluents, actions := actions, objects := objects }
  let m := anmlWrite T p
  let look (it : Item) : Sexp := match m.lookup it with | some n => nm n | none => noneS
  some (.list [Sexp.tag "types" (types.map look),
               Sexp.tag "fluents" (fluents.map fun f => .list (look f.1 :: f.2.2.map (fun q => look q.1))),
               Sexp.tag "actions" (actions.map fun a => .list (look a.1 :: a.2.map (fun q => look q.1))),
               Sexp.tag "objects" (objects.map fun o => look o.1)])

def handle : Sexp → Sexp
  | .list [.atom "pddl", fl, hier, names, items, ops, .list [.atom "write", _]] =>
    (handlePddl fl hier names items ops).getD (.atom "bad-case")
  | .list [.atom "pddlw", fl, items] => (handlePddlW fl items).getD (.atom "bad-case")
  | .list [.atom "maw", .list [.atom "agents", _], items] => (handleMaW items).getD (.atom "bad-case")
  | .list [.atom "anml", types, fluents, actions, objects] =>
    (handleAnml types fluents actions objects).getD (.atom "bad-case")
  -- the ANML keyword set is fixed: the time model and the timed effects of `opts` are no input of the model
  | .list [.atom "anml", types, fluents, actions, objects, .list [.atom "opts", _, _]] =>
    (handleAnml types fluents actions objects).getD (.atom "bad-case")
  | _ => .atom "bad-case"

end UPVerif.Drv.C38
