import UPVerif.Core.Sexp
import UPVerif.Core.PlanConv
/-!
line-protocol handler for C26: runs the executable model of the time-triggered ↔ STN plan conversions
(`Core/PlanConv.lean`) on one case.

Payload (built by `harness/props/C26.py:model_payload`)

  (conv (eps -|q) (mock (effs T*) (conds (T T T|F T|F)*))
        (plan (start - name) | (start dur name (effs T*) (conds (T T T|F T|F)*)) ...)
        (adj (i j*)*))            T ::= (S delay) | (E delay)

Answer

  (ok (seq name*) (tr ok) (sat T|F) (cons (a lower upper b)*) (back (start index duration)*))

`seq` = for every event of the sequential plan handed to the deordering, the name of the plan action it
comes from (`mockup_action` for timed effects/goals); `cons` = `STNPlan.get_constraints()` flattened and
sorted (nodes `SP`, `EP`, `s<i>`, `e<i>`; `-` = no bound; empty when inconsistent); `back` = the plan
returned by `convert_to(TIME_TRIGGERED_PLAN)` sorted by instance (empty when inconsistent).
`(tr ok)` is a constant: the harness puts there its check of networkx' transitive reduction.
`(mismatch adj-out-of-range)` is answered when the adjacency list refers to events the model does not have.

Fuel for the DeltaSTN: `(E+2)·(A+2)²` pops per `add` (`E` nodes, `A` insertions), C25's bound.
-/
namespace UPVerif.Drv.C26
open UPVerif UPVerif.STN UPVerif.PlanConv

def parseRat (s : String) : Option Rat :=
  match s.splitOn "/" with
  | [n] => n.toInt?.map fun z => (z : Rat)
  | [n, d] => do
    let z ← n.toInt?
    let k ← d.toNat?
    if k = 0 then none else some (mkRat z k)
  | _ => none

def ratOut (r : Rat) : String :=
  if r.den = 1 then toString r.num else toString r.num ++ "/" ++ toString r.den

def parseTiming : Sexp → Option Timing
  | .list [.atom "S", .atom d] => (parseRat d).map fun r => { fromStart := true, delay := r }
  | .list [.atom "E", .atom d] => (parseRat d).map fun r => { fromStart := false, delay := r }
  | _ => none

def parseInterval : Sexp → Option Interval
  | .list [l, u, lo, ro] => do
    let l ← parseTiming l
    let u ← parseTiming u
    let lo ← lo.asBool?
    let ro ← ro.asBool?
    some { lower := l, upper := u, lopen := lo, ropen := ro }
  | _ => none

def parseShape : Sexp → Sexp → Option Shape
  | .list (.atom "effs" :: es), .list (.atom "conds" :: cs) => do
    let es ← es.mapM parseTiming
    let cs ← cs.mapM parseInterval
    some { effs := es, conds := cs }
  | _, _ => none

def parseEntry : Sexp → Option (Entry × String)
  | .list [.atom st, .atom "-", .atom name] => (parseRat st).map fun s => ({ start := s, dur := none }, name)
  | .list [.atom st, .atom du, .atom name, effs, conds] => do
    let s ← parseRat st
    let d ← parseRat du
    let sh ← parseShape effs conds
    some ({ start := s, dur := some (d, sh) }, name)
  | _ => none

def parseAdj : Sexp → Option (Nat × List Nat)
  | .list (i :: js) => do
    let i ← i.asNat?
    let js ← js.mapM Sexp.asNat?
    some (i, js)
  | _ => none

def nodeOut : Node → String
  | .startPlan => "SP"
  | .endPlan => "EP"
  | .start i => "s" ++ toString i
  | .finish i => "e" ++ toString i

def optOut : Option Rat → String
  | none => "-"
  | some r => ratOut r

/-- lexicographic order on lists of strings (Python's list comparison) -/
def lexLt : List String → List String → Bool
  | [], [] => false
  | [], _ :: _ => true
  | _ :: _, [] => false
  | a :: r, b :: s => if a < b then true else if b < a then false else lexLt r s

def sortRows (l : List (List String)) : List (List String) := (l.toArray.qsort lexLt).toList

def dedupNodes (l : List Node) : List Node := l.foldl (fun acc x => if acc.contains x then acc else acc ++ [x]) []

def fuelFor (cs : List (Con Node)) : Nat :=
  let e := (dedupNodes (cs.flatMap fun c => [c.x, c.y])).length
  (e + 2) * (cs.length + 2) * (cs.length + 2)

def handle : Sexp → Sexp
  | .list [.atom "conv", .list [.atom "eps", .atom eps], .list [.atom "mock", meffs, mconds],
           .list (.atom "plan" :: es), adjS] =>
    match (if eps = "-" then some none else (parseRat eps).map some), parseShape meffs mconds, es.mapM parseEntry with
    | some eps, some mock, some ents =>
      match adjS with
      | .list [.atom "adj-unavailable"] => .list [.atom "no-adjacency"]
      | .list (.atom "adj" :: as) =>
        match as.mapM parseAdj with
        | none => .atom "bad-case"
        | some adj =>
          let inp : Input := { eps := eps, mock := mock, plan := ents.map (·.1), adj := adj }
          let names := ents.map (·.2)
          if !adjInRange inp then .list [.atom "mismatch", .atom "adj-out-of-range"]
          else
            let seq := (seqEvents inp).map fun e =>
              match e.gen with
              | none => "mockup_action"
              | some i => names.getD i "?"
            let cs := insertions inp
            match addAll (fuelFor cs) empty cs with
            | none => .atom "out-of-fuel"
            | some s =>
              let sat := isConsistent s
              let cons := if sat then
                  sortRows ((getPlanConstraints s).map fun (a, lb, ub, b) => [nodeOut a, optOut lb, optOut ub, nodeOut b])
                else []
              let back : Option (List (List String)) :=
                if sat then
                  (convertToTimeTriggered s).map fun l =>
                    let arr := l.toArray.qsort fun a b =>
                      a.2.1 < b.2.1 || (a.2.1 == b.2.1 && lexLt [ratOut a.1, optOut a.2.2] [ratOut b.1, optOut b.2.2])
                    arr.toList.map fun (st, i, du) => [ratOut st, toString i, optOut du]
                else some []
              .list [.atom "ok", Sexp.tag "seq" (seq.map .atom), Sexp.tag "tr" [.atom "ok"],
                     Sexp.tag "sat" [Sexp.ofBool sat], Sexp.tag "cons" (cons.map Sexp.ofStrs),
                     match back with
                     | some rows => Sexp.tag "back" (rows.map Sexp.ofStrs)
                     | none => Sexp.tag "back-error" [.atom "AssertionError"]]
      | _ => .atom "bad-case"
    | _, _, _ => .atom "bad-case"
  | _ => .atom "bad-case"

end UPVerif.Drv.C26
