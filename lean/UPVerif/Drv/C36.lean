import UPVerif.Core.Sexp
import UPVerif.Core.State
/-!
Line-protocol handler for C36: runs the executable model of `UPState` on one history.

case   ::= (hist (defaults (NAME VAL)…) (limits L L) (root ITEM…) (ops OP…))      L ::= none | NAT
ITEM   ::= ((NAME ARG…) VAL)
OP     ::= (child I (ITEM…)) | (get I (NAME ARG…)) | (hash I) | (eq I J) | (hasheq I J) | (repr I) | (shape I)
answer ::= reject | (ANS…)   one per op:
           (new K) | usage | (val V) | missing | ok | T | F | (items ITEM…) | (shape ANC DEPTH CACHED ITEM…)
Items are printed sorted.  `shape` peeks at the private fields without calling anything.
-/
namespace UPVerif.Drv.C36
open UPVerif UPVerif.State

def parseFExp : Sexp → Option FExp
  | .list (.atom n :: args) => do
    let as ← args.mapM Sexp.asAtom?
    some (n, as)
  | _ => none

def parseItem : Sexp → Option (FExp × Value)
  | .list [k, .atom v] => do
    let f ← parseFExp k
    some (f, v)
  | _ => none

def nodupKeysB : Dict → Bool
  | [] => true
  | (k, _) :: r => (dget r k).isNone && nodupKeysB r

/-- a Python dict literal: keys must be distinct -/
def parseDict (xs : List Sexp) : Option Dict := do
  let d ← xs.mapM parseItem
  if nodupKeysB d then some d else none

def parseLimit : Sexp → Option (Option Nat)
  | .atom "none" => some none
  | e => e.asNat?.map some

def parseDefault : Sexp → Option (String × Value)
  | .list [.atom n, .atom v] => some (n, v)
  | _ => none

def fexpOut (f : FExp) : Sexp := .list (.atom f.1 :: f.2.map .atom)
def itemOut (kv : FExp × Value) : Sexp := .list [fexpOut kv.1, .atom kv.2]

def itemsOut (d : Dict) : List Sexp :=
  let rendered := d.map (fun kv => let e := itemOut kv; (toString e, e))
  (rendered.toArray.qsort (fun a b => a.1 < b.1)).toList.map (·.2)

/-- run one op; `none` = ill-formed op (unknown object id, malformed) -/
def runOp (st : Store) (op : Sexp) : Option (Store × Sexp) :=
  let n := st.nodes.length
  match op with
  | .list [.atom "child", ei, .list items] => do
    let i ← ei.asNat?
    let u ← parseDict items
    if i < n then
      match exec st (.child i u) with
      | (st', .created k) => some (st', Sexp.tag "new" [Sexp.ofNat k])
      | (st', .usage) => some (st', .atom "usage")
      | _ => none
    else none
  | .list [.atom "get", ei, ef] => do
    let i ← ei.asNat?
    let f ← parseFExp ef
    if i < n then
      match exec st (.get i f) with
      | (st', .val v) => some (st', Sexp.tag "val" [.atom v])
      | (st', .missing) => some (st', .atom "missing")
      | _ => none
    else none
  | .list [.atom "hash", ei] => do
    let i ← ei.asNat?
    if i < n then some ((exec st (.hash i)).1, .atom "ok") else none
  | .list [.atom "eq", ei, ej] => do
    let i ← ei.asNat?
    let j ← ej.asNat?
    if i < n && j < n then
      match exec st (.eq i j) with
      | (st', .bool b) => some (st', Sexp.ofBool b)
      | _ => none
    else none
  | .list [.atom "hasheq", ei, ej] => do
    let i ← ei.asNat?
    let j ← ej.asNat?
    if i < n && j < n then
      match exec st (.hasheq i j) with
      | (st', .bool b) => some (st', Sexp.ofBool b)
      | _ => none
    else none
  | .list [.atom "repr", ei] => do
    let i ← ei.asNat?
    if i < n then
      match exec st (.repr i) with
      | (st', .items d) => some (st', Sexp.tag "items" (itemsOut d))
      | _ => none
    else none
  | .list [.atom "shape", ei] => do
    let i ← ei.asNat?
    let nd ← st.nodes[i]?
    some (st, Sexp.tag "shape" ([Sexp.ofNat nd.ancestors, Sexp.ofNat (chainOf st i).length,
                                 Sexp.ofBool nd.hash.isSome] ++ itemsOut nd.values))
  | _ => none

def runOps (st : Store) : List Sexp → List Sexp → Option (List Sexp)
  | [], acc => some acc.reverse
  | op :: rest, acc =>
    match runOp st op with
    | none => none
    | some (st', a) => runOps st' rest (a :: acc)

def handle : Sexp → Sexp
  | .list [.atom "hist", .list (.atom "defaults" :: ds), .list [.atom "limits", er, eb],
           .list (.atom "root" :: items), .list (.atom "ops" :: ops)] =>
    match ds.mapM parseDefault, parseLimit er, parseLimit eb, parseDict items with
    | some defaults, some rl, some bl, some vals =>
      if !(defaults.map (·.1)).Nodup then .atom "bad-case" else
      match mkRoot defaults rl bl vals with
      | none => .atom "reject"
      | some st =>
        match runOps st ops [] with
        | some answers => .list answers
        | none => .atom "bad-case"
    | _, _, _, _ => .atom "bad-case"
  | _ => .atom "bad-case"

end UPVerif.Drv.C36
