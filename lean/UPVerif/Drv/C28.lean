import UPVerif.Core.T2S
/-! line-protocol handler for C28: compiled-plan trajectory, back-converted `(start, duration)` list and the
    verdict of the temporal semantics, for one generated durative problem and one plan of its compilation -/
namespace UPVerif.Drv.C28
open UPVerif UPVerif.T2S

def ratS (q : Rat) : Sexp := .atom (ratToString q)

def stateOut (s : State) : Sexp := .list (s.map (fun kv => valToSexp kv.2))

def handle (e : Sexp) : Sexp :=
  match parseCase e with
  | none => .atom "bad-case"
  | some (P, steps) =>
    match groundPlan P steps with
    | none => .atom "bad-case"
    | some acts =>
      let pr := prefixRun P.init acts
      let pacts := pr.map (·.1)
      let final := (pr.map (·.2)).getLast?.getD P.init
      let stop : Sexp := if pr.length == acts.length then .atom "_" else Sexp.ofNat pr.length
      match backPlan P pacts with
      | none => .list [.atom "error", .atom "run"]
      | some plan =>
        let rows := (plan.zip pr).map (fun (en, (_, s)) =>
          Sexp.tag "step" [ratS en.t, (match en.dur with | none => .atom "_" | some d => ratS d), stateOut s])
        .list [Sexp.tag "steps" rows, Sexp.tag "stop" [stop],
               Sexp.tag "goal" [Sexp.ofBool (goalOf P final)],
               Sexp.tag "tt" [Sexp.ofBool (ttValid P.init (goalOf P) plan)]]

end UPVerif.Drv.C28
