import UPVerif.Core.TTSexp
import UPVerif.Drv.C04
/-!
Line-protocol handler of C05: one case = a temporal problem and a time-triggered plan

  (c05 <problem> <temporal> (plan (start name (obj*) dur|-)*))

Answer: the verdict of the model of `TimeTriggeredPlanValidator._validate`.
-/
namespace UPVerif.Drv.C05
open UPVerif UPVerif.Sim UPVerif.TT

def handle : Sexp → Sexp
  | .list [.atom "c05", ps, ts, pl] =>
    match parseProblem ps, parseTemporal ts with
    | some P, some T =>
      match parsePlan P T pl with
      | none => .atom "bad-case"
      | some π => verdictSexp (validate (Drv.C04.world P) T π)
    | _, _ => .atom "bad-case"
  | _ => .atom "bad-case"

end UPVerif.Drv.C05
