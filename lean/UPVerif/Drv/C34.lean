import UPVerif.Core.Sexp
import UPVerif.Core.Ordering
/-!
Line-protocol handler for C34: builds a task network from one case through the model's
`addSubtask` / `addConstraint` and prints what `partial_order()` / `total_order()` return.

Case shapes
* `(net (id …) (C …))` — subtasks, then constraints in insertion order, with
  `C ::= (lt A A) | (le A A) | (gt A A) | (ge A A) | (not C) | (and C C) | (or C C) | (true)` and
  `A ::= (tm K (c [name]) num den) | (int z)`, `K ∈ {GS, GE, S, E}`;
* `(rel n loops mask)` — subtasks `t0 … t(n-1)`, precedence `(ti, tj)` for every set bit of `mask`
  over the row-major list of pairs (`loops = 0`: pairs with `i ≠ j` only), added in bit order;
* `(relblock n lo hi)` — the loop-free relations `lo ≤ mask < hi`, one compact atom per mask.
-/
namespace UPVerif.Drv.C34
open UPVerif UPVerif.Ordering

def parseKind : Sexp → Option TPKind
  | .atom "GS" => some .globalStart
  | .atom "GE" => some .globalEnd
  | .atom "S" => some .start
  | .atom "E" => some .end_
  | _ => none

def parseArg : Sexp → Option TExpr
  | .list [.atom "tm", k, .list (.atom "c" :: cont), n, d] => do
    let kind ← parseKind k
    let container ← (match cont with
      | [] => some none
      | [.atom s] => some (some s)
      | _ => none)
    let num ← n.asInt?
    let den ← d.asNat?
    if den == 0 then none
    else some (.timing { kind := kind, container := container, delay := (num : Rat) / (den : Rat) })
  | .list [.atom "int", z] => do
    let v ← z.asInt?
    some (.int v)
  | _ => none

/-- constraints are built through the same smart constructors as the code's ExpressionManager -/
partial def parseC : Sexp → Option TExpr
  | .list [.atom "true"] => some .tru
  | .list [.atom "lt", a, b] => do some (.lt (← parseArg a) (← parseArg b))
  | .list [.atom "le", a, b] => do some (.le (← parseArg a) (← parseArg b))
  | .list [.atom "gt", a, b] => do some (mkGT (← parseArg a) (← parseArg b))
  | .list [.atom "ge", a, b] => do some (mkGE (← parseArg a) (← parseArg b))
  | .list [.atom "not", c] => do some (mkNot (← parseC c))
  | .list [.atom "and", a, b] => do some (.and (← parseC a) (← parseC b))
  | .list [.atom "or", a, b] => do some (.or (← parseC a) (← parseC b))
  | _ => none

def pairLt (a b : String × String) : Bool := a.1 < b.1 || (a.1 == b.1 && a.2 < b.2)
def sortPairs (l : List (String × String)) : List (String × String) := (l.toArray.qsort pairLt).toList

def answer (n : Network) : Sexp :=
  .list [
    Sexp.tag "po" [match n.partialOrder with
      | none => .atom "none"
      | some ps => .list ((sortPairs ps).map fun p => .list [.atom p.1, .atom p.2])],
    Sexp.tag "to" [match n.totalOrder with
      | none => .atom "none"
      | some o => Sexp.ofStrs o],
    Sexp.tag "nt" [Sexp.ofNat n.temporalConstraints.length],
    Sexp.tag "nc" [Sexp.ofNat n.constraints.length] ]

/-- `none` = a subtask identifier was rejected -/
def build (ids : List String) (cs : List TExpr) : Option Network := do
  let n ← ids.foldlM (fun (n : Network) id => n.addSubtask id) {}
  some (cs.foldl (fun n c => n.addConstraint c) n)

def taskName (i : Nat) : String := "t" ++ toString i

/-- row-major pairs over `0 … n-1`, with or without the diagonal -/
def pairsOf (n : Nat) (loops : Bool) : List (Nat × Nat) :=
  (List.range n).flatMap fun i => (List.range n).filterMap fun j =>
    if loops || i != j then some (i, j) else none

def relPairs (n : Nat) (loops : Bool) (mask : Nat) : List (Nat × Nat) :=
  ((pairsOf n loops).zipIdx.filter fun (_, k) => mask.testBit k).map (·.1)

def relNetwork (n : Nat) (loops : Bool) (mask : Nat) : Option Network :=
  build ((List.range n).map taskName)
    ((relPairs n loops mask).map fun (i, j) => precOf (taskName i, taskName j))

/-- compact answer for one mask of a block: `<po>/<to>`; `-` = None, `e` = empty list,
    po = `.`-joined sorted indices (into the pair list) of the returned precedences,
    to = concatenated task numbers -/
def blockAtom (n : Nat) (mask : Nat) : Option Sexp := do
  let net ← relNetwork n false mask
  let pairs := (pairsOf n false).map fun (i, j) => (taskName i, taskName j)
  let names := (List.range n).map taskName
  let po ← (match net.partialOrder with
    | none => some "-"
    | some [] => some "e"
    | some ps => do
      let idx ← ps.mapM fun p => (match pairs.idxOf? p with | some k => some k | none => none)
      some (".".intercalate ((idx.toArray.qsort (· < ·)).toList.map toString)))
  let to ← (match net.totalOrder with
    | none => some "-"
    | some [] => some "e"
    | some o => do
      let idx ← o.mapM fun t => names.idxOf? t
      some (String.join (idx.map toString)))
  some (.atom (po ++ "/" ++ to))

def handle : Sexp → Sexp
  | .list [.atom "net", ids, cs] =>
    match ids.asStrs?, cs.asList?.bind (fun l => l.mapM parseC) with
    | some ids, some cs =>
      match build ids cs with
      | some n => answer n
      | none => .atom "reject"
    | _, _ => .atom "bad-case"
  | .list [.atom "rel", n, loops, mask] =>
    match n.asNat?, loops.asNat?, mask.asNat? with
    | some n, some lp, some mask =>
      if lp > 1 || mask ≥ 2 ^ (pairsOf n (lp == 1)).length then .atom "bad-case"
      else match relNetwork n (lp == 1) mask with
        | some net => answer net
        | none => .atom "bad-case"
    | _, _, _ => .atom "bad-case"
  | .list [.atom "relblock", n, lo, hi] =>
    match n.asNat?, lo.asNat?, hi.asNat? with
    | some n, some lo, some hi =>
      if lo > hi || hi > 2 ^ (pairsOf n false).length then .atom "bad-case"
      else match ((List.range (hi - lo)).map (· + lo)).mapM (blockAtom n) with
        | some l => .list l
        | none => .atom "bad-case"
    | _, _, _ => .atom "bad-case"
  | _ => .atom "bad-case"

end UPVerif.Drv.C34
