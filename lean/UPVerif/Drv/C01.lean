import UPVerif.Core.Sexp
import UPVerif.Core.ExprSexp
import UPVerif.Core.Problem
import UPVerif.Core.Eval
import UPVerif.Core.Sim
import UPVerif.Core.Walkers.Simplify
/-!
Line-protocol handler shared by C01 and C02: runs the executable model of the sequential simulator
(`Core/Sim.lean`) on one case

  (sim <problem> (fn (ref (val*) val)*) (ops op*))
  op ::= (init) | (dump i) | (apply i action (obj*)) | (isapp i action (obj*)) | (applicable i)
       | (goal i) | (ugoals i)

State slot 0 is the initial state; the j-th op (1-based), when it is a successful `apply`, fills
slot j.  The answer is the list of the ops' answers.  The simplifier handed to `Sim.ground` is property
C11's verified model `simplify` (`Core/Walkers/Simplify.lean`) configured like `env.simplifier` (no
problem: no static fluents); should it fail (division of a constant by zero, missing table entry — both
outside the checked domain) a poison leaf is produced whose evaluation is the error `other`, so the
divergence from the code, which raises at grounding time, is visible and never a silent value.
-/
namespace UPVerif.Drv.C01
open UPVerif UPVerif.Sim

def parseFnTable (es : List Sexp) : Option (List (FunRef × List Val × Val)) :=
  es.mapM (fun e => match e with
    | .list [r, .list as, v] => do
      let (n, ty, sig) ← parseRef r
      let aa ← as.mapM parseVal
      let vv ← parseVal v
      some (({ name := n, ty := ty, sig := sig } : FunRef), aa, vv)
    | _ => none)

def fnOfTable (tab : List (FunRef × List Val × Val)) : FunRef → List Val → Option Val :=
  fun g as => (tab.find? (fun e => e.1 == g && e.2.1 == as)).map (·.2.2)

/-- the constant the library builds from the value an interpreted function returns -/
def valExpr (ty : Ty) : Val → Option Expr
  | .b x => some (Expr.bool x)
  | .n q => (match ty with
    | .int _ _ => if q.den = 1 then some (Expr.int q.num) else none
    | .real _ _ => some (Expr.real q)
    | _ => none)
  | .o n => (match ty with
    | .user t => some (.leaf (.obj n t))
    | _ => none)

/-- `problem.environment.simplifier` (the one `GrounderHelper(prune_actions=False)` and
    `FNode.simplify()` use): no problem, hence no static fluents and no initial values -/
def simpCfg (P : Problem) (tab : List (FunRef × List Val × Val)) : SimpCfg :=
  { tenv := P.types, statics := [], init := [], defaults := [],
    funs := tab.filterMap (fun e => (valExpr e.1.ty e.2.2).map (fun x => (e.1, e.2.1, x))) }

def simpTotal (cfg : SimpCfg) (e : Expr) : Expr :=
  match simplify cfg e with
  | .ok e' => e'
  | .error _ => .leaf (.timing "simplifier-raised")

/-- all ground fluents in canonical order: declaration order, arguments in `product` order -/
def allKeys (P : Problem) : List GKey :=
  P.fluents.flatMap (fun d => (cartesian (d.ref.sig.map (tyDomain P))).map (fun objs => (d.ref, objs.map Val.o)))

def dump (W : World) (s : SimState) : Sexp :=
  .list (.atom "state" :: (allKeys W.P).map (fun k => optValToSexp (s.get W.P k)))

def errSexp : EvalErr → Sexp
  | .missing => .list [.atom "raise", .atom "missing"]
  | .zeroDiv => .list [.atom "raise", .atom "zero-div"]
  | .other => .list [.atom "raise", .atom "other"]

def instSexp (ai : Action × List String) : Sexp := .list [.atom ai.1.name, Sexp.ofStrs ai.2]

def findInstance (W : World) (an : String) (args : List String) : Option (Action × List String) :=
  (allInstances W.P).find? (fun ai => ai.1.name == an && ai.2 == args)

/-- one op; returns the answer and the state created (if any); `none` = ill-formed op -/
def runOp (W : World) (slots : Array (Option SimState)) : Sexp → Option (Sexp × Option SimState)
  | .list [.atom "init"] =>
    match getInitialState W with
    | .error e => some (errSexp e, none)
    | .ok none => some (.atom "rejected", none)
    | .ok (some s) => some (dump W s, some s)
  | .list [.atom "dump", i] => do
    let n ← i.asNat?
    match slots[n]? with
    | some (some s) => some (dump W s, none)
    | _ => some (.atom "no-state", none)
  | .list [.atom "apply", i, .atom an, as] => do
    let n ← i.asNat?
    let args ← as.asStrs?
    let ai ← findInstance W an args
    match slots[n]? with
    | some (some s) =>
      match apply W s ai.1 ai.2 with
      | .error e => some (errSexp e, none)
      | .ok none => some (.atom "none", none)
      | .ok (some s') => some (dump W s', some s')
    | _ => some (.atom "no-state", none)
  | .list [.atom "isapp", i, .atom an, as] => do
    let n ← i.asNat?
    let args ← as.asStrs?
    let ai ← findInstance W an args
    match slots[n]? with
    | some (some s) =>
      match isApplicable W s ai.1 ai.2 with
      | .error e => some (errSexp e, none)
      | .ok b => some (Sexp.ofBool b, none)
    | _ => some (.atom "no-state", none)
  | .list [.atom "applicable", i] => do
    let n ← i.asNat?
    match slots[n]? with
    | some (some s) =>
      match applicableActions W s with
      | .error e => some (errSexp e, none)
      | .ok l => some (.list (l.map instSexp), none)
    | _ => some (.atom "no-state", none)
  | .list [.atom "goal", i] => do
    let n ← i.asNat?
    match slots[n]? with
    | some (some s) =>
      match isGoal W s with
      | .error e => some (errSexp e, none)
      | .ok b => some (Sexp.ofBool b, none)
    | _ => some (.atom "no-state", none)
  | .list [.atom "ugoals", i] => do
    let n ← i.asNat?
    match slots[n]? with
    | some (some s) =>
      match unsatisfiedGoals W s false with
      | .error e => some (errSexp e, none)
      | .ok l => some (.list (l.map Sexp.ofNat), none)
    | _ => some (.atom "no-state", none)
  | _ => none

def runOps (W : World) : List Sexp → Array (Option SimState) → List Sexp → Option (List Sexp)
  | [], _, out => some out.reverse
  | op :: ops, slots, out =>
    match runOp W slots op with
    | none => none
    | some (ans, st) => runOps W ops (slots.push st) (ans :: out)

def handle : Sexp → Sexp
  | .list [.atom "sim", ps, .list (.atom "fn" :: fns), .list (.atom "ops" :: ops)] =>
    match parseProblem ps, parseFnTable fns with
    | some P, some tab =>
      let W : World := { P := P, simp := simpTotal (simpCfg P tab), fn := fnOfTable tab }
      -- slot 0 = the initial state (when accepted and no exception escapes)
      let s0 : Option SimState := match getInitialState W with
        | .ok (some s) => some s
        | _ => none
      match runOps W ops #[s0] [] with
      | some l => .list l
      | none => .atom "bad-case"
    | _, _ => .atom "bad-case"
  | _ => .atom "bad-case"

end UPVerif.Drv.C01
