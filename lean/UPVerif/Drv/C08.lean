import UPVerif.Core.Sexp
import UPVerif.Core.Fresh
import UPVerif.Core.Result
import UPVerif.Core.WellFormed
import UPVerif.Core.Compile.Named
import UPVerif.Drv.C06
/-! line-protocol handler for C08: fresh-name requests, the grounder's naming, the CompilerResult table, the
    well-formedness judgement `WF.wfProblem` on a problem (`wf`), and the NAMED compiler models with the judgement,
    the back-map check and the target check on their output (`compile-model`) -/
namespace UPVerif.Drv.C08
open UPVerif UPVerif.Fresh UPVerif.Result UPVerif.Compile

/-- `(wf T _)` / `(wf F <first failing clause>)` -/
def wfSexp (P : Problem) : Sexp :=
  match WF.wfVerdict P with
  | none => Sexp.tag "wf" [Sexp.ofBool true, .atom "_"]
  | some c => Sexp.tag "wf" [Sexp.ofBool false, .atom c]

/-- the named compiler models: compiler name ↦ (model, target predicate) -/
def namedModel (simp : Expr → Expr) (comp : String) : Option ((Problem → Option Compiled) × (Problem → Bool)) :=
  if comp == "cer" then some (cerCompileN simp, WF.noCondEffects)
  else if comp == "dcr" then some (dcrCompileN simp (Expr.dnf simp), WF.noDisjunctions)
  else if comp == "sir" then some (sirCompileN simp, WF.noInvariants)
  else if comp == "btr" then some (btrCompileN simp, WF.noBoundedFluents)
  else if comp == "qr" then some (qrCompileN simp, WF.noQuantifiers)
  else none

/-- the answer of `compile-model`: the compiled problem in C06's canonical view, then the compiled actions in
    ORDER with their names and origins, the declared fluent names, the judgement, the back-map and target checks -/
def modelSexp (P : Problem) (c : Compiled) (target : Problem → Bool) : Sexp :=
  let origin : Option Nat → String := fun b => match b with
    | none => "_"
    | some i => match P.actions[i]? with
      | some oa => oa.name
      | none => "?"
  match Drv.C06.compiledSexp P c with
  | .list xs =>
    .list (xs ++ [
      Sexp.tag "names" ((c.prob.actions.zip c.back).map (fun ab => Sexp.ofStrs [ab.1.name, origin ab.2])),
      Sexp.tag "fluents" (c.prob.fluents.map (fun d => .atom d.ref.name)),
      wfSexp c.prob,
      Sexp.tag "back-ok" [Sexp.ofBool (WF.backOK P.actions.length c.prob.actions c.back)],
      Sexp.tag "target" [Sexp.ofBool (target c.prob)]])
  | x => x

def nodup (l : List String) : Bool := decide l.Nodup

def parseReq : Sexp → Option Req
  | .list [.atom "req", .atom base, ps, t] => do
    let params ← ps.asStrs?
    let trailing ← (match t with
      | .list [.atom "none"] => some none
      | .list [.atom "some", .atom s] => some (some s)
      | _ => none)
    some ⟨base, params, trailing⟩
  | _ => none

def parseInit : Sexp → Option String
  | .list [.atom k, .atom n] =>
    if k == "fluent" || k == "object" || k == "action" || k == "type" then some n else none
  | _ => none

def parseInst : Sexp → Option Inst
  | .list (.atom "inst" :: s :: args) => do
    let sv ← s.asBool?
    let as ← args.mapM Sexp.asAtom?
    some ⟨sv, as⟩
  | _ => none

def parseGAct : Sexp → Option GAct
  | .list [.atom "a", .atom name, .list insts] => do
    let is ← insts.mapM parseInst
    some ⟨name, is⟩
  | _ => none

/-- the action map-back of a `result` case: a finite table, total on the plan's names by construction of the
    cases; a name outside the table makes the case ill-formed -/
def parseMap : List Sexp → Option (List (String × Option String))
  | [] => some []
  | .list [.atom n, .atom "drop"] :: rest => (parseMap rest).map ((n, none) :: ·)
  | .list [.atom n, .list [.atom "to", .atom m]] :: rest => (parseMap rest).map ((n, some m) :: ·)
  | _ => none

def backOut : Option (List String) → Sexp
  | none => .atom "no-back-conversion"
  | some p => Sexp.tag "back" (p.map .atom)

def handleResult (pb : Bool) (table : Option (List (String × Option String))) (bk : Option (List String → List String))
    (plan : List String) : Sexp :=
  -- names of the plan that the table does not cover: ill-formed case
  match table with
  | some t => if plan.any (fun n => (t.lookup n).isNone) then .atom "bad-case" else go
  | none => go
where
  go : Sexp :=
    let raw : Raw String String :=
      { hasProblem := pb,
        mapBack := table.map (fun t n => (t.lookup n).getD none),
        planBack := bk }
    match postInit raw with
    | .error _ => Sexp.tag "error" [.atom "usage"]
    | .ok r => Sexp.tag "ok" [backOut (r.planBack.map (· plan))]

def handle : Sexp → Sexp
  | .list [.atom "fresh", .list (.atom "init" :: init), .list (.atom "reqs" :: reqs)] =>
    match init.mapM parseInit, reqs.mapM parseReq with
    | some names, some rs =>
      if !nodup names then .atom "bad-case"
      else
        let (chosen, final) := runCurrent names rs
        Sexp.tag "names" (chosen.map .atom ++ [Sexp.tag "unique" [Sexp.ofBool (nodup final)]])
    | _, _ => .atom "bad-case"
  | .list [.atom "ground-names", .list (.atom "names" :: ns), .list (.atom "actions" :: as)] =>
    match ns.mapM Sexp.asAtom?, as.mapM parseGAct with
    | some names, some acts =>
      let out := groundNames names acts
      let actNames := acts.map (·.name)
      let other := names.filter (fun n => !actNames.contains n)
      Sexp.tag "acts" (out.map (fun (n, o, args) => Sexp.ofStrs (n :: o :: args))
        ++ [Sexp.tag "unique" [Sexp.ofBool (nodup (other ++ out.map (·.1)))]])
    | _, _ => .atom "bad-case"
  | .list [.atom "declared", .list (.atom "names" :: ns), .list (.atom "orig" :: os)] =>
    match ns.mapM Sexp.asAtom?, os.mapM Sexp.asAtom? with
    | some names, some orig =>
      Sexp.tag "unique" [Sexp.ofBool (nodup names),
        Sexp.tag "new" [Sexp.ofNat (names.filter (fun n => !orig.contains n)).length]]
    | _, _ => .atom "bad-case"
  | .list [.atom "skip", .atom st] => Sexp.tag "skip" [.atom st]
  | .list [.atom "wf", ps] =>
    match parseProblem ps with
    | none => .atom "bad-case"
    | some P => wfSexp P
  | .list [.atom "compile-model", .atom comp, ps] =>
    match parseProblem ps with
    | none => .atom "bad-case"
    | some P =>
      match namedModel (Drv.C06.simpTotal (SimpCfg.empty P.types)) comp with
      | none => .atom "bad-case"
      | some (model, target) =>
        match model P with
        | none => .list [.atom "raised"]
        | some c => modelSexp P c target
  | .list [.atom "result", .atom pb, mb, .atom bk, .list (.atom "plan" :: plan)] =>
    let pbv : Option Bool := if pb == "problem" then some true else if pb == "none" then some false else none
    let table : Option (Option (List (String × Option String))) :=
      match mb with
      | .atom "none" => some none
      | .list (.atom "map" :: es) => (parseMap es).map some
      | _ => none
    let bkv : Option (Option (List String → List String)) :=
      if bk == "none" then some none else if bk == "rev" then some (some List.reverse)
      else if bk == "id" then some (some id) else none
    match pbv, table, bkv, plan.mapM Sexp.asAtom? with
    | some p, some t, some b, some pl => handleResult p t b pl
    | _, _, _, _ => .atom "bad-case"
  | _ => .atom "bad-case"

end UPVerif.Drv.C08
