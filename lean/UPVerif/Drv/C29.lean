import UPVerif.Core.Sexp
import UPVerif.Core.D2PPlan
/-!
line-protocol handler for C29: runs the model of the durative-to-processes plan conversions.

case     ::= (case (sfl SF*) (acts ACT*) OP)
SF       ::= (NAME DEFAULT (ARGS VALUE)*)            DEFAULT ::= none | RAT ; ARGS ::= (PVAL*)
ACT      ::= (inst NAME PARAMS) | (dur NAME PARAMS DEXPR DEXPR BOOL BOOL ((TIMING TIMING)*) (TIMING*))
             PARAMS is for the Python side only; then duration lower/upper, left/right open, the condition intervals
             and the effect timings, each in insertion order (flattened here as `chain(conditions, effects)` does)
TIMING   ::= (s RAT) | (e RAT)
DEXPR    ::= (i INT) | (r RAT) | (p NAT) | (sf NAME NAT*) | (+ D D) | (- D D) | (* D D) | (/ D D)
PVAL     ::= (i INT) | (r RAT) | (o NAME) | (b BOOL)
OP       ::= (fwd TA*)      answer ((fwd R) (back R'))   R' = back conversion of the forward result (`skip` if R is an error)
           | (back CA*)     answer ((back R))
TA       ::= (ta RAT NAME (PVAL*) RAT|none)
CA       ::= (ca RAT start|end|other NAME (PVAL*))
-/
namespace UPVerif.Drv.C29
open UPVerif UPVerif.D2P

def parseRat (s : String) : Option Rat :=
  match s.splitOn "/" with
  | [n] => n.toInt?.map (fun z => (z : Rat))
  | [n, d] =>
    match n.toInt?, d.toNat? with
    | some z, some m => if m = 0 then none else some ((z : Rat) / (m : Rat))
    | _, _ => none
  | _ => none

def ratStr (q : Rat) : String :=
  if q.den = 1 then toString q.num else s!"{q.num}/{q.den}"

def asRat? (e : Sexp) : Option Rat := e.asAtom?.bind parseRat

def parsePVal : Sexp → Option PVal
  | .list [.atom "i", z] => z.asInt?.map PVal.int
  | .list [.atom "r", q] => (asRat? q).map PVal.real
  | .list [.atom "o", .atom n] => some (.obj n)
  | .list [.atom "b", b] => b.asBool?.map PVal.bool
  | _ => none

def pvalOut : PVal → Sexp
  | .int z => .list [.atom "i", Sexp.ofInt z]
  | .real q => .list [.atom "r", .atom (ratStr q)]
  | .obj n => .list [.atom "o", .atom n]
  | .bool b => .list [.atom "b", Sexp.ofBool b]

def parsePVals (e : Sexp) : Option (List PVal) := do
  let xs ← e.asList?
  xs.mapM parsePVal

partial def parseDExpr : Sexp → Option DExpr
  | .list [.atom "i", z] => z.asInt?.map DExpr.intC
  | .list [.atom "r", q] => (asRat? q).map DExpr.realC
  | .list [.atom "p", n] => n.asNat?.map DExpr.param
  | .list (.atom "sf" :: .atom f :: args) => (args.mapM Sexp.asNat?).map (DExpr.sfl f)
  | .list [.atom "+", a, b] => do some (.plus (← parseDExpr a) (← parseDExpr b))
  | .list [.atom "-", a, b] => do some (.minus (← parseDExpr a) (← parseDExpr b))
  | .list [.atom "*", a, b] => do some (.times (← parseDExpr a) (← parseDExpr b))
  | .list [.atom "/", a, b] => do some (.div (← parseDExpr a) (← parseDExpr b))
  | _ => none

def parseTiming : Sexp → Option Timing
  | .list [.atom "s", q] => (asRat? q).map (fun d => ⟨false, d⟩)
  | .list [.atom "e", q] => (asRat? q).map (fun d => ⟨true, d⟩)
  | _ => none

def parseInterval : Sexp → Option (List Timing)
  | .list [a, b] => do some [← parseTiming a, ← parseTiming b]
  | _ => none

def parseEntry : Sexp → Option (List PVal × Rat)
  | .list [args, v] => do some (← parsePVals args, ← asRat? v)
  | _ => none

def parseSF : Sexp → Option SFluent
  | .list (.atom name :: dflt :: entries) => do
    let d ← (match dflt with
      | .atom "none" => some none
      | e => (asRat? e).map some)
    let es ← entries.mapM parseEntry
    some { name := name, default := d, entries := es }
  | _ => none

def parseAct : Sexp → Option ADecl
  | .list [.atom "inst", .atom n, _] => some ⟨n, .inst⟩
  | .list [.atom "dur", .atom n, _, lo, hi, lopen, ropen, .list conds, .list effs] => do
    let l ← parseDExpr lo
    let h ← parseDExpr hi
    let lo' ← lopen.asBool?
    let ro' ← ropen.asBool?
    let cs ← conds.mapM parseInterval
    let es ← effs.mapM parseTiming
    let tms := cs.flatten ++ es
    -- the supported kind excludes end-relative timings after the end and start-relative ones before the start
    if tms.any (fun t => if t.fromEnd then decide (0 < t.delay) else decide (t.delay < 0)) then none
    else some ⟨n, .dur l h lo' ro' tms⟩
  | _ => none

def parseTA : Sexp → Option TA
  | .list [.atom "ta", t, .atom n, ps, d] => do
    let t' ← asRat? t
    let ps' ← parsePVals ps
    let d' ← (match d with
      | .atom "none" => some none
      | e => (asRat? e).map some)
    some ⟨t', n, ps', d'⟩
  | _ => none

def parseCA : Sexp → Option CA
  | .list [.atom "ca", t, .atom role, .atom n, ps] => do
    let t' ← asRat? t
    let ps' ← parsePVals ps
    let a ← (match role with
      | "start" => some (CAct.start n)
      | "end" => some (CAct.fend n)
      | "other" => some (CAct.other n)
      | _ => none)
    some ⟨t', a, ps'⟩
  | _ => none

def errOut : Err → Sexp
  | .key => .list [.atom "err", .atom "key"]
  | .assertion => .list [.atom "err", .atom "assert"]
  | .value => .list [.atom "err", .atom "value"]
  | .index => .list [.atom "err", .atom "index"]

def caOut (c : CA) : Sexp :=
  let (role, n) := match c.act with
    | .start n => ("start", n)
    | .fend n => ("end", n)
    | .other n => ("other", n)
  .list [.atom "ca", .atom (ratStr c.t), .atom role, .atom n, .list (c.ps.map pvalOut)]

def taOut (x : TA) : Sexp :=
  .list [.atom "ta", .atom (ratStr x.t), .atom x.act, .list (x.ps.map pvalOut),
         match x.dur with | none => .atom "none" | some d => .atom (ratStr d)]

def fwdOut : Except Err (List CA) → Sexp
  | .error e => errOut e
  | .ok cs => .list (.atom "ok" :: cs.map caOut)

def backOut : Except Err (List TA) → Sexp
  | .error e => errOut e
  | .ok xs => .list (.atom "ok" :: xs.map taOut)

def distinctNames (as : List ADecl) : Bool :=
  match as with
  | [] => true
  | a :: r => !(r.any (fun b => b.name == a.name)) && distinctNames r

def handle : Sexp → Sexp
  | .list [.atom "case", .list (.atom "sfl" :: sfs), .list (.atom "acts" :: acts), op] =>
    match sfs.mapM parseSF, acts.mapM parseAct with
    | some S, some A =>
      if !(distinctNames A) then .atom "bad-case" else
      let P : Problem := ⟨S, A⟩
      match op with
      | .list (.atom "fwd" :: tas) =>
        match tas.mapM parseTA with
        | none => .atom "bad-case"
        | some π =>
          let f := forward P π
          let b : Sexp := match f with
            | .error _ => .atom "skip"
            | .ok cs => backOut (back P cs)
          .list [Sexp.tag "fwd" [fwdOut f], Sexp.tag "back" [b]]
      | .list (.atom "back" :: cas) =>
        match cas.mapM parseCA with
        | none => .atom "bad-case"
        | some cs => .list [Sexp.tag "back" [backOut (back P cs)]]
      | _ => .atom "bad-case"
    | _, _ => .atom "bad-case"
  | _ => .atom "bad-case"

end UPVerif.Drv.C29
