import UPVerif.Core.ExprSexp
import UPVerif.Core.Walkers.Linear
import UPVerif.Drv.C11
/-! line-protocol handler for C17: `(lin <types> <objects> <problem|none> <expr>)` →
    `(ok T|F (<positive fluent exprs>) (<negative fluent exprs>))` | `(err <tag>)`.
    The two lists are duplicate-free and in the model's order; the harness sorts both sides. -/
namespace UPVerif.Drv.C17
open UPVerif

def errTag : LinErr → String
  | .simp e => "simp:" ++ Drv.C11.errTag e
  | .type => "type"
  | .arity => "arity"

def handle : Sexp → Sexp
  | .list [.atom "lin", tys, .list (.atom "objects" :: _), prob, e] =>
    match parseTypeEnv tys, Drv.C11.parseProblem prob, parseExpr e with
    | some E, some (st, ini, dfl), some x =>
      if !Drv.C11.wfInput x then .atom "bad-case"
      else
        let cfg : SimpCfg := { tenv := E, statics := st, init := ini, defaults := dfl, funs := [] }
        match linear cfg x with
        | .ok r => .list [.atom "ok", Sexp.ofBool r.lin, .list (r.pos.map exprToSexp), .list (r.neg.map exprToSexp)]
        | .error err => .list [.atom "err", .atom (errTag err)]
    | _, _, _ => .atom "bad-case"
  | _ => .atom "bad-case"

end UPVerif.Drv.C17
