import UPVerif.Core.ExprSexp
import UPVerif.Core.Walkers.Simplify
/-! line-protocol handler for C11: `(simp <types> <objects> <problem|none> <funs> <expr>)` →
    `(ok <simplified expr>)` | `(err <tag>)` -/
namespace UPVerif.Drv.C11
open UPVerif

def parseFluentRef (s : Sexp) : Option FluentRef :=
  (parseRef s).map (fun (n, ty, sig) => { name := n, ty := ty, sig := sig })

def parseFunRef (s : Sexp) : Option FunRef :=
  (parseRef s).map (fun (n, ty, sig) => { name := n, ty := ty, sig := sig })

/-- `(problem (fluents (ref default|_ static|dynamic)*) (init (fexp const)*))` -/
def parseProblem : Sexp → Option (List FluentRef × List (Expr × Expr) × List (FluentRef × Expr))
  | .atom "none" => some ([], [], [])
  | .list [.atom "problem", .list (.atom "fluents" :: fls), .list (.atom "init" :: ini)] => do
    let fs ← fls.mapM (fun e => match e with
      | .list [r, d, .atom flag] => do
        let f ← parseFluentRef r
        let dv ← (match d with
          | .atom "_" => some none
          | x => (parseExpr x).map some)
        if flag == "static" then some (f, dv, true) else if flag == "dynamic" then some (f, dv, false) else none
      | _ => none)
    let iv ← ini.mapM (fun e => match e with
      | .list [k, v] => do
        let ke ← parseExpr k
        let ve ← parseExpr v
        some (ke, ve)
      | _ => none)
    some ((fs.filter (·.2.2)).map (·.1), iv, fs.filterMap (fun (f, d, _) => d.map (fun x => (f, x))))
  | _ => none

def parseFuns : Sexp → Option (List (FunRef × List Val × Expr))
  | .list (.atom "funs" :: es) => es.mapM (fun e => match e with
      | .list [r, .list as, v] => do
        let g ← parseFunRef r
        let aa ← as.mapM parseVal
        let vv ← parseExpr v
        some (g, aa, vv)
      | _ => none)
  | _ => none

mutual
/-- assumptions of the check: quantified variables have user types, binder lists are duplicate-free -/
def wfInput : Expr → Bool
  | .leaf _ => true
  | .app _ args => wfInputList args
  | .quant _ vs b => vs.all (fun v => match v.ty with | .user _ => true | _ => false) && vs.eraseDups.length == vs.length
      && !vs.isEmpty && wfInput b
def wfInputList : List Expr → Bool
  | [] => true
  | e :: es => wfInput e && wfInputList es
end

def errTag : SimpErr → String
  | .zeroDiv => "zero-div"
  | .ifunUndefined => "ifun-undefined"
  | .malformed => "assertion"
  | .fuel => "fuel"

def handle : Sexp → Sexp
  | .list [.atom "simp", tys, .list (.atom "objects" :: _), prob, funs, e] =>
    match parseTypeEnv tys, parseProblem prob, parseFuns funs, parseExpr e with
    | some E, some (st, ini, dfl), some fn, some x =>
      if !wfInput x then .atom "bad-case"
      else
        let cfg : SimpCfg := { tenv := E, statics := st, init := ini, defaults := dfl, funs := fn }
        match simplify cfg x with
        | .ok r => .list [.atom "ok", exprToSexp r]
        | .error err => .list [.atom "err", .atom (errTag err)]
    | _, _, _, _ => .atom "bad-case"
  | _ => .atom "bad-case"

end UPVerif.Drv.C11
