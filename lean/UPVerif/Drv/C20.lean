import UPVerif.Core.Sexp
import UPVerif.Core.ExprSexp
import UPVerif.Core.Proto
/-! line-protocol handler for C20: runs the executable writer/reader model on one case

  case ::= (ty (name*) TY) | (tystr (name*) "string")
         | (real Q) | (timing TM) | (interval TI)
         | (expr CTX E) | (effect CTX EFF) | (action CTX ACT) | (problem P)
         | (rt …)                                   oracle-only (end-to-end on the real code)
  TM   ::= (tm KIND (c name?) Q)        KIND ::= global_start | global_end | start | end
  TI   ::= (ti TM TM lopen ropen)
  E    ::= shared expression grammar (Core/ExprSexp.lean) without ifun/dot, plus (tm …) and (present name)
  EFF  ::= (eff assign|increase|decrease E E E ((name TY)*))
  ACT  ::= (action name ((name TY)*) (pre E*) (effs EFF*))
         | (daction name ((name TY)*) (dur E E lopen ropen) (conds (TI E*)*) (effs (TM EFF*)*))
  CTX  ::= (ctx (types (name father|_)*) (objects (name type)*) (fluents (name TY (TY*))*))
  P    ::= (problem name|(none) (types (name father|_)*) (objects (name type)*) (fluents ((name TY (TY*)) E|_)*)
                    (init (E E)*) (actions ACT*) (goals E*) (tgoals (TI E*)*) (teffs (TM EFF*)*) (eps Q|_) (flags dt so))
-/
namespace UPVerif.Drv.C20
open UPVerif UPVerif.Proto Sexp

/-! ### parsing -/
def parseTPKind : Sexp → Option TPKind
  | .atom "global_start" => some .globalStart
  | .atom "global_end" => some .globalEnd
  | .atom "start" => some .start
  | .atom "end" => some .end_
  | _ => none

def parseTiming : Sexp → Option Timing
  | .list [.atom "tm", k, .list (.atom "c" :: c), .atom q] => do
    let kind ← parseTPKind k
    let cont ← (match c with
      | [] => some none
      | [.atom n] => some (some n)
      | _ => none)
    let d ← parseRat q
    some { delay := d, tp := { kind := kind, container := cont } }
  | _ => none

def parseInterval : Sexp → Option TimeInterval
  | .list [.atom "ti", l, u, lo, ro] => do
    let a ← parseTiming l
    let b ← parseTiming u
    let x ← lo.asBool?
    let y ← ro.asBool?
    some { lower := a, upper := b, lopen := x, ropen := y }
  | _ => none

def parseOp : String → Option OpK
  | "and" => some .and | "or" => some .or | "not" => some .not | "implies" => some .implies
  | "iff" => some .iff | "plus" => some .plus | "minus" => some .minus | "times" => some .times
  | "div" => some .div | "le" => some .le | "lt" => some .lt | "eq" => some .equals
  | "always" => some .always | "sometime" => some .sometime
  | "sometime-before" => some .sometimeBefore | "sometime-after" => some .sometimeAfter
  | "at-most-once" => some .atMostOnce | _ => none

partial def parseUExpr : Sexp → Option UExpr
  | .list [.atom "b", v] => v.asBool?.map UExpr.boolC
  | .list [.atom "i", .atom z] => z.toInt?.map UExpr.intC
  | .list [.atom "r", .atom q] => (parseRat q).map UExpr.realC
  | .list [.atom "o", .atom n, .atom t] => some (.obj n t)
  | .list [.atom "p", .atom n, t] => (parseTy t).map (fun ty => .param n ty)
  | .list [.atom "v", .atom n, t] => (parseTy t).map (fun ty => .var { name := n, ty := ty })
  | .list [.atom "present", .atom c] => some (.present c)
  | .list (.atom "tm" :: r) => (parseTiming (.list (.atom "tm" :: r))).map .timing
  | .list (.atom "fl" :: r :: args) => do
    let (n, ty, sig) ← parseRef r
    let as ← args.mapM parseUExpr
    some (.fluent { name := n, ty := ty, sig := sig } as)
  | .list [.atom "exists", .list vs, e] => do
    let vars ← vs.mapM parseVar
    let b ← parseUExpr e
    some (.quant .ex vars b)
  | .list [.atom "forall", .list vs, e] => do
    let vars ← vs.mapM parseVar
    let b ← parseUExpr e
    some (.quant .all vars b)
  | .list (.atom o :: args) => do
    let op ← parseOp o
    let as ← args.mapM parseUExpr
    some (.op op as)
  | _ => none

def parseCtx : Sexp → Option Ctx
  | .list [.atom "ctx", .list (.atom "types" :: ts), .list (.atom "objects" :: os), .list (.atom "fluents" :: fs)] => do
    let types ← ts.mapM (fun e => match e with
      | .list [.atom n, .atom _] => some n
      | _ => none)
    let objs ← os.mapM (fun e => match e with
      | .list [.atom n, .atom t] => some (n, t)
      | _ => none)
    let fls ← fs.mapM (fun e => (parseRef e).map (fun r => ({ name := r.1, ty := r.2.1, sig := r.2.2 } : FluentRef)))
    some { types := types, objects := objs, fluents := fls }
  | _ => none

def parseEffKind : Sexp → Option EffKind
  | .atom "assign" => some .assign
  | .atom "increase" => some .increase
  | .atom "decrease" => some .decrease
  | _ => none

def parseEffect : Sexp → Option Effect
  | .list [.atom "eff", k, f, v, c, .list vs] => do
    let kind ← parseEffKind k
    let fe ← parseUExpr f
    let ve ← parseUExpr v
    let ce ← parseUExpr c
    let vars ← vs.mapM parseVar
    some { kind := kind, fluent := fe, value := ve, cond := ce, forall_ := vars }
  | _ => none

def parseParams (ps : List Sexp) : Option (List Param) :=
  ps.mapM (fun e => match e with
    | .list [.atom n, t] => (parseTy t).map (fun ty => ({ name := n, ty := ty } : Param))
    | _ => none)

def parseAction : Sexp → Option Action
  | .list [.atom "action", .atom name, .list ps, .list (.atom "pre" :: pre), .list (.atom "effs" :: effs)] => do
    let params ← parseParams ps
    let cs ← pre.mapM parseUExpr
    let es ← effs.mapM parseEffect
    some (.inst name params cs es)
  | .list [.atom "daction", .atom name, .list ps, .list [.atom "dur", lo, hi, lop, rop],
           .list (.atom "conds" :: conds), .list (.atom "effs" :: effs)] => do
    let params ← parseParams ps
    let l ← parseUExpr lo
    let u ← parseUExpr hi
    let x ← lop.asBool?
    let y ← rop.asBool?
    let cs ← conds.mapM (fun e => match e with
      | .list (i :: es) => do
        let ti ← parseInterval i
        let xs ← es.mapM parseUExpr
        some (ti, xs)
      | _ => none)
    let es ← effs.mapM (fun e => match e with
      | .list (t :: es) => do
        let tm ← parseTiming t
        let xs ← es.mapM parseEffect
        some (tm, xs)
      | _ => none)
    some (.dur name params { lower := l, upper := u, lopen := x, ropen := y } cs es)
  | _ => none

def parseProblem : Sexp → Option Problem
  | .list [.atom "problem", nm, .list (.atom "types" :: ts), .list (.atom "objects" :: os),
           .list (.atom "fluents" :: fs), .list (.atom "init" :: ini), .list (.atom "actions" :: acts),
           .list (.atom "goals" :: gs), .list (.atom "tgoals" :: tgs), .list (.atom "teffs" :: tes),
           .list [.atom "eps", eps], .list [.atom "flags", dt, so]] => do
    let name ← (match nm with
      | .list [.atom "none"] => some none
      | .atom n => some (some n)
      | _ => none)
    let types ← ts.mapM (fun e => match e with
      | .list [.atom n, .atom "_"] => some (n, none)
      | .list [.atom n, .atom f] => some (n, some f)
      | _ => none)
    let objs ← os.mapM (fun e => match e with
      | .list [.atom n, .atom t] => some (n, t)
      | _ => none)
    let fls ← fs.mapM (fun e => match e with
      | .list [r, d] => do
        let rr ← parseRef r
        let dv ← (match d with
          | .atom "_" => some none
          | x => (parseUExpr x).map some)
        some (({ name := rr.1, ty := rr.2.1, sig := rr.2.2 } : FluentRef), dv)
      | _ => none)
    let init ← ini.mapM (fun e => match e with
      | .list [f, v] => do
        let a ← parseUExpr f
        let b ← parseUExpr v
        some (a, b)
      | _ => none)
    let actions ← acts.mapM parseAction
    let goals ← gs.mapM parseUExpr
    let tgoals ← tgs.mapM (fun e => match e with
      | .list (i :: es) => do
        let ti ← parseInterval i
        let xs ← es.mapM parseUExpr
        some (ti, xs)
      | _ => none)
    let teffs ← tes.mapM (fun e => match e with
      | .list (t :: es) => do
        let tm ← parseTiming t
        let xs ← es.mapM parseEffect
        some (tm, xs)
      | _ => none)
    let epsilon ← (match eps with
      | .atom "_" => some none
      | .atom q => (parseRat q).map some
      | _ => none)
    let d ← dt.asBool?
    let s ← so.asBool?
    some { name := name, types := types, objects := objs, fluents := fls, actions := actions, init := init,
           timedEffects := teffs, goals := goals, timedGoals := tgoals, epsilon := epsilon,
           discreteTime := d, selfOverlapping := s }
  | _ => none

/-! ### printing: source objects -/
def tpKindS : TPKind → Sexp
  | .globalStart => .atom "global_start" | .globalEnd => .atom "global_end"
  | .start => .atom "start" | .end_ => .atom "end"

def timingS (t : Timing) : Sexp :=
  .list [.atom "tm", tpKindS t.tp.kind,
         .list (.atom "c" :: (match t.tp.container with | none => [] | some c => [.atom c])),
         .atom (ratToString t.delay)]

def intervalS (i : TimeInterval) : Sexp :=
  .list [.atom "ti", timingS i.lower, timingS i.upper, ofBool i.lopen, ofBool i.ropen]

def opS : OpK → String
  | .and => "and" | .or => "or" | .not => "not" | .implies => "implies" | .iff => "iff"
  | .plus => "plus" | .minus => "minus" | .times => "times" | .div => "div"
  | .le => "le" | .lt => "lt" | .equals => "eq"
  | .always => "always" | .sometime => "sometime" | .sometimeBefore => "sometime-before"
  | .sometimeAfter => "sometime-after" | .atMostOnce => "at-most-once"

partial def uexprS : UExpr → Sexp
  | .boolC b => .list [.atom "b", ofBool b]
  | .intC z => .list [.atom "i", ofInt z]
  | .realC r => .list [.atom "r", .atom (ratToString r)]
  | .obj n t => .list [.atom "o", .atom n, .atom t]
  | .param n t => .list [.atom "p", .atom n, tyToSexp t]
  | .var v => .list [.atom "v", .atom v.name, tyToSexp v.ty]
  | .timing t => timingS t
  | .present c => .list [.atom "present", .atom c]
  | .fluent f as => .list (.atom "fl" :: refToSexp f.name f.ty f.sig :: as.map uexprS)
  | .op o as => .list (.atom (opS o) :: as.map uexprS)
  | .quant .ex vs b => .list [.atom "exists", .list (vs.map varToSexp), uexprS b]
  | .quant .all vs b => .list [.atom "forall", .list (vs.map varToSexp), uexprS b]

def effKindS : EffKind → Sexp
  | .assign => .atom "assign" | .increase => .atom "increase" | .decrease => .atom "decrease"

def effectS (e : Effect) : Sexp :=
  .list [.atom "eff", effKindS e.kind, uexprS e.fluent, uexprS e.value, uexprS e.cond, .list (e.forall_.map varToSexp)]

def paramsS (ps : List Param) : Sexp := .list (ps.map (fun p => .list [.atom p.name, tyToSexp p.ty]))

def actionS : Action → Sexp
  | .inst n ps pre effs =>
    .list [.atom "action", .atom n, paramsS ps, .list (.atom "pre" :: pre.map uexprS), .list (.atom "effs" :: effs.map effectS)]
  | .dur n ps d conds effs =>
    .list [.atom "daction", .atom n, paramsS ps,
           .list [.atom "dur", uexprS d.lower, uexprS d.upper, ofBool d.lopen, ofBool d.ropen],
           .list (.atom "conds" :: conds.map (fun p => .list (intervalS p.1 :: p.2.map uexprS))),
           .list (.atom "effs" :: effs.map (fun p => .list (timingS p.1 :: p.2.map effectS)))]

def problemS (p : Problem) : Sexp :=
  .list [.atom "problem", (match p.name with | none => .list [.atom "none"] | some n => .atom n),
         .list (.atom "types" :: p.types.map (fun t => .list [.atom t.1, .atom (t.2.getD "_")])),
         .list (.atom "objects" :: p.objects.map (fun o => .list [.atom o.1, .atom o.2])),
         .list (.atom "fluents" :: p.fluents.map (fun f =>
            .list [refToSexp f.1.name f.1.ty f.1.sig, match f.2 with | none => .atom "_" | some d => uexprS d])),
         .list (.atom "init" :: p.init.map (fun a => .list [uexprS a.1, uexprS a.2])),
         .list (.atom "actions" :: p.actions.map actionS),
         .list (.atom "goals" :: p.goals.map uexprS),
         .list (.atom "tgoals" :: p.timedGoals.map (fun g => .list (intervalS g.1 :: g.2.map uexprS))),
         .list (.atom "teffs" :: p.timedEffects.map (fun g => .list (timingS g.1 :: g.2.map effectS))),
         .list [.atom "eps", match p.epsilon with | none => .atom "_" | some e => .atom (ratToString e)],
         .list [.atom "flags", ofBool p.discreteTime, ofBool p.selfOverlapping]]

/-! ### printing: messages -/
def realMsgS (m : RealMsg) : Sexp := .list [.atom "real", ofInt m.num, ofInt m.den]

def tpKindMsgS : TPKind → Sexp
  | .globalStart => .atom "GLOBAL_START" | .globalEnd => .atom "GLOBAL_END"
  | .start => .atom "START" | .end_ => .atom "END"

def timingMsgS (m : TimingMsg) : Sexp :=
  .list [.atom "timing", .list [.atom "tp", tpKindMsgS m.timepoint.kind, .atom m.timepoint.containerId],
         match m.delay with | none => .atom "none" | some d => realMsgS d]

def intervalMsgS (m : TimeIntervalMsg) : Sexp :=
  .list [.atom "ti", ofBool m.lopen, timingMsgS m.lower, ofBool m.ropen, timingMsgS m.upper]

def ekS : EK → Sexp
  | .unknown => .atom "UNKNOWN" | .constant => .atom "CONSTANT" | .parameter => .atom "PARAMETER"
  | .variable => .atom "VARIABLE" | .fluentSymbol => .atom "FLUENT_SYMBOL"
  | .functionSymbol => .atom "FUNCTION_SYMBOL" | .stateVariable => .atom "STATE_VARIABLE"
  | .functionApplication => .atom "FUNCTION_APPLICATION" | .containerId => .atom "CONTAINER_ID"

def atomS : Atom → Sexp
  | .unset => .list [.atom "u"]
  | .symbol s => .list [.atom "s", .atom s]
  | .int z => .list [.atom "i", ofInt z]
  | .real m => .list [.atom "r", ofInt m.num, ofInt m.den]
  | .boolean b => .list [.atom "b", ofBool b]

partial def peS : PE → Sexp
  | .mk a l t k => .list [.atom "pe", atomS a, .list (l.map peS), .atom t, ekS k]

def effectMsgS (m : EffectMsg) : Sexp :=
  .list [.atom "eff", effKindS m.kind, peS m.fluent, peS m.value, peS m.cond, .list (m.forall_.map peS)]

def durationMsgS (m : DurationMsg) : Sexp :=
  .list [.atom "dur", ofBool m.lopen, peS m.lower, ofBool m.ropen, peS m.upper]

def actionMsgS (m : ActionMsg) : Sexp :=
  .list [.atom "action", .atom m.name, .list (m.params.map (fun p => .list [.atom p.1, .atom p.2])),
         (match m.duration with | none => .atom "none" | some d => durationMsgS d),
         .list (m.conds.map (fun c => .list [.atom "cond", peS c.cond, match c.span with | none => .atom "none" | some s => intervalMsgS s])),
         .list (m.effs.map (fun e => .list [.atom "e", effectMsgS e.effect, match e.time with | none => .atom "none" | some t => timingMsgS t]))]

def problemMsgS (m : ProblemMsg) : Sexp :=
  .list [.atom "problem", .atom m.problemName,
         .list (m.types.map (fun t => .list [.atom t.1, .atom t.2])),
         .list (m.fluents.map (fun f => .list [.atom f.name, .atom f.valueType,
                   .list (f.params.map (fun p => .list [.atom p.1, .atom p.2])),
                   match f.default with | none => .atom "none" | some d => peS d])),
         .list (m.objects.map (fun o => .list [.atom o.1, .atom o.2])),
         .list (m.actions.map actionMsgS),
         .list (m.init.map (fun a => .list [peS a.1, peS a.2])),
         .list (m.timedEffects.map (fun te => .list [effectMsgS te.1, timingMsgS te.2])),
         .list (m.goals.map (fun g => .list [peS g.goal, match g.timing with | none => .atom "none" | some i => intervalMsgS i])),
         (match m.epsilon with | none => .atom "none" | some e => realMsgS e),
         ofBool m.discreteTime, ofBool m.selfOverlapping]

/-! ### answers: `(msg M) (dec X)`, with `reject` when the writer refuses and `err` when the reader fails -/
def answer (msg : Option Sexp) (dec : Option (Option Sexp)) : Sexp :=
  match msg, dec with
  | none, _ => .atom "reject"
  | some m, some (some d) => .list [tag "msg" [m], tag "dec" [d]]
  | some m, _ => .list [tag "msg" [m], tag "dec" [.atom "err"]]

def handle : Sexp → Sexp
  | .list [.atom "ty", .list ts, t] =>
    match ts.mapM asAtom?, parseTy t with
    | some types, some ty =>
      let m := encTy ty
      answer (m.map .atom) (m.map (fun s => (decTy types s).map tyToSexp))
    | _, _ => .atom "bad-case"
  | .list [.atom "tystr", .list ts, .atom s] =>
    match ts.mapM asAtom? with
    | some types => (match decTy types s with | some t => tag "dec" [tyToSexp t] | none => tag "dec" [.atom "err"])
    | none => .atom "bad-case"
  | .list [.atom "real", .atom q] =>
    match parseRat q with
    | some r =>
      let m := encReal r
      answer (m.map realMsgS) (m.map (fun x => (decReal x).map (fun y => .atom (ratToString y))))
    | none => .atom "bad-case"
  | .list [.atom "timing", t] =>
    match parseTiming t with
    | some tm =>
      let m := encTiming tm
      answer (m.map timingMsgS) (m.map (fun x => (decTiming x).map timingS))
    | none => .atom "bad-case"
  | .list [.atom "interval", t] =>
    match parseInterval t with
    | some ti =>
      let m := encTimeInterval ti
      answer (m.map intervalMsgS) (m.map (fun x => (decTimeInterval x).map intervalS))
    | none => .atom "bad-case"
  | .list [.atom "expr", c, e] =>
    match parseCtx c, parseUExpr e with
    | some ctx, some ex =>
      let m := encExpr ex
      answer (m.map peS) (m.map (fun x => (decExpr ctx x).map uexprS))
    | _, _ => .atom "bad-case"
  | .list [.atom "effect", c, e] =>
    match parseCtx c, parseEffect e with
    | some ctx, some ef =>
      let m := encEffect ef
      answer (m.map effectMsgS) (m.map (fun x => (decEffect ctx x).map effectS))
    | _, _ => .atom "bad-case"
  | .list [.atom "action", c, a] =>
    match parseCtx c, parseAction a with
    | some ctx, some act =>
      let m := encAction act
      answer (m.map actionMsgS) (m.map (fun x => (decAction ctx x).map actionS))
    | _, _ => .atom "bad-case"
  | .list [.atom "problem", p] =>
    match parseProblem p with
    | some pr =>
      let m := encProblem pr
      answer (m.map problemMsgS) (m.map (fun x => (decProblem x).map problemS))
    | none => .atom "bad-case"
  | .list (.atom "rt" :: _) => .atom "oracle-only"
  | _ => .atom "bad-case"

end UPVerif.Drv.C20
