import UPVerif.Drv.C18
/-! line-protocol handler for C21: the `read` case of `Drv/C18.lean` (the reference reader on two trees) -/
namespace UPVerif.Drv.C21
open UPVerif

def handle : Sexp → Sexp
  | .list [.atom "read", d, q] => Drv.C18.handle (.list [.atom "read", d, q])
  | _ => .atom "bad-case"

end UPVerif.Drv.C21
