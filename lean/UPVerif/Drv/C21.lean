import UPVerif.Drv.C18
import UPVerif.Core.FromPddl
import UPVerif.Lemmas.FromPddlWhole
/-!
Line-protocol handler for C21.

```
(read <domain-tree> <problem-tree>)
   -> (model <up> <ai> <ast>)
      up  ::= (ok <problem>) | error            -- the reference reader `pddlRead` (first reader)
      ai  ::= (ok <problem>) | error            -- `fromPddl ∘ astOf` (second reader: external parser + converter)
      ast ::= (ok <domain> <problem>) | none    -- `astOf` alone, dumped for the comparison with the real `pddl` objects
(frag <domain-tree> <problem-tree>)
   -> (frag both costs|nocosts ok|no) | (frag not-both)
      -- is the pair of files accepted by both models, free of a `total-cost` function, and inside `filesOKb`
      -- (the decidable side conditions of `C21_readers_equivalent_partial`)?  Used to MEASURE the theorem's coverage.
term   ::= (c name) | (v name)
tvar   ::= (name tag*)
form   ::= (num q) | (op K form*) | (not form) | (pred name term*) | (fn name term*) | (eqt term term)
         | (forall (tvar*) form) | (exists (tvar*) form) | (when form form) | (forall-eff (tvar*) form)
domain ::= (domain name (reqs r*) (types (n f|_)*) (constants (n t|_)*) (predicates (name tvar*)*)
                   (functions (name tvar*)*) (actions (action name (tvar*) form|_ form|_)*))
problem::= (problem name domain-name (reqs r*)|_ (objects (n t|_)*) (init form*) form (metric opt form)|_)
```
-/
namespace UPVerif.Drv.C21
open UPVerif UPVerif.FromPddl

def termToSexp : Term → Sexp
  | .const n => .list [.atom "c", .atom n]
  | .var n => .list [.atom "v", .atom n]

def tvarToSexp (v : TVar) : Sexp := .list (.atom v.name :: v.tags.map .atom)

def opName : OpK → String
  | .and => "and" | .or => "or" | .imply => "imply" | .oneof => "oneof"
  | .eqF => "eq" | .lt => "lt" | .le => "le" | .gt => "gt" | .ge => "ge"
  | .minus => "minus" | .plus => "plus" | .times => "times" | .divide => "divide"
  | .assign => "assign" | .increase => "increase" | .decrease => "decrease" | .scaleUp => "scale-up" | .scaleDown => "scale-down"

partial def formToSexp : Form → Sexp
  | .num q => .list [.atom "num", .atom (ratToString q)]
  | .op k args => .list (.atom "op" :: .atom (opName k) :: args.map formToSexp)
  | .not f => .list [.atom "not", formToSexp f]
  | .pred n ts => .list (.atom "pred" :: .atom n :: ts.map termToSexp)
  | .fn n ts => .list (.atom "fn" :: .atom n :: ts.map termToSexp)
  | .eqT l r => .list [.atom "eqt", termToSexp l, termToSexp r]
  | .quant q vs b => .list [.atom (match q with | .ex => "exists" | .all => "forall"), .list (vs.map tvarToSexp), formToSexp b]
  | .when c e => .list [.atom "when", formToSexp c, formToSexp e]
  | .forallE vs e => .list [.atom "forall-eff", .list (vs.map tvarToSexp), formToSexp e]

def optAtom : Option String → Sexp
  | some s => .atom s
  | none => .atom "_"

def namesToSexp (l : List (String × Option String)) : List Sexp := l.map (fun p => .list [.atom p.1, optAtom p.2])

def optForm : Option Form → Sexp
  | some f => formToSexp f
  | none => .atom "_"

def domainToSexp (d : PDomain) : Sexp :=
  .list [.atom "domain", .atom d.name, .list (.atom "reqs" :: d.reqs.map .atom),
    .list (.atom "types" :: namesToSexp d.types), .list (.atom "constants" :: namesToSexp d.constants),
    .list (.atom "predicates" :: d.predicates.map (fun p => .list (.atom p.1 :: p.2.map tvarToSexp))),
    .list (.atom "functions" :: d.functions.map (fun p => .list (.atom p.1 :: p.2.map tvarToSexp))),
    .list (.atom "actions" :: d.actions.map (fun a =>
      .list [.atom "action", .atom a.name, .list (a.params.map tvarToSexp), optForm a.pre, optForm a.eff]))]

def problemToSexp (p : PProblem) : Sexp :=
  .list [.atom "problem", .atom p.name, .atom p.domainName,
    (match p.reqs with
     | some rs => .list (.atom "reqs" :: rs.map .atom)
     | none => .atom "_"),
    .list (.atom "objects" :: namesToSexp p.objects), .list (.atom "init" :: p.init.map formToSexp), formToSexp p.goal,
    (match p.metric with
     | some (opt, e) => .list [.atom "metric", .atom opt, formToSexp e]
     | none => .atom "_")]

def handle : Sexp → Sexp
  | .list [.atom "read", d, q] =>
    let up := match Pddl.pddlRead d q with
      | some P => .list [.atom "ok", Drv.C18.problemToSexp P]
      | none => .atom "error"
    let ai := match aiRead d q with
      | some P => .list [.atom "ok", Drv.C18.problemToSexp P]
      | none => .atom "error"
    let ast := match astOf d q with
      | some A => .list [.atom "ok", domainToSexp A.dom, problemToSexp A.prob]
      | none => .atom "none"
    .list [.atom "model", up, ai, ast]
  | .list [.atom "frag", d, q] =>
    match Pddl.pddlRead d q, astOf d q with
    | some P, some A =>
      match fromPddl A, Pddl.splitDomain (Pddl.lowerSexp d), Pddl.splitProblem (Pddl.lowerSexp q) with
      | some _, some D, some Q =>
        .list [.atom "frag", .atom "both", .atom (if noTotalCost D.functions then "nocosts" else "costs"),
               .atom (if filesOKb (P.fluents.map (·.ref)) (ctxOf A) D Q then "ok" else "no")]
      | _, _, _ => .list [.atom "frag", .atom "not-both"]
    | _, _ => .list [.atom "frag", .atom "not-both"]
  | _ => .atom "bad-case"

end UPVerif.Drv.C21
