import UPVerif.Core.TTSexp
import UPVerif.Drv.C01
/-!
Line-protocol handler of C04: one case = a problem with instantaneous actions only (wire format of
`Core/Problem.lean`) and a time-triggered plan

  (c04 <problem> (plan (start name (obj*) -)*))

Answer: `((tt <verdict>) (seq <verdict>))` — the model of `TimeTriggeredPlanValidator._validate` on
the plan as listed, and the model of `SequentialPlanValidator._validate` on the same action
instances in processing (= start time) order.  The simplifier handed to `Sim.ground` /
`Sim.invariants` is C11's model, configured as for C01 (`Drv/C01.lean`).
-/
namespace UPVerif.Drv.C04
open UPVerif UPVerif.Sim UPVerif.TT

def world (P : Problem) : World :=
  { P := P, simp := Drv.C01.simpTotal (Drv.C01.simpCfg P []), fn := fun _ _ => none }

def handle : Sexp → Sexp
  | .list [.atom "c04", ps, pl] =>
    match parseProblem ps with
    | none => .atom "bad-case"
    | some P =>
      match parsePlan P TProblem.empty pl with
      | none => .atom "bad-case"
      | some π =>
        -- the property is about instantaneous actions
        if π.any (fun s => match s.act with | .dur _ => true | .inst _ => false) then .atom "bad-case"
        else
          let W := world P
          .list [.list [.atom "tt", verdictSexp (validate W TProblem.empty π)],
                 .list [.atom "seq", verdictSexp (seqValidate W (seqPlanOf π))]]
  | _ => .atom "bad-case"

end UPVerif.Drv.C04
