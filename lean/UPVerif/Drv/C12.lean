import UPVerif.Core.ExprSexp
import UPVerif.Core.Walkers.Dnf
/-! line-protocol handler for C12: `(nnf e)` and `(dnf e (table (in out)…))` where the table lists
    the answers the REAL simplifier gave for the conjunctions the DNF walker asked about (the
    simplifier is C11's; C12's model takes it as a parameter). -/
namespace UPVerif.Drv.C12
open UPVerif UPVerif.Expr

def sentinel : Expr := .leaf (.timing "MISSING-SIMP")

mutual
partial def mentions (s : Expr) : Expr → Bool
  | .leaf l => Expr.leaf l == s
  | .app _ as => as.any (mentions s)
  | .quant _ _ b => mentions s b
end

instance : BEq Expr := ⟨fun a b => decide (a = b)⟩

def handle : Sexp → Sexp
  | .list [.atom "nnf", e] =>
    match parseExpr e with
    | some x =>
      let r := nnf true x
      let m := match nnfMachine x with
        | some r' => decide (r' = r)
        | none => false
      .list [.atom "res", exprToSexp r, Sexp.ofBool m]
    | none => .atom "bad-case"
  | .list [.atom "dnf", e, .list (.atom "table" :: rows)] =>
    match parseExpr e, rows.mapM (fun r => match r with
        | .list [i, o] => do
          let a ← parseExpr i
          let b ← parseExpr o
          some (a, b)
        | _ => none) with
    | some x, some tbl =>
      let simp : Expr → Expr := fun c => match tbl.find? (fun p => decide (p.1 = c)) with
        | some p => p.2
        | none => sentinel
      let r := dnf simp x
      if mentions sentinel r then .atom "missing-simp" else .list [.atom "res", exprToSexp r]
    | _, _ => .atom "bad-case"
  | _ => .atom "bad-case"

end UPVerif.Drv.C12
