import UPVerif.Drv.C01
/-! C02 uses the same executable model and the same line-protocol handler as C01
    (the cases differ: interleaved queries on shared states). -/
namespace UPVerif.Drv.C02
def handle : UPVerif.Sexp → UPVerif.Sexp := UPVerif.Drv.C01.handle
end UPVerif.Drv.C02
