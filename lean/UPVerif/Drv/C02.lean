import UPVerif.Drv.C01
import UPVerif.Core.SimIter
/-!
C02 uses the executable model and the line protocol of C01 (`Drv/C01.lean`: interleaved queries on shared
states) and adds the operations on `get_applicable_actions` GENERATORS (`Core/SimIter.lean`), so that a
history may leave enumerations incomplete, interleave them with each other and with the other queries:

  op ::= … | (open i)    get_applicable_actions(state i): a new generator, addressed by the number of this op
           | (next j)    next() on the generator opened by op j  ->  (action (obj*)) | end | (raise e)
           | (close j)   generator.close()                        ->  closed
           | (throw j)   generator.throw(exception)               ->  closed   (the body has no handler)
           | (drain j)   the rest of the generator                ->  (drained ((action (obj*))*) end|(raise e))

An `open`/`next`/… op fills no state slot.  Every generator operation goes through `Sim.iterOp`, the
function the theorems of `Props/C02Iter.lean` are about.
-/
namespace UPVerif.Drv.C02
open UPVerif UPVerif.Sim

/-- what the runner keeps: state slots (as in C01), for every op number the handle it created (if any),
    the table of generators -/
structure St where
  slots : Array (Option SimState)
  handles : Array (Option Nat)
  its : List Iter

def stepSexp : Step → Sexp
  | .item ai => Drv.C01.instSexp ai
  | .done => .atom "end"
  | .raised e => Drv.C01.errSexp e

def ansSexp : IAns → Sexp
  | .opened _ => .atom "iter"
  | .step r => stepSexp r
  | .closed => .atom "closed"
  | .drained l e => .list [.atom "drained", .list (l.map Drv.C01.instSexp),
      match e with
      | none => .atom "end"
      | some x => Drv.C01.errSexp x]
  | .noHandle => .atom "no-iter"

def handleOf (st : St) (j : Nat) : Option Nat :=
  match st.handles[j]? with
  | some (some h) => some h
  | _ => none

/-- the generator operation an op denotes (`none` = not a generator op; `some none` = its state /
    generator does not exist) -/
def iterOpOf (st : St) : Sexp → Option (Option IOp)
  | .list [.atom "open", i] => do
    let n ← i.asNat?
    match st.slots[n]? with
    | some (some s) => some (some (.openIt s))
    | _ => some none
  | .list [.atom "next", j] => do
    let n ← j.asNat?
    some ((handleOf st n).map IOp.next)
  | .list [.atom "close", j] => do
    let n ← j.asNat?
    some ((handleOf st n).map IOp.close)
  | .list [.atom "throw", j] => do
    let n ← j.asNat?
    some ((handleOf st n).map IOp.close)
  | .list [.atom "drain", j] => do
    let n ← j.asNat?
    some ((handleOf st n).map IOp.drain)
  | _ => none

def isIterHead : Sexp → Bool
  | .list (.atom h :: _) => h == "open" || h == "next" || h == "close" || h == "throw" || h == "drain"
  | _ => false

def runOps (W : World) : List Sexp → St → List Sexp → Option (List Sexp)
  | [], _, out => some out.reverse
  | op :: ops, st, out =>
    if isIterHead op then
      match iterOpOf st op with
      | none => none
      | some none =>
        let a : Sexp := match op with
          | .list (.atom "open" :: _) => .atom "no-state"
          | _ => .atom "no-iter"
        runOps W ops { st with slots := st.slots.push none, handles := st.handles.push none } (a :: out)
      | some (some io) =>
        let r := iterOp W st.its io
        let h : Option Nat := match r.1 with
          | .opened k => some k
          | _ => none
        runOps W ops { slots := st.slots.push none, handles := st.handles.push h, its := r.2 } (ansSexp r.1 :: out)
    else
      match Drv.C01.runOp W st.slots op with
      | none => none
      | some (ans, s') =>
        runOps W ops { st with slots := st.slots.push s', handles := st.handles.push none } (ans :: out)

def handle : Sexp → Sexp
  | .list [.atom "sim", ps, .list (.atom "fn" :: fns), .list (.atom "ops" :: ops)] =>
    match parseProblem ps, Drv.C01.parseFnTable fns with
    | some P, some tab =>
      let W : World := { P := P, simp := Drv.C01.simpTotal (Drv.C01.simpCfg P tab), fn := Drv.C01.fnOfTable tab }
      let s0 : Option SimState := match getInitialState W with
        | .ok (some s) => some s
        | _ => none
      match runOps W ops { slots := #[s0], handles := #[none], its := [] } [] with
      | some l => .list l
      | none => .atom "bad-case"
    | _, _ => .atom "bad-case"
  | _ => .atom "bad-case"

end UPVerif.Drv.C02
