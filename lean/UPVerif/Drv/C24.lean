import UPVerif.Core.Sexp
import UPVerif.Core.Conflicts
/-!
line-protocol handler for C24: runs a history of insertion attempts through the model of the
effect-conflict bookkeeping and prints, after every attempt, whether it raised and everything stored
for every time point of the case.

case    := (hist <container> (timings <t>...) (ops <op>...))      container ∈ ia | ev | da | pb
op      := (eff <t> <assign|inc|dec> <fluent> <B|N> <val> <cond>) | (sim <t> (<fluent>...))
val     := (bool T|F) | (int z) | (real n d) | (obj name) | (sym id)        cond := T | (c name)
answer  := ((r <T|F> (<t> (effects <e>...) (sim none|(<fluent>...)) (assigned (<fluent> <val>)...) (incdec <fluent>...))...)...)
-/
namespace UPVerif.Drv.C24
open UPVerif UPVerif.Conflicts

def parseVal : Sexp → Option Val
  | .list [.atom "bool", b] => b.asBool?.map .bool
  | .list [.atom "int", z] => z.asInt?.map .int
  | .list [.atom "real", n, d] => do
    let n ← n.asInt?
    let d ← d.asNat?
    if d == 0 then none else some (.real (mkRat n d))
  | .list [.atom "obj", .atom s] => some (.obj s)
  | .list [.atom "sym", .atom s] => some (.sym s)
  | _ => none

def parseKind : Sexp → Option EKind
  | .atom "assign" => some .assign
  | .atom "inc" => some .inc
  | .atom "dec" => some .dec
  | _ => none

def parseCond : Sexp → Option (Option String)
  | .atom "T" => some none
  | .list [.atom "c", .atom s] => some (some s)
  | _ => none

def parseOp : Sexp → Option (String × Op)
  | .list [.atom "eff", .atom t, k, .atom f, bt, v, c] => do
    let k ← parseKind k
    let bt ← (match bt with | .atom "B" => some true | .atom "N" => some false | _ => none)
    let v ← parseVal v
    let c ← parseCond c
    some (t, .eff ⟨f, bt, k, v, c⟩)
  | .list [.atom "sim", .atom t, fl] => do
    let fl ← fl.asStrs?
    some (t, .sim fl)
  | _ => none

def sortStrs (l : List String) : List String := (l.toArray.qsort (· < ·)).toList

def valOut : Val → Sexp
  | .bool b => Sexp.tag "bool" [Sexp.ofBool b]
  | .int z => Sexp.tag "int" [Sexp.ofInt z]
  | .real q => Sexp.tag "real" [Sexp.ofInt q.num, Sexp.ofNat q.den]
  | .obj s => Sexp.tag "obj" [.atom s]
  | .sym s => Sexp.tag "sym" [.atom s]

def kindOut : EKind → Sexp
  | .assign => .atom "assign"
  | .inc => .atom "inc"
  | .dec => .atom "dec"

def effOut (e : Eff) : Sexp :=
  .list [kindOut e.kind, .atom e.fluent, valOut e.value,
         match e.cond with | none => .atom "T" | some c => Sexp.tag "c" [.atom c]]

def slotOut (t : String) (s : Slot) : Sexp :=
  .list [.atom t,
    Sexp.tag "effects" (s.effects.map effOut),
    Sexp.tag "sim" [match s.sim with | none => .atom "none" | some fl => Sexp.ofStrs (sortStrs fl)],
    Sexp.tag "assigned" ((sortStrs (s.book.assigned.map (·.1))).filterMap (fun f =>
      (s.book.assigned.lookup f).map (fun v => Sexp.list [.atom f, valOut v]))),
    Sexp.tag "incdec" ((sortStrs s.book.incDec).map .atom)]

def storeOut (ts : List String) (st : Store) : Sexp := .list (ts.map (fun t => slotOut t (st t)))

def runOut (ts : List String) : Store → List (String × Op) → List Sexp
  | _, [] => []
  | st, x :: l =>
    let r := st.step x
    Sexp.list [.atom "r", Sexp.ofBool r.2, storeOut ts r.1] :: runOut ts r.1 l

def handle : Sexp → Sexp
  | .list [.atom "hist", .atom c, .list (.atom "timings" :: ts), .list (.atom "ops" :: ops)] =>
    match (Sexp.list ts).asStrs?, ops.mapM parseOp with
    | some ts, some ops =>
      let okContainer :=
        (c == "ia" || c == "ev") && ts == ["now"] ||
        c == "da" ||
        c == "pb" && ops.all (fun x => !x.2.isSim)
      if !okContainer || ts.isEmpty || !ops.all (fun x => ts.contains x.1) then .atom "bad-case"
      else .list (runOut ts Store.empty ops)
    | _, _ => .atom "bad-case"
  | _ => .atom "bad-case"

end UPVerif.Drv.C24
