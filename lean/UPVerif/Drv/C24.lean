import UPVerif.Core.Sexp
import UPVerif.Core.Conflicts
import UPVerif.Core.ConflictsTimed
/-!
line-protocol handler for C24: runs a history of insertion attempts through the model of the
effect-conflict bookkeeping and prints, after every attempt, whether it raised and everything stored
for every time point of the case.

case    := (hist <container> (timings <t>...) (ops <op>...))      container ∈ ia | ev | da | pb
op      := (eff <t> <assign|inc|dec> <fluent> <B|N> <val> <cond>) | (sim <t> (<fluent>...))
val     := (bool T|F) | (int z) | (real n d) | (obj name) | (sym id)        cond := T | (c name)
answer  := ((r <T|F> (<t> (effects <e>...) (sim none|(<fluent>...)) (assigned (<fluent> <val>)...) (incdec <fluent>...))...)...)

Histories whose time points are written as the caller wrote them (model `Core/ConflictsTimed.lean`):

case    := (thist <container> (timings <tm>...) (ops <top>...))       container ∈ da | act | sp | pb
tm      := (tm <K> <C> <n> <d>)          canonical Timing: K ∈ gs|ge|s|e, C = container name or -, delay n/d in lowest terms
texpr   := (timing <K> <C> <n> <d> <form>...) | (timepoint <K> <C> <form>...) | (num <n> <d> <form>...)
           (the <form> atoms say how the Python object is constructed; the model does not look at them)
top     := (eff <texpr> <assign|inc|dec> <fluent> <B|N> <val> <cond>) | (sim <texpr> (<fluent>...))
           pb: every time must be a `timing` and there is no sim (signature of Problem.add_*effect);
           sim: the time must be a `timing` (signature of set_simulated_effect)
answer  := ((r <T|F> (slots (<tm> (effects ..) (sim ..) (assigned ..) (incdec ..))...) (stray <key>...))...)
           stray = keys other than the listed canonical timings under which a dictionary holds content
-/
namespace UPVerif.Drv.C24
open UPVerif UPVerif.Conflicts

def parseVal : Sexp → Option Val
  | .list [.atom "bool", b] => b.asBool?.map .bool
  | .list [.atom "int", z] => z.asInt?.map .int
  | .list [.atom "real", n, d] => do
    let n ← n.asInt?
    let d ← d.asNat?
    if d == 0 then none else some (.real (mkRat n d))
  | .list [.atom "obj", .atom s] => some (.obj s)
  | .list [.atom "sym", .atom s] => some (.sym s)
  | _ => none

def parseKind : Sexp → Option EKind
  | .atom "assign" => some .assign
  | .atom "inc" => some .inc
  | .atom "dec" => some .dec
  | _ => none

def parseCond : Sexp → Option (Option String)
  | .atom "T" => some none
  | .list [.atom "c", .atom s] => some (some s)
  | _ => none

def parseOp : Sexp → Option (String × Op)
  | .list [.atom "eff", .atom t, k, .atom f, bt, v, c] => do
    let k ← parseKind k
    let bt ← (match bt with | .atom "B" => some true | .atom "N" => some false | _ => none)
    let v ← parseVal v
    let c ← parseCond c
    some (t, .eff ⟨f, bt, k, v, c⟩)
  | .list [.atom "sim", .atom t, fl] => do
    let fl ← fl.asStrs?
    some (t, .sim fl)
  | _ => none

def sortStrs (l : List String) : List String := (l.toArray.qsort (· < ·)).toList

def valOut : Val → Sexp
  | .bool b => Sexp.tag "bool" [Sexp.ofBool b]
  | .int z => Sexp.tag "int" [Sexp.ofInt z]
  | .real q => Sexp.tag "real" [Sexp.ofInt q.num, Sexp.ofNat q.den]
  | .obj s => Sexp.tag "obj" [.atom s]
  | .sym s => Sexp.tag "sym" [.atom s]

def kindOut : EKind → Sexp
  | .assign => .atom "assign"
  | .inc => .atom "inc"
  | .dec => .atom "dec"

def effOut (e : Eff) : Sexp :=
  .list [kindOut e.kind, .atom e.fluent, valOut e.value,
         match e.cond with | none => .atom "T" | some c => Sexp.tag "c" [.atom c]]

def slotOut (t : String) (s : Slot) : Sexp :=
  .list [.atom t,
    Sexp.tag "effects" (s.effects.map effOut),
    Sexp.tag "sim" [match s.sim with | none => .atom "none" | some fl => Sexp.ofStrs (sortStrs fl)],
    Sexp.tag "assigned" ((sortStrs (s.book.assigned.map (·.1))).filterMap (fun f =>
      (s.book.assigned.lookup f).map (fun v => Sexp.list [.atom f, valOut v]))),
    Sexp.tag "incdec" ((sortStrs s.book.incDec).map .atom)]

def storeOut (ts : List String) (st : Store) : Sexp := .list (ts.map (fun t => slotOut t (st t)))

def runOut (ts : List String) : Store → List (String × Op) → List Sexp
  | _, [] => []
  | st, x :: l =>
    let r := st.step x
    Sexp.list [.atom "r", Sexp.ofBool r.2, storeOut ts r.1] :: runOut ts r.1 l

/-! ### time points as written -/

def parseTPKind : Sexp → Option TPKind
  | .atom "gs" => some .globalStart
  | .atom "ge" => some .globalEnd
  | .atom "s" => some .start
  | .atom "e" => some .«end»
  | _ => none

def parseContainer : Sexp → Option (Option String)
  | .atom "-" => some none
  | .atom c => some (some c)
  | _ => none

def parseRat (n d : Sexp) : Option Rat := do
  let n ← n.asInt?
  let d ← d.asNat?
  if d == 0 then none else some (mkRat n d)

def parseTm : Sexp → Option Timing
  | .list [.atom "tm", k, c, n, d] => do
    let k ← parseTPKind k
    let c ← parseContainer c
    let q ← parseRat n d
    some ⟨q, ⟨k, c⟩⟩
  | _ => none

def parseTimeExpr : Sexp → Option TimeExpr
  | .list (.atom "timing" :: k :: c :: n :: d :: _) => do
    let k ← parseTPKind k
    let c ← parseContainer c
    let q ← parseRat n d
    some (.timing ⟨q, ⟨k, c⟩⟩)
  | .list (.atom "timepoint" :: k :: c :: _) => do
    let k ← parseTPKind k
    let c ← parseContainer c
    some (.timepoint ⟨k, c⟩)
  | .list (.atom "num" :: n :: d :: _) => do
    let q ← parseRat n d
    some (.num q)
  | _ => none

/-- `pb` = the object is a `Problem` -/
def parseTOp (pb : Bool) : Sexp → Option TOp
  | .list [.atom "eff", te, k, .atom f, bt, v, c] => do
    let te ← parseTimeExpr te
    let k ← parseKind k
    let bt ← (match bt with | .atom "B" => some true | .atom "N" => some false | _ => none)
    let v ← parseVal v
    let c ← parseCond c
    if pb then
      match te with
      | .timing t => some (.peff t ⟨f, bt, k, v, c⟩)
      | _ => none
    else some (.eff te ⟨f, bt, k, v, c⟩)
  | .list [.atom "sim", te, fl] => do
    let te ← parseTimeExpr te
    let fl ← fl.asStrs?
    if pb then none
    else match te with
      | .timing t => some (.sim t fl)
      | _ => none
  | _ => none

def kindAtom : TPKind → String
  | .globalStart => "gs"
  | .globalEnd => "ge"
  | .start => "s"
  | .«end» => "e"

def containerOut : Option String → Sexp
  | none => .atom "-"
  | some c => .atom c

def tmOut (t : Timing) : Sexp :=
  Sexp.tag "tm" [.atom (kindAtom t.timepoint.kind), containerOut t.timepoint.container,
                 Sexp.ofInt t.delay.num, Sexp.ofNat t.delay.den]

def keyOut : TimeExpr → Sexp
  | .timing t => tmOut t
  | .timepoint p => Sexp.tag "timepoint" [.atom (kindAtom p.kind), containerOut p.container]
  | .num q => Sexp.tag "num" [Sexp.ofInt q.num, Sexp.ofNat q.den]

def slotOutS (label : Sexp) (s : Slot) : Sexp :=
  match slotOut "" s with
  | .list (_ :: rest) => .list (label :: rest)
  | x => x

/-- the keys written in the case (as written and canonicalised), without duplicates -/
def candidateKeys (ops : List TOp) : List TimeExpr :=
  (ops.flatMap (fun x => match x with
    | .eff te _ => [te, x.key]
    | _ => [x.key])).eraseDups

def sortSexps (l : List Sexp) : List Sexp :=
  ((l.map (fun x => (x.toString, x))).toArray.qsort (fun a b => a.1 < b.1)).toList.map (·.2)

def tablesOut (ts : List Timing) (cand : List TimeExpr) (tb : Tables) : List Sexp :=
  [Sexp.tag "slots" (ts.map (fun t => slotOutS (tmOut t) (tb.slot (.timing t)))),
   Sexp.tag "stray" (sortSexps ((cand.filter (fun k =>
     !(ts.map TimeExpr.timing).contains k && tb.slot k != Slot.empty)).map keyOut))]

def runOutT (ts : List Timing) (cand : List TimeExpr) : Tables → List TOp → List Sexp
  | _, [] => []
  | tb, x :: l =>
    let r := tb.step x
    Sexp.list (.atom "r" :: Sexp.ofBool r.2 :: tablesOut ts cand r.1) :: runOutT ts cand r.1 l

def handleT (c : String) (ts ops : List Sexp) : Sexp :=
  if !(c == "da" || c == "act" || c == "sp" || c == "pb") then .atom "bad-case" else
  match ts.mapM parseTm, ops.mapM (parseTOp (c == "pb")) with
  | some ts, some ops =>
    if ts.isEmpty || !ops.all (fun x => ts.contains x.point) then .atom "bad-case"
    else .list (runOutT ts (candidateKeys ops) Tables.empty ops)
  | _, _ => .atom "bad-case"

def handle : Sexp → Sexp
  | .list [.atom "thist", .atom c, .list (.atom "timings" :: ts), .list (.atom "ops" :: ops)] =>
    handleT c ts ops
  | .list [.atom "hist", .atom c, .list (.atom "timings" :: ts), .list (.atom "ops" :: ops)] =>
    match (Sexp.list ts).asStrs?, ops.mapM parseOp with
    | some ts, some ops =>
      let okContainer :=
        (c == "ia" || c == "ev") && ts == ["now"] ||
        c == "da" ||
        c == "pb" && ops.all (fun x => !x.2.isSim)
      if !okContainer || ts.isEmpty || !ops.all (fun x => ts.contains x.1) then .atom "bad-case"
      else .list (runOut ts Store.empty ops)
    | _, _ => .atom "bad-case"
  | _ => .atom "bad-case"

end UPVerif.Drv.C24
