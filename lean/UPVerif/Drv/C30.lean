import UPVerif.Core.Sexp
import UPVerif.Spec.Conformant
import UPVerif.Core.KS0
/-!
Line-protocol handler for C30.  One case = one small ground Boolean conformant problem

  (ground (atoms a b …)
          (actions (NAME (pre DNF) (effs (DNF ATOM T|F) …)) …)
          (goal DNF)
          (init (states (T F …) …))  |  (init (contingent (known T F …) (cons (oneof LIT…) (or LIT…) (unknown a) …)))
          (bounds Lk Lc))

with `DNF = (CONJ …)`, `CONJ = (LIT …)`, `LIT = (atom T|F)`.  When every DNF has exactly one
conjunction the problem is in the compiler's normal form and the model answers with the possible
initial states, the basis, the relevance relation, the compiled problem, all valid compiled plans up
to `Lk` and all conformant plans of the original up to `Lc`.  Cases with a proper disjunction (they are
normalised by another compiler first) and lifted cases are answered `oracle-only`: for them the
harness evaluates the property end-to-end on the real code only.
-/
namespace UPVerif.Drv.C30
open UPVerif UPVerif.Conformant UPVerif.KS0

abbrev A := String

def parseLit : Sexp → Option (Lit A)
  | .list [.atom x, b] => do
    let p ← b.asBool?
    some ⟨x, p⟩
  | _ => none

def parseConj (e : Sexp) : Option (List (Lit A)) := do
  let xs ← e.asList?
  xs.mapM parseLit

def parseDnf (e : Sexp) : Option (List (List (Lit A))) := do
  let xs ← e.asList?
  xs.mapM parseConj

structure DEff where
  cond : List (List (Lit A))
  atom : A
  val : Bool

structure DAct where
  name : String
  pre : List (List (Lit A))
  effs : List DEff

def parseEff : Sexp → Option DEff
  | .list [c, .atom x, v] => do
    let cond ← parseDnf c
    let val ← v.asBool?
    some ⟨cond, x, val⟩
  | _ => none

def parseAct : Sexp → Option DAct
  | .list [.atom n, .list [.atom "pre", p], .list (.atom "effs" :: es)] => do
    let pre ← parseDnf p
    let effs ← es.mapM parseEff
    some ⟨n, pre, effs⟩
  | _ => none

inductive Cons where
  | oneof (g : List (Lit A))
  | or (g : List (Lit A))
  | unknown (x : A)

def parseCons : Sexp → Option Cons
  | .list (.atom "oneof" :: ls) => (ls.mapM parseLit).map Cons.oneof
  | .list (.atom "or" :: ls) => (ls.mapM parseLit).map Cons.or
  | .list [.atom "unknown", .atom x] => some (Cons.unknown x)
  | _ => none

inductive Init where
  | states (vs : List (List Bool))
  | contingent (known : List Bool) (cs : List Cons)

def parseVec (e : Sexp) : Option (List Bool) := do
  let xs ← e.asList?
  xs.mapM Sexp.asBool?

def parseInit : Sexp → Option Init
  | .list [.atom "init", .list (.atom "states" :: vs)] => (vs.mapM parseVec).map Init.states
  | .list [.atom "init", .list [.atom "contingent", .list (.atom "known" :: kv), .list (.atom "cons" :: cs)]] => do
    let k ← kv.mapM Sexp.asBool?
    let c ← cs.mapM parseCons
    some (Init.contingent k c)
  | _ => none

structure Case where
  atoms : List A
  acts : List DAct
  goal : List (List (Lit A))
  init : Init
  lk : Nat
  lc : Nat

def parseCase : Sexp → Option Case
  | .list [.atom "ground", .list (.atom "atoms" :: xs), .list (.atom "actions" :: as),
           .list [.atom "goal", g], ini, .list [.atom "bounds", lk, lc]] => do
    let atoms ← xs.mapM Sexp.asAtom?
    let acts ← as.mapM parseAct
    let goal ← parseDnf g
    let init ← parseInit ini
    let lk ← lk.asNat?
    let lc ← lc.asNat?
    some ⟨atoms, acts, goal, init, lk, lc⟩
  | _ => none

/-! well-formedness of a case: distinct atoms and action names, all literals over the atoms, vectors
of the right length — anything else is a harness bug and answered `bad-case` -/
def nodupS (l : List String) : Bool :=
  match l with
  | [] => true
  | x :: xs => !(xs.contains x) && nodupS xs

def Case.litsOk (c : Case) (ls : List (Lit A)) : Bool := ls.all (fun l => c.atoms.contains l.atom)

def Case.wf (c : Case) : Bool :=
  nodupS c.atoms && nodupS (c.acts.map (·.name))
  && c.acts.all (fun a => a.pre.all c.litsOk && a.effs.all (fun e => e.cond.all c.litsOk && c.atoms.contains e.atom))
  && c.goal.all c.litsOk
  && (match c.init with
      | .states vs => vs.all (fun v => v.length == c.atoms.length)
      | .contingent k cs => k.length == c.atoms.length && cs.all (fun
          | .oneof g => c.litsOk g
          | .or g => c.litsOk g
          | .unknown x => c.atoms.contains x))

/-- a single conjunction over distinct atoms -/
def cleanConj (d : List (List (Lit A))) : Bool :=
  d.length == 1 && d.all (fun c => nodupS (c.map (·.atom)))

def sameSet (a b : List (Lit A)) : Bool := a.all (b.contains ·) && b.all (a.contains ·)

def pairwiseDistinct : List (List (Lit A)) → Bool
  | [] => true
  | c :: rest => rest.all (fun c' => !(sameSet c c')) && pairwiseDistinct rest

/-- a precondition the model follows through the split: one clean conjunction, or several pairwise
different non-empty clean conjunctions (then the disjunctive-conditions remover makes exactly one
variant per disjunct) -/
def cleanPre (d : List (List (Lit A))) : Bool :=
  cleanConj d ||
  (d.length ≥ 2 && d.all (fun c => !c.isEmpty && nodupS (c.map (·.atom))) && pairwiseDistinct d)

/-- what the model answers structurally: goal and effect conditions are single clean conjunctions
(the compiler's normal form), preconditions may be proper disjunctions of clean conjunctions (split by
`normD`); everything else is `oracle-only` -/
def Case.normal (c : Case) : Bool :=
  c.acts.all (fun a => cleanPre a.pre && a.effs.all (fun e => cleanConj e.cond)) && cleanConj c.goal

def Case.dproblem (c : Case) : DProblem A :=
  { atoms := c.atoms
    actions := c.acts.map (fun a =>
      { name := a.name, pre := a.pre,
        rules := a.effs.map (fun e => ⟨e.cond.flatMap id, ⟨e.atom, e.val⟩⟩) })
    goals := c.goal.flatMap id }

def stateOfVec (atoms : List A) (v : List Bool) : State A :=
  fun x => match atoms.idxOf? x with
    | some i => v.getD i false
    | none => false

/-- possible initial states of the case, in the compiler's enumeration order -/
def Case.states (c : Case) : List (State A) :=
  match c.init with
  | .states vs => vs.map (stateOfVec c.atoms)
  | .contingent k cs =>
    let oneofs := cs.filterMap (fun | .oneof g => some g | _ => none)
    let ors := cs.filterMap (fun
      | .or g => some g
      | .unknown x => some [⟨x, false⟩, ⟨x, true⟩]
      | _ => none)
    let consAtoms := cs.flatMap (fun
      | .oneof g => g.map (·.atom)
      | .or g => g.map (·.atom)
      | .unknown x => [x])
    let hidden := c.atoms.filter (fun x => consAtoms.contains x)
    (enumerateHidden oneofs ors hidden).map (stateOf (stateOfVec c.atoms k))

/-! output -/
def vecOut (atoms : List A) (s : State A) : Sexp := .list (atoms.map (fun x => Sexp.ofBool (s x)))
def litOut (l : Lit A) : Sexp := .list [.atom l.atom, Sexp.ofBool l.pos]
def tagOut : Tag → Sexp
  | .empty => .atom "e"
  | .st i => Sexp.ofNat i
def katomOut (k : KAtom A) : Sexp := .list [.atom k.lit.atom, Sexp.ofBool k.lit.pos, tagOut k.tag]
def klitOut (l : Lit (KAtom A)) : Sexp := .list [katomOut l.atom, Sexp.ofBool l.pos]

def cstepOut : CStep A → Sexp
  | .act a => .atom a.name
  | .merge l => .list [.atom "m", .atom l.atom, Sexp.ofBool l.pos]

def kactOut (n : Nat) (s : CStep A) : Sexp :=
  let a := s.compile n
  .list [cstepOut s, Sexp.tag "pre" (a.pre.map klitOut),
         Sexp.tag "effs" (a.rules.map (fun r => .list [.list (r.cond.map klitOut), katomOut r.target.atom, Sexp.ofBool r.target.pos]))]

/-- all executable sequences of at most `n` steps from `σ` (depth-first, in step order); returns the
executable ones (reversed prefixes are accumulated) -/
def enumPlans {β σT : Type} (steps : List β) (app : β → σT → Bool) (nxt : β → σT → σT) :
    Nat → σT → List β → List (List β × σT)
  | 0, σ, pre => [(pre.reverse, σ)]
  | n + 1, σ, pre =>
    (pre.reverse, σ) :: steps.flatMap (fun s =>
      if app s σ then enumPlans steps app nxt n (nxt s σ) (s :: pre) else [])

/-- finite table of a state over the listed atoms (the driver materialises every successor state so
that nested closures are not re-evaluated) -/
def tabulate {β : Type} (atoms : List β) (σ : State β) : List (β × Bool) := atoms.map (fun x => (x, σ x))
def ofTable {β : Type} [DecidableEq β] (t : List (β × Bool)) : State β :=
  fun x => match t.find? (fun e => decide (e.1 = x)) with
    | some e => e.2
    | none => false

def handleNormal (c : Case) : Sexp :=
  let D := c.dproblem
  let P := normD D
  let S := c.states
  if S.isEmpty then Sexp.tag "error" [.atom "no-initial-state"] else
  let S1 := dedupStates P.atoms S
  let B := basis P S1
  let n := B.length
  let U := allLits P.atoms
  let m := relevanceMap P
  let fuelOk := relClosed P (relFix P).rel
  let K := compile P B
  let κ0 := tabulate K.atoms (kinit B)
  -- valid compiled plans
  let kacts := (csteps P).map (fun s => (s, s.compile n))
  let runs := enumPlans kacts (fun s κ => applicable s.2 (ofTable κ))
                (fun s κ => tabulate K.atoms (step s.2 (ofTable κ))) c.lk κ0 []
  let kvalid := runs.filter (fun r => K.goals.all (holds (ofTable r.2)))
  -- conformant plans of the original: belief state = list of states
  let bruns := enumPlans D.actions (fun a (b : List (List (A × Bool))) => b.all (fun s => dapplicable a (ofTable s)))
                 (fun a b => b.map (fun s => tabulate P.atoms (step a.effects (ofTable s)))) c.lc (S.map (tabulate P.atoms)) []
  let cvalid := bruns.filter (fun r => r.2.all (fun s => P.goals.all (holds (ofTable s))))
  .list [
    Sexp.tag "states" (S.map (vecOut P.atoms)),
    Sexp.tag "basis" (B.map (vecOut P.atoms)),
    Sexp.tag "rel" (U.map (fun l => .list [litOut l, .list ((U.filter (fun x => m.rel l x)).map litOut)])),
    Sexp.tag "fuel-ok" [Sexp.ofBool fuelOk],
    Sexp.tag "init" ((κ0.filter (fun e => e.2)).map (fun e => katomOut e.1)),
    Sexp.tag "actions" ((csteps P).map (kactOut n)),
    Sexp.tag "goals" (K.goals.map klitOut),
    Sexp.tag "kplans" (Sexp.ofNat runs.length :: kvalid.map (fun r => .list (r.1.map (fun s => cstepOut s.1)))),
    Sexp.tag "cplans" (Sexp.ofNat bruns.length :: cvalid.map (fun r => .list (r.1.map (fun a => .atom a.name)))) ]

def handle : Sexp → Sexp
  | .list (.atom "lifted" :: _) => .atom "oracle-only"
  | e =>
    match parseCase e with
    | none => .atom "bad-case"
    | some c =>
      if !c.wf then .atom "bad-case"
      else if !c.normal then .atom "oracle-only"
      else handleNormal c

end UPVerif.Drv.C30
