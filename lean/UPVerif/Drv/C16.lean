import UPVerif.Core.Sexp
import UPVerif.Core.HashCons
import UPVerif.Core.HashConsPaths
/-! line-protocol handler for C16: runs one construction history through the model of the
    expression manager and prints, for every step, the node returned (as read right after the step)
    and, at the end, every node of the table.  Nodes are named by the rank of their `node_id`.
    Every step carries the PATH by which it is built: a bare constructor command is a call of the
    `ExpressionManager` method, `(sc <cmd>)` the `unified_planning.shortcuts` function of the same
    name, `(m <method> <receiver> <arg>…)` a method of FNode/Fluent/Parameter/Variable/Object called by
    name, `(op <operator> <left> <right>)` / `(un <operator> <operand>)` a Python infix / prefix
    operator, `(call <fluent> <arity> <copy> <arg>…)` the call of a Fluent object. -/
namespace UPVerif.Drv.C16
open UPVerif UPVerif.HashCons

def parseKey : List Sexp → Option String
  | [.atom k, .atom _copy] => some k      -- `_copy` selects one of several equal Python objects
  | _ => none

def parseLitNat (e : Sexp) : Option Nat := do
  let d ← e.asNat?
  if d = 0 then none else some d

def parseSArg : Sexp → Option SArg
  | .list [.atom "r", k] => k.asNat?.map .res
  | .list [.atom "b", b] => b.asBool?.map .bool
  | .list [.atom "i", z] => z.asInt?.map (fun z => .num (.int z))
  | .list [.atom "q", n, d] => do some (.num (.frac (← n.asInt?) (← parseLitNat d)))
  | .list [.atom "f", n, d] => do some (.num (.float (← n.asInt?) (← parseLitNat d)))
  | .list [.atom "s", .atom s] => some (.num (.str s))
  | .list [.atom "F", .atom k, ar, .atom _] => ar.asNat?.map (fun a => .fluent k a)
  | .list (.atom "P" :: r) => (parseKey r).map .param
  | .list (.atom "V" :: r) => (parseKey r).map .var
  | .list (.atom "O" :: r) => (parseKey r).map .obj
  | _ => none

def parsePArg : Sexp → Option (PArg SArg)
  | .list (.atom "L" :: xs) => (xs.mapM parseSArg).map .many
  | e => (parseSArg e).map .one

def parseVars (e : Sexp) : Option (List String) := do
  let xs ← e.asList?
  xs.mapM (fun x => do parseKey (← x.asList?))

def plainCtors : List (String × Ctor) := [
  ("And", .and), ("Or", .or), ("XOr", .xor), ("Not", .not), ("Implies", .implies), ("Iff", .iff),
  ("Always", .always), ("Sometime", .sometime), ("AtMostOnce", .atMostOnce),
  ("SometimeBefore", .sometimeBefore), ("SometimeAfter", .sometimeAfter),
  ("Plus", .plus), ("Minus", .minus), ("Times", .times), ("Div", .div),
  ("LE", .le), ("GE", .ge), ("LT", .lt), ("GT", .gt), ("Equals", .equals)]

def parseCmd : Sexp → Option Cmd
  | .list [.atom "TRUE"] => some ⟨.true_, []⟩
  | .list [.atom "FALSE"] => some ⟨.false_, []⟩
  | .list [.atom "Bool", b] => b.asBool?.map (fun b => ⟨.bool b, []⟩)
  | .list [.atom "IntOfBool", b] => b.asBool?.map (fun b => ⟨.intOfBool b, []⟩)
  | .list [.atom "Int", z] => z.asInt?.map (fun z => ⟨.int z, []⟩)
  | .list [.atom "Real", n, d] => do some ⟨.real (← n.asInt?) (← parseLitNat d), []⟩
  | .list (.atom "ParameterExp" :: r) => (parseKey r).map (fun k => ⟨.parameterExp k, []⟩)
  | .list (.atom "VariableExp" :: r) => (parseKey r).map (fun k => ⟨.variableExp k, []⟩)
  | .list (.atom "ObjectExp" :: r) => (parseKey r).map (fun k => ⟨.objectExp k, []⟩)
  | .list [.atom "FluentExp", .atom k, ar, .atom _, ps] => do
    some ⟨.fluentExp k (← ar.asNat?), [← parsePArg ps]⟩
  | .list [.atom "Exists", vs, e] => do some ⟨.exists (← parseVars vs), [← parsePArg e]⟩
  | .list [.atom "Forall", vs, e] => do some ⟨.forall (← parseVars vs), [← parsePArg e]⟩
  | .list (.atom name :: args) => do
    let c ← plainCtors.lookup name
    some ⟨c, ← args.mapM parsePArg⟩
  | _ => none

def methNames : List (String × Meth) := [
  ("__add__", .add), ("__radd__", .radd), ("__sub__", .sub), ("__rsub__", .rsub),
  ("__mul__", .mul), ("__rmul__", .rmul), ("__truediv__", .truediv), ("__rtruediv__", .rtruediv),
  ("__floordiv__", .floordiv), ("__rfloordiv__", .rfloordiv),
  ("__gt__", .gt), ("__ge__", .ge), ("__lt__", .lt), ("__le__", .le),
  ("__pos__", .pos), ("__neg__", .neg), ("Equals", .equals),
  ("And", .and_), ("__and__", .dand), ("__rand__", .rand),
  ("Or", .or_), ("__or__", .dor), ("__ror__", .ror), ("Not", .not_), ("__invert__", .invert),
  ("Xor", .xor), ("__xor__", .dxor), ("__rxor__", .rxor), ("Implies", .implies), ("Iff", .iff)]

def infixNames : List (String × Infix) := [
  ("add", .add), ("sub", .sub), ("mul", .mul), ("truediv", .truediv), ("floordiv", .floordiv),
  ("lt", .lt), ("le", .le), ("gt", .gt), ("ge", .ge), ("and", .and_), ("or", .or_), ("xor", .xor)]

def unaryNames : List (String × Unary) := [("invert", .invert), ("neg", .neg), ("pos", .pos)]

def parsePCmd : Sexp → Option PCmd
  | .list [.atom "sc", c] => (parseCmd c).map (fun c => ⟨.shortcut c.ctor, c.args⟩)
  | .list (.atom "m" :: .atom name :: self :: args) => do
    some ⟨.meth (← parseSArg self) (← methNames.lookup name), ← args.mapM parsePArg⟩
  | .list [.atom "op", .atom name, l, r] => do
    some ⟨.infix (← infixNames.lookup name), [← parsePArg l, ← parsePArg r]⟩
  | .list [.atom "un", .atom name, x] => do
    some ⟨.unary (← unaryNames.lookup name), [← parsePArg x]⟩
  | .list (.atom "call" :: .atom k :: ar :: .atom _copy :: args) => do
    some ⟨.call k (← ar.asNat?), ← args.mapM parsePArg⟩
  | e => (parseCmd e).map (fun c => ⟨.em c.ctor, c.args⟩)

def opName : Op → String
  | .boolC => "BOOL_CONSTANT" | .intC => "INT_CONSTANT" | .realC => "REAL_CONSTANT"
  | .fluent => "FLUENT_EXP" | .param => "PARAM_EXP" | .var => "VARIABLE_EXP" | .obj => "OBJECT_EXP"
  | .and => "AND" | .or => "OR" | .not => "NOT" | .implies => "IMPLIES" | .iff => "IFF"
  | .exists => "EXISTS" | .forall => "FORALL"
  | .always => "ALWAYS" | .sometime => "SOMETIME" | .sometimeBefore => "SOMETIME_BEFORE"
  | .sometimeAfter => "SOMETIME_AFTER" | .atMostOnce => "AT_MOST_ONCE"
  | .plus => "PLUS" | .minus => "MINUS" | .times => "TIMES" | .div => "DIV"
  | .le => "LE" | .lt => "LT" | .equals => "EQUALS"

def payloadOut : Payload → Sexp
  | .none => .atom "none"
  | .bool b => Sexp.tag "bool" [Sexp.ofBool b]
  | .int z => Sexp.tag "int" [Sexp.ofInt z]
  | .real q => Sexp.tag "real" [Sexp.ofInt q.num, Sexp.ofNat q.den]
  | .sym k => Sexp.tag "sym" [.atom k]
  | .vars ks => Sexp.tag "vars" (ks.map .atom)

def errName : Err → String
  | .arity => "arity" | .usage => "usage" | .value => "value" | .zeroDiv => "zero-div" | .type => "type"

/-- rank of the `node_id` of node `r` among all node ids of the final table -/
def rank (final : List FNode) (r : Ref) : Option Nat :=
  (final[r]?).map (fun n => (final.filter (fun x => x.nodeId < n.nodeId)).length)

def nodeOut (final : List FNode) (n : FNode) : Option (List Sexp) := do
  let as ← n.content.args.mapM (rank final)
  some [.atom (opName n.content.op), .list (as.map Sexp.ofNat), payloadOut n.content.payload]

/-- run the history step by step, keeping the manager state observed right after each step -/
def runSteps (m : Mgr) (rs : List Res) (acc : List (Mgr × Res)) : List PCmd → Option (Mgr × List (Mgr × Res))
  | [] => some (m, acc.reverse)
  | c :: cs =>
    match pstep m rs c with
    | none => none
    | some (m1, r) => runSteps m1 (rs ++ [r]) ((m1, r) :: acc) cs

def stepOut (final : List FNode) : Mgr × Res → Option Sexp
  | (_, .err e) => some (Sexp.tag "err" [.atom (errName e)])
  | (mi, .ok r) => do
    let n ← mi.heap[r]?                       -- read in the state right after the step
    let k ← rank final r
    some (Sexp.tag "ok" (Sexp.ofNat k :: (← nodeOut final n)))

def insertSorted (x : Nat × Sexp) : List (Nat × Sexp) → List (Nat × Sexp)
  | [] => [x]
  | y :: ys => if x.1 < y.1 then x :: y :: ys else y :: insertSorted x ys

def handle : Sexp → Sexp
  | .list (.atom "hist" :: cmds) =>
    match cmds.mapM parsePCmd with
    | none => .atom "bad-case"
    | some cs =>
      match runSteps Mgr.new [] [] cs with
      | none => .atom "bad-case"
      | some (m, snaps) =>
        let final := m.heap
        match snaps.mapM (stepOut final), final.mapM (fun n => (nodeOut final n).map (fun o => (n.nodeId, Sexp.list o))) with
        | some ss, some ns =>
          let sorted := ns.foldl (fun acc x => insertSorted x acc) []
          .list [Sexp.tag "steps" ss, Sexp.tag "nodes" (sorted.map (·.2)), Sexp.tag "count" [Sexp.ofNat m.expressions.length]]
        | _, _ => .atom "bad-case"
  | _ => .atom "bad-case"

end UPVerif.Drv.C16
