import UPVerif.Core.Sexp
import UPVerif.Core.ExprSexp
import UPVerif.Core.Problem
import UPVerif.Core.Sim
import UPVerif.Core.ExecEnv
import UPVerif.Drv.C01
/-!
Line-protocol handler for C35: runs the executable model of `SimulatedExecutionEnvironment`
(`Core/ExecEnv.lean`) on one case

  (env <problem> (type-defaults (type const)*) (sensing (action fluent-exp*)*) (hidden lit*)
       (oneof (lit*)*) (or (lit*)*) (maxc _|n) (seed n) (steps step*) (choice none | ((fluent-exp T|F)*)))
  step ::= (apply action (obj*)) | (goal)

`<problem>` is the wire format of `Core/Problem.lean`; the default of a fluent there is the PER-FLUENT
default given to `add_fluent`.  `choice` is what the real `random.choice` returned in the run of the
real code on the same case (the solver and the random generator are not modelled): the model checks
that it is one of ITS models and continues from it.  `seed` is for the real run only.

Answer: `(<models> <init> (<step answer>*))`
  models ::= (models bits*)            -- the model's `models`, one string of T/F per assignment over the
                                       -- hidden atoms in first-occurrence order of `hidden`
           | (raise key-error)
  init   ::= (state v*) | failed | not-a-model | choice-missing | (raise e)
  step   ::= (ok (obs (fluent-exp val)*) (state v*)) | (obs-raise e (state v*))
           | (not-applicable (state v*)) | (raise e (state v*)) | T | F | (raise e)
-/
namespace UPVerif.Drv.C35
open UPVerif UPVerif.Sim UPVerif.ExecEnv

def parseExprs (es : List Sexp) : Option (List Expr) := es.mapM parseExpr

def parseCProblem : List Sexp → Option CProblem
  | [ps, .list (.atom "type-defaults" :: tds), .list (.atom "sensing" :: ss), .list (.atom "hidden" :: hs),
     .list (.atom "oneof" :: os), .list (.atom "or" :: rs)] => do
    let base ← parseProblem ps
    let typeDefaults ← tds.mapM (fun e => match e with
      | .list [t, c] => do
        let ty ← parseTy t
        let ce ← parseExpr c
        some (ty, ce)
      | _ => none)
    let sensing ← ss.mapM (fun e => match e with
      | .list (.atom n :: fs) => (parseExprs fs).map (fun l => (n, l))
      | _ => none)
    let hidden ← parseExprs hs
    let oneofs ← os.mapM (fun e => match e with
      | .list ls => parseExprs ls
      | _ => none)
    let ors ← rs.mapM (fun e => match e with
      | .list ls => parseExprs ls
      | _ => none)
    some { base := base, typeDefaults := typeDefaults, sensing := sensing, hidden := hidden,
           oneofs := oneofs, ors := ors }
  | _ => none

def parseMaxc : Sexp → Option (Option Nat)
  | .atom "_" => some none
  | e => e.asNat?.map some

/-- `(choice none)` or `(choice ((fluent-exp T|F)*))`, re-ordered along the hidden atoms; every hidden
    atom must be given exactly once and nothing else -/
def parseChoice (atoms : List Expr) : Sexp → Option (Option Asg)
  | .atom "none" => some none
  | .list ps => do
    let pairs ← ps.mapM (fun p => match p with
      | .list [f, b] => do
        let fe ← parseExpr f
        let bb ← b.asBool?
        some (fe, bb)
      | _ => none)
    if pairs.length != atoms.length then none
    else
      let asg ← atoms.mapM (fun a => (pairs.lookup a).map (fun b => (a, b)))
      some (some asg)
  | _ => none

def bits (asg : Asg) : Sexp := .atom (String.ofList (asg.map (fun p => if p.2 then 'T' else 'F')))

def errAtom : EvalErr → Sexp
  | .missing => .atom "missing"
  | .zeroDiv => .atom "zero-div"
  | .other => .atom "other"

def dumpEnv (E : Env) : Sexp := Drv.C01.dump E.W E.st

def obsSexp (obs : List (Expr × Val)) : Sexp :=
  .list (.atom "obs" :: obs.map (fun p => .list [exprToSexp p.1, valToSexp p.2]))

def runStep (E : Env) : Sexp → Option (Sexp × Env)
  | .list [.atom "apply", .atom an, as] => do
    let args ← as.asStrs?
    let (out, E') ← E.apply an args
    match out with
    | .raised e => some (.list [.atom "raise", errAtom e, dumpEnv E'], E')
    | .notApplicable => some (.list [.atom "not-applicable", dumpEnv E'], E')
    | .done (.ok obs) => some (.list [.atom "ok", obsSexp obs, dumpEnv E'], E')
    | .done (.error e) => some (.list [.atom "obs-raise", errAtom e, dumpEnv E'], E')
  | .list [.atom "goal"] =>
    match E.isGoalReached with
    | .ok b => some (Sexp.ofBool b, E)
    | .error e => some (.list [.atom "raise", errAtom e], E)
  | _ => none

def runSteps : Env → List Sexp → List Sexp → Option (List Sexp)
  | _, [], out => some out.reverse
  | E, st :: sts, out =>
    match runStep E st with
    | none => none
    | some (a, E') => runSteps E' sts (a :: out)

def handle : Sexp → Sexp
  | .list [.atom "env", ps, tds, ss, hs, os, rs, .list [.atom "maxc", mcs], .list [.atom "seed", _],
           .list (.atom "steps" :: steps), .list [.atom "choice", ch]] =>
    match parseCProblem [ps, tds, ss, hs, os, rs], parseMaxc mcs with
    | some C, some mc =>
      if !keysInjective C then .atom "bad-case"
      else
        match parseChoice (hiddenAtoms C) ch with
        | none => .atom "bad-case"
        | some choice =>
          let simp := Drv.C01.simpTotal (Drv.C01.simpCfg C.base [])
          let fn : FunRef → List Val → Option Val := fun _ _ => none
          let ms : Sexp :=
            if symbolsOK C mc then .list (.atom "models" :: (models C mc).map bits)
            else .list [.atom "raise", .atom "key-error"]
          let fail (a : Sexp) : Sexp := .list [ms, a, .list []]
          match choice with
          | none =>
            -- the real run never reached `random.choice`'s return: the model must fail by itself
            if !symbolsOK C mc then fail (.list [.atom "raise", .atom "key-error"])
            else if (models C mc).isEmpty then fail (.atom "failed")
            else fail (.atom "choice-missing")
          | some asg =>
            match mkEnv C mc simp fn asg with
            | .error .keyError => fail (.list [.atom "raise", .atom "key-error"])
            | .error .noModel => fail (.atom "failed")
            | .error .notAModel => fail (.atom "not-a-model")
            | .error .rejected => fail (.atom "failed")
            | .error (.sim e) => fail (.list [.atom "raise", errAtom e])
            | .ok E =>
              match runSteps E steps [] with
              | none => .atom "bad-case"
              | some l => .list [ms, dumpEnv E, .list l]
    | _, _ => .atom "bad-case"
  | _ => .atom "bad-case"

end UPVerif.Drv.C35
