import UPVerif.Core.ExprSexp
/-! shared handlers: `ECHO` (wire-format round trip of an expression) and `DEN` (reference denotation) -/
namespace UPVerif.Drv.Den
open UPVerif

def handleEcho : Sexp → Sexp
  | e => match parseExpr e with
    | some x => exprToSexp x
    | none => .atom "bad-case"

/-- `(den <expr> <interp>)` → value | undef -/
def handleDen : Sexp → Sexp
  | .list [.atom "den", e, i] =>
    match parseExpr e, parseInterp i with
    | some x, some ι => optValToSexp (den ι [] x)
    | _, _ => .atom "bad-case"
  | _ => .atom "bad-case"

end UPVerif.Drv.Den
