import UPVerif.Core.Sexp
import UPVerif.Core.Kind
import UPVerif.Gen.Features
/-! line-protocol handler for C33: runs the executable model of ProblemKind on one case -/
namespace UPVerif.Drv.C33
open UPVerif UPVerif.Kind

def T := UPVerif.Gen.tables

def parseKind : Sexp → Option Kind
  | .list [.atom "k", fs, v] => do
    let feats ← fs.asStrs?
    let ver ← (match v with
      | .atom "none" => some none
      | e => e.asNat?.map some)
    some { feats := feats, version := ver }
  | _ => none

def sortStrs (l : List String) : List String := (l.toArray.qsort (· < ·)).toList
def dedup (l : List String) : List String := l.foldl (fun acc x => if acc.contains x then acc else acc ++ [x]) []

def kindOut (k : Kind) : Sexp :=
  .list [.atom "k", Sexp.ofStrs (sortStrs (dedup k.feats)),
         match k.version with | some v => Sexp.ofNat v | none => .atom "none"]

def handle : Sexp → Sexp
  | .list [.atom "pair", ea, eb] =>
    match parseKind ea, parseKind eb with
    | some a, some b =>
      if !(a.wf T) || !(b.wf T) then .atom "reject"
      else
        .list [ Sexp.tag "ver" [Sexp.ofNat (a.ver T), Sexp.ofNat (b.ver T)],
                Sexp.tag "eq" [Sexp.ofBool (a.eq T b)],
                Sexp.tag "le" [Sexp.ofBool (a.le T b), Sexp.ofBool (b.le T a)],
                Sexp.tag "hasheq" [Sexp.ofBool (seteq (a.hashKey T) (b.hashKey T))],
                Sexp.tag "union" [kindOut (a.union T b)],
                Sexp.tag "inter" [kindOut (a.inter T b)] ]
    | _, _ => .atom "bad-case"
  | _ => .atom "bad-case"

end UPVerif.Drv.C33
