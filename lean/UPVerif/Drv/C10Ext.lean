import UPVerif.Drv.C10
import UPVerif.Core.KindOfExt
/-!
Line-protocol handler for C10 including the problem subclasses.  `(kp …)` and `(extern …)` payloads
go to `Drv.C10.handle`; four further payload forms carry hierarchical, contingent, scheduling and
multi-agent problems and are answered by `kindOfH` / `kindOfC` / `kindOfS` / `kindOfM`.

```
(hp <kp> (tasks (name ((p type)*))*) (methods M*) (tn (vars (name type)*) (subtasks St*) (constraints e*)))
     M  ::= (method name ((p type)*) (task tname pname*) (pre e*) (subtasks St*) (constraints e*))
     St ::= (ident tname e*)      -- the achieved task of a method and the task of a subtask are not read by the model
(cp <kp> (sensing (aname e*)*) (or (e*)*) (oneof (e*)*))
     a sensing action is listed among the actions of <kp>; `(aname e*)` gives its observed fluents
(sp <problem> (xmetrics …) (flags T|F T|F) (vars (name type)*) (conds ((iv ..) e)*) (effs ((at ..) eff)*)
    (constraints Sc*) (activities A*) (facts …))
     <problem> has no actions, goals or trajectory constraints
     Sc ::= (e (e*))                         -- constraint and its scope
     A  ::= (activity name T|F ((p type)*) (dur lo hi) (conds ((iv ..) e)*) (effs ((at ..) eff)*) (constraints Sc*))
(map (types …) (objects (o T)*) (env (ref default|_)*) (agents Ag*) (goals e*))
     Ag ::= (agent name (fluents (ref default|_)*) (actions <action>*) (dactions D*) (public e*) (private e*))
```
`<kp>`, `D`, `(at ..)`, `(iv ..)`, `facts` as in `Drv/C10.lean`; in `<kp>` the `facts` also cover the
expressions of the extension.  A `(timing "kind|container|delay")` leaf must parse (`parseHTiming`).
-/
namespace UPVerif.Drv.C10Ext
open UPVerif UPVerif.KindOf UPVerif.Drv.C10

mutual
/-- every TIMING_EXP leaf carries a readable payload -/
def timingsOk : Expr → Bool
  | .leaf l => (match l with
    | .timing s => (parseHTiming s).isSome
    | _ => true)
  | .app _ as => timingsOkList as
  | .quant _ _ b => timingsOk b
def timingsOkList : List Expr → Bool
  | [] => true
  | e :: es => timingsOk e && timingsOkList es
end

def parseExprT (s : Sexp) : Option Expr := do
  let e ← parseExpr s
  if timingsOk e then some e else none

def parseSubtask : Sexp → Option Subtask
  | .list (.atom id :: .atom _task :: args) => (args.mapM parseExprT).map (fun as => { ident := id, args := as })
  | _ => none

def parseMethod : Sexp → Option Method
  | .list [.atom "method", .atom n, .list ps, .list (.atom "task" :: _), .list (.atom "pre" :: pre),
           .list (.atom "subtasks" :: sts), .list (.atom "constraints" :: cs)] => do
    let params ← parseParams ps
    let pre' ← pre.mapM parseExprT
    let sts' ← sts.mapM parseSubtask
    let cs' ← cs.mapM parseExprT
    some { name := n, params := params, pre := pre', subtasks := sts', constraints := cs' }
  | _ => none

def parseTaskNet : Sexp → Option TaskNet
  | .list [.atom "tn", .list (.atom "vars" :: vs), .list (.atom "subtasks" :: sts),
           .list (.atom "constraints" :: cs)] => do
    let vars ← parseParams vs
    let sts' ← sts.mapM parseSubtask
    let cs' ← cs.mapM parseExprT
    some { vars := vars, subtasks := sts', constraints := cs' }
  | _ => none

def parseH : Sexp → Option (HProblem × FactTables)
  | .list [.atom "hp", kp, .list (.atom "tasks" :: ts), .list (.atom "methods" :: ms), tn] => do
    let (K, ft) ← parseCase kp
    let tasks ← ts.mapM (fun t => match t with
      | .list [.atom n, .list ps] => (parseParams ps).map (fun p => (n, p))
      | _ => none)
    let methods ← ms.mapM parseMethod
    let net ← parseTaskNet tn
    some ({ base := K, tasks := tasks, methods := methods, tn := net }, ft)
  | _ => none

def hLinQueries (H : HProblem) : List Expr :=
  H.tn.constraints ++ H.methods.flatMap (fun m => m.pre ++ m.constraints)

def parseC : Sexp → Option (CProblem × FactTables)
  | .list [.atom "cp", kp, .list (.atom "sensing" :: ss), .list (.atom "or" :: ors),
           .list (.atom "oneof" :: ones)] => do
    let (K, ft) ← parseCase kp
    let obs ← ss.mapM (fun s => match s with
      | .list (.atom a :: es) => (es.mapM parseExpr).map (fun xs => (a, xs))
      | _ => none)
    -- an observation list must belong to a declared instantaneous action, and only to one
    if obs.any (fun s => !(K.iactions.any (fun a => a.name == s.1))) then none
    if (obs.map (·.1)).eraseDups.length != obs.length then none
    let plain := K.iactions.filter (fun a => (obs.lookup a.name).isNone)
    let sensing : List SAct := K.iactions.filterMap (fun a =>
      (obs.lookup a.name).map (fun o => { act := a, observed := o }))
    let ors' ← ors.mapM (fun c => match c with
      | .list es => es.mapM parseExpr
      | _ => none)
    let ones' ← ones.mapM (fun c => match c with
      | .list es => es.mapM parseExpr
      | _ => none)
    some ({ base := { K with iactions := plain }, sensing := sensing, orConstraints := ors',
            oneofConstraints := ones' }, ft)
  | _ => none

def parseCondList (cs : List Sexp) : Option (List (Interval × Expr)) :=
  cs.mapM (fun c => match c with
    | .list [iv, e] => do
      let i ← parseInterval iv
      let x ← parseExprT e
      some (i, x)
    | _ => none)

def parseTEffList (es : List Sexp) : Option (List (Timing × Effect)) :=
  es.mapM (fun c => match c with
    | .list [t, e] => do
      let i ← parseTiming t
      let x ← parseEffect e
      some (i, x)
    | _ => none)

def parseScopedList (cs : List Sexp) : Option (List (Expr × List Expr)) :=
  cs.mapM (fun c => match c with
    | .list [e, .list sc] => do
      let x ← parseExprT e
      let s ← sc.mapM parseExprT
      some (x, s)
    | _ => none)

def parseActivity : Sexp → Option Activity
  | .list [.atom "activity", .atom n, opt, .list ps, .list [.atom "dur", lo, hi], .list (.atom "conds" :: cs),
           .list (.atom "effs" :: es), .list (.atom "constraints" :: scs)] => do
    let o ← opt.asBool?
    let params ← parseParams ps
    let l ← parseExpr lo
    let h ← parseExpr hi
    let conds ← parseCondList cs
    let effs ← parseTEffList es
    let cons ← parseScopedList scs
    some { name := n, optional := o, params := params, durLo := l, durHi := h, conds := conds, effs := effs,
           constraints := cons }
  | _ => none

def parseS : Sexp → Option (SProblem × FactTables)
  | .list [.atom "sp", base, .list (.atom "xmetrics" :: xms), .list [.atom "flags", dt, so],
           .list (.atom "vars" :: vs), .list (.atom "conds" :: cs), .list (.atom "effs" :: es),
           .list (.atom "constraints" :: scs), .list (.atom "activities" :: acts),
           .list (.atom "facts" :: fs)] => do
    let B ← parseProblem base
    if !B.actions.isEmpty || !B.goals.isEmpty || !B.traj.isEmpty then none
    let xm ← xms.mapM parseXMetric
    let d ← dt.asBool?
    let s ← so.asBool?
    let vars ← parseParams vs
    let conds ← parseCondList cs
    let effs ← parseTEffList es
    let cons ← parseScopedList scs
    let activities ← acts.mapM parseActivity
    let ft ← parseFacts fs
    some ({ types := B.types, objects := B.objects, fluents := B.fluents, init := B.init,
            metrics := B.metrics.map ofMetric ++ xm, discreteTime := d, selfOverlapping := s,
            vars := vars, conds := conds, effs := effs, constraints := cons, activities := activities }, ft)
  | _ => none

def sLinQueries (X : SProblem) : List Expr :=
  let effc (te : Timing × Effect) := [te.2.cond]
  X.conds.map (·.2) ++ X.activities.flatMap (fun a => a.conds.map (·.2))
  ++ scopedExprs X.constraints ++ X.effs.flatMap effc
  ++ X.activities.flatMap (fun a => a.effs.flatMap effc ++ scopedExprs a.constraints)
  ++ X.metrics.flatMap (fun m => match m with
      | .minFinal e | .maxFinal e => [e]
      | .oversub gs => gs.map (·.1)
      | .toversub gs => gs.map (·.2.1)
      | m => costExprs m)

def parseDecl : Sexp → Option FluentDecl
  | .list [r, d] => do
    let (n, ty, sig) ← parseRef r
    let dflt ← (match d with
      | .atom "_" => some none
      | e => (parseExpr e).map some)
    some { ref := { name := n, ty := ty, sig := sig }, default := dflt }
  | _ => none

def parseMAgent : Sexp → Option MAgent
  | .list [.atom "agent", .atom n, .list (.atom "fluents" :: fls), .list (.atom "actions" :: acts),
           .list (.atom "dactions" :: ds), .list (.atom "public" :: pub), .list (.atom "private" :: priv)] => do
    let fs ← fls.mapM parseDecl
    let as ← acts.mapM parseAction
    let das ← ds.mapM parseDAct
    let pu ← pub.mapM parseExpr
    let pr ← priv.mapM parseExpr
    some { name := n, fluents := fs,
           iactions := as.map (fun a => { name := a.name, params := a.params, pre := a.pre, effs := a.effs, sim := none }),
           dactions := das, publicGoals := pu, privateGoals := pr }
  | _ => none

def parseM : Sexp → Option MProblem
  | .list [.atom "map", tys, .list (.atom "objects" :: objs), .list (.atom "env" :: efs),
           .list (.atom "agents" :: ags), .list (.atom "goals" :: gs)] => do
    let types ← parseTypeEnv tys
    let objects ← objs.mapM (fun o => match o with
      | .list [.atom n, .atom t] => some (n, t)
      | _ => none)
    let env ← efs.mapM parseDecl
    let agents ← ags.mapM parseMAgent
    let goals ← gs.mapM parseExpr
    some { types := types, objects := objects, envFluents := env, agents := agents, goals := goals }
  | _ => none

def factsOf (ft : FactTables) : Facts :=
  { lin := fun e => (lookupE ft.lin e).getD true, simpFluentExps := fun e => (lookupE ft.simp e).getD [] }

def missingFacts (ft : FactTables) (lin simp : List Expr) : Bool :=
  lin.any (fun e => (lookupE ft.lin e).isNone) || simp.any (fun e => (lookupE ft.simp e).isNone)

def answer : Option KS → Sexp
  | none => .list [.atom "error", .atom "not-groundable"]
  | some k => .list (.atom "kind" :: (sortStrs (dedup k)).map .atom)

def handle : Sexp → Sexp
  | .list (.atom "hp" :: rest) =>
    match parseH (.list (.atom "hp" :: rest)) with
    | none => .atom "bad-case"
    | some (H, ft) =>
      if missingFacts ft (linQueries H.base ++ hLinQueries H) (simpQueries H.base) then .atom "bad-case"
      else answer (kindOfH (factsOf ft) H)
  | .list (.atom "cp" :: rest) =>
    match parseC (.list (.atom "cp" :: rest)) with
    | none => .atom "bad-case"
    | some (C, ft) =>
      if missingFacts ft (linQueries C.toK) (simpQueries C.toK) then .atom "bad-case"
      else answer (kindOfC (factsOf ft) C)
  | .list (.atom "sp" :: rest) =>
    match parseS (.list (.atom "sp" :: rest)) with
    | none => .atom "bad-case"
    | some (X, ft) =>
      if missingFacts ft (sLinQueries X) [] then .atom "bad-case"
      else answer (kindOfS (factsOf ft) X)
  | .list (.atom "map" :: rest) =>
    match parseM (.list (.atom "map" :: rest)) with
    | none => .atom "bad-case"
    | some M => answer (some (kindOfM M))
  | c => Drv.C10.handle c

end UPVerif.Drv.C10Ext
