import UPVerif.Core.Sexp
import UPVerif.Core.Oversub
import UPVerif.Core.IFPlanner
import UPVerif.Core.IFChanging
/-!
Line-protocol handler for C31 (grammar: see harness/props/C31.py).

  (oversub PROBLEM (reach MASK*) (script (MASK STATUS)*))
      -> (STATUS MASK|_ (calls MASK*))
  (toversub (weights WEIGHT*) (same-interval T|F) (reach MASK*) (script (MASK STATUS)*))
      -> (STATUS MASK|_ (calls MASK*))
  (ifp PROBLEM (funs …) (script …) (trace (step STATUS VALID (KEY VALUE)*)*))
      -> ((done STATUS valid|_) (steps STEP*) (changing NAME*)) | ((raised UPException|AssertionError) (steps STEP*) (changing NAME*))
         | out-of-trace
  (ifchg PROBLEM)
      -> (changing NAME*)      the model of `InterpretedFunctionsRemover._find_changing_fluents` (Core/IFChanging.lean) on the
                               problem itself: names of the fluents that get an `_is_unknown` tracking fluent, sorted

The abstract underlying planner of the models is instantiated from the case: for `oversub` it answers a
subset query from the table of reachable exact subsets unless the script names the subset; for `ifp` the
sub-answers of the successive iterations are read from the recorded trace.
-/
namespace UPVerif.Drv.C31
open UPVerif UPVerif.Oversub

def parseRat (s : String) : Option Rat :=
  match s.splitOn "/" with
  | [a] => a.toInt?.map (fun z => (z : Rat))
  | [a, b] => do
    let z ← a.toInt?
    let n ← b.toNat?
    if n == 0 then none else some ((z : Rat) / (n : Rat))
  | _ => none

def parseMask (n : Nat) (s : String) : Option (List Bool) :=
  match s.toList with
  | 'm' :: bits =>
    if bits.length == n && bits.all (fun c => c == '0' || c == '1') then some (bits.map (· == '1')) else none
  | _ => none

def maskStr (bs : List Bool) : String := "m" ++ String.ofList (bs.map (fun b => if b then '1' else '0'))

/-- the `(GOAL WEIGHT)` pairs of the single `oversub` metric of a problem s-expression (`[]` when the
    problem has no metric); `none` on any other shape -/
def softGoals : Sexp → Option (List (Sexp × Rat))
  | .list (.atom "problem" :: _ :: sections) =>
    let ms : List (List Sexp) := sections.filterMap (fun s => match s with
        | Sexp.list (Sexp.atom "metrics" :: ms) => some ms
        | _ => none)
    match ms with
    | [[]] => some []
    | [[Sexp.list [Sexp.atom "oversub", Sexp.list pairs]]] =>
      pairs.mapM (fun p => match p with
        | Sexp.list [g, Sexp.atom w] => (parseRat w).map (fun q => (g, q))
        | _ => none)
    | _ => none
  | _ => none

def distinct : List Sexp → Bool
  | [] => true
  | x :: xs => !(xs.contains x) && distinct xs

/-- runs the model on goal keys `0..n-1` with the given weights (dict order) -/
def runOversub (weights : List Rat) (reach script : List Sexp) : Sexp :=
    let n := weights.length
    let goals : List (Nat × Rat) := (List.range n).zip weights
    let reach? := reach.mapM (fun e => e.asAtom?.bind (parseMask n))
    let script? := script.mapM (fun e => match e with
      | .list [.atom m, .atom st] => do
        let bs ← parseMask n m
        let s ← Status.ofName st
        if s.isPositive then none else some (bs, s)
      | _ => none)
    match reach?, script? with
    | some reachL, some scriptL =>
      let ans : List (Nat × Bool) → Answer (List Bool) := fun q =>
        let m := q.map Prod.snd
        match scriptL.lookup m with
        | some st => ⟨st, none⟩
        | none => if reachL.contains m then ⟨.solvedSat, some m⟩ else ⟨.unsolvableProven, none⟩
      let r := solve ans goals
      let asked := ((queue goals).take r.calls).map (fun t => (encode goals t.2).map Prod.snd)
      .list [.atom r.status.name,
             (match r.plan with | some m => .atom (maskStr m) | none => .atom "_"),
             Sexp.tag "calls" (asked.map (fun m => .atom (maskStr m)))]
    | _, _ => .atom "bad-case"

def handleOversub (problem : Sexp) (reach script : List Sexp) : Sexp :=
  match softGoals problem with
  | none => .atom "bad-case"
  | some soft =>
    if !(distinct (soft.map Prod.fst)) then .atom "bad-case"
    else runOversub (soft.map Prod.snd) reach script

/-- temporal oversubscription: the timed goals are pairwise distinct by construction of the case -/
def handleTOversub (weights reach script : List Sexp) : Sexp :=
  match weights.mapM (fun w => w.asAtom?.bind parseRat) with
  | none => .atom "bad-case"
  | some ws => runOversub ws reach script

structure Step where
  status : Status
  valid : Option Bool
  vals : List (String × String)
  raw : Sexp

def parseStep : Sexp → Option Step
  | .list (.atom "step" :: .atom st :: .atom v :: kvs) => do
    let s ← Status.ofName st
    let valid ← (match v with
      | "T" => some (some true)
      | "F" => some (some false)
      | "_" => some none
      | _ => none)
    let vals ← kvs.mapM (fun kv => match kv with
      | .list [.atom k, .atom x] => some (k, x)
      | _ => none)
    if s.isPositive != valid.isSome then none
    else some ⟨s, valid, vals, .list (.atom "step" :: .atom st :: .atom v :: kvs)⟩
  | _ => none

/-- `(changing NAME*)`: `findChanging` on the parsed problem, names sorted (the Python side sorts the set) -/
def changingOf (problem : Sexp) : Option Sexp :=
  match parseProblem problem with
  | none => none
  | some P =>
    match IFChanging.findChanging P with
    | none => some (.atom "out-of-fuel")      -- never: Props/C31Closure.C31_changing_terminates
    | some S =>
      let names := (S.map (·.name)).mergeSort (fun a b => decide (a ≤ b))
      some (Sexp.tag "changing" (names.map Sexp.atom))

def handleIfp (problem : Sexp) (trace : List Sexp) : Sexp :=
  match trace.mapM parseStep, changingOf problem with
  | none, _ => .atom "bad-case"
  | _, none => .atom "bad-case"
  | some steps, some chg =>
    let solveAt : Nat → List (String × String) → Answer Nat := fun i _ =>
      match steps[i]? with
      | some s => ⟨s.status, if s.status.isPositive then some i else none⟩
      | none => ⟨.intermediate, none⟩    -- never consulted: the fuel below is the length of the trace
    let validate : Nat → Bool × List (String × String) := fun p =>
      match steps[p]? with
      | some s => (s.valid.getD false, s.vals)
      | none => (false, [])
    let (out, iters) := IFPlanner.solve solveAt validate steps.length
    let echo := Sexp.tag "steps" ((steps.take iters).map (·.raw))
    match out with
    | .done st p => .list [.list [.atom "done", .atom st.name, .atom (if p.isSome then "valid" else "_")], echo, chg]
    | .noProgress => .list [.list [.atom "raised", .atom "UPException"], echo, chg]
    | .noPlan => .list [.list [.atom "raised", .atom "AssertionError"], echo, chg]
    | .outOfFuel => .atom "out-of-trace"

def section? (head : String) (rest : List Sexp) : Option (List Sexp) :=
  rest.findSome? (fun s => match s with
    | .list (.atom h :: xs) => if h == head then some xs else none
    | _ => none)

def handle : Sexp → Sexp
  | .list (.atom "oversub" :: problem :: rest) =>
    match section? "reach" rest, section? "script" rest with
    | some reach, some script => handleOversub problem reach script
    | _, _ => .atom "bad-case"
  | .list (.atom "toversub" :: rest) =>
    match section? "weights" rest, section? "reach" rest, section? "script" rest with
    | some ws, some reach, some script => handleTOversub ws reach script
    | _, _, _ => .atom "bad-case"
  | .list (.atom "ifp" :: problem :: rest) =>
    match section? "trace" rest with
    | some trace => handleIfp problem trace
    | none => .atom "bad-case"
  | .list [.atom "ifchg", problem] => (changingOf problem).getD (.atom "bad-case")
  | _ => .atom "bad-case"

end UPVerif.Drv.C31
