import UPVerif.Core.Sexp
import UPVerif.Core.ExprSexp
import UPVerif.Core.PddlTTPlan
/-!
Line-protocol handler for the plan-text cases of C18 (called from `Drv/C18.lean`).

```
(ttplan (ren R*) <sig> <plan> …)        -> (ok (text c*) <back>) | inexact | unsupported
(ttread (ren R*) <sig> (text c*) …)     -> <back>
sig   ::= (sig (types (t father|_)*) (objs (o t)*) (acts (a t*)*))
plan  ::= (tt (start name (obj*) dur|-)*) | (seq (name obj*)*)
back  ::= <plan> | (error UPException|AssertionError|UPTypeError|TypeError)
c     ::= code point of one character of the text
```
`ttplan`: the text the writer model prints for the plan, and what the reader model reads from that text.
`ttread`: what the reader model reads from an arbitrary text.
-/
namespace UPVerif.Drv.C18TTPlan
open UPVerif UPVerif.Pddl UPVerif.Pddl.TTP

def parseRenEntry : Sexp → Option (NameKey × String)
  | .list [.atom "problem", .atom n] => some (.problem, n)
  | .list [.atom "ty", .atom o, .atom n] => some (.ty o, n)
  | .list [.atom "fluent", .atom o, .atom n] => some (.fluent o, n)
  | .list [.atom "obj", .atom o, .atom n] => some (.obj o, n)
  | .list [.atom "action", .atom o, .atom n] => some (.action o, n)
  | .list [.atom "param", .atom o, .atom t, .atom n] => some (.param o t, n)
  | .list [.atom "var", .atom o, .atom t, .atom n] => some (.var o t, n)
  | _ => none

def parseRen : Sexp → Option (List (NameKey × String))
  | .list (.atom "ren" :: es) => es.mapM parseRenEntry
  | _ => none

def renOf := renOfTable
def invOf := invOfTable

def parseSig : Sexp → Option PlanSig
  | .list [.atom "sig", .list (.atom "types" :: ts), .list (.atom "objs" :: os), .list (.atom "acts" :: as)] => do
    let fathers ← ts.mapM (fun t => match t with
      | .list [.atom n, .atom f] => some (n, if f == "_" then none else some f)
      | _ => none)
    let objs ← os.mapM (fun o => match o with
      | .list [.atom n, .atom t] => some (n, t)
      | _ => none)
    let acts ← as.mapM (fun a => match a with
      | .list (.atom n :: pts) => (pts.mapM Sexp.asAtom?).map (fun l => (n, l))
      | _ => none)
    some { types := { fathers := fathers }, objType := fun o => objs.lookup o, actParams := fun a => acts.lookup a }
  | _ => none

def parseDur : Sexp → Option (Option Rat)
  | .atom "-" => some none
  | .atom q => (parseRat q).map some
  | _ => none

def parseTStep : Sexp → Option TStep
  | .list [.atom st, .atom a, .list os, d] => do
    let s ← parseRat st
    let args ← os.mapM Sexp.asAtom?
    let du ← parseDur d
    some { start := s, act := a, args := args, dur := du }
  | _ => none

def parsePlan : Sexp → Option Plan
  | .list (.atom "tt" :: steps) => (steps.mapM parseTStep).map .tt
  | .list (.atom "seq" :: steps) => (steps.mapM (fun (s : Sexp) => match s with
      | Sexp.list (Sexp.atom a :: os) => (os.mapM Sexp.asAtom?).map (fun l => (a, l))
      | _ => none)).map .seq
  | _ => none

def parseText : Sexp → Option (List Char)
  | .list (.atom "text" :: cs) => cs.mapM (fun c => c.asNat?.map Char.ofNat)
  | _ => none

def textToSexp (cs : List Char) : Sexp := .list (.atom "text" :: cs.map (fun c => Sexp.ofNat c.toNat))

def planToSexp : Plan → Sexp
  | .tt steps => .list (.atom "tt" :: steps.map (fun s => .list [.atom (ratToString s.start), .atom s.act,
      .list (s.args.map .atom), match s.dur with | none => .atom "-" | some d => .atom (ratToString d)]))
  | .seq steps => .list (.atom "seq" :: steps.map (fun s => .list (.atom s.1 :: s.2.map .atom)))

def backToSexp : Except RErr Plan → Sexp
  | .ok p => planToSexp p
  | .error .upException => .list [.atom "error", .atom "UPException"]
  | .error .assertion => .list [.atom "error", .atom "AssertionError"]
  | .error .upTypeError => .list [.atom "error", .atom "UPTypeError"]
  | .error .typeError => .list [.atom "error", .atom "TypeError"]
  | .error .badTables => .atom "bad-case"

def handle : Sexp → Sexp
  | .list (.atom "ttplan" :: r :: sg :: p :: _) =>
    match parseRen r, parseSig sg, parsePlan p with
    | some tbl, some sig, some plan =>
      match writePlan (renOf tbl) plan with
      | .ok text => .list [.atom "ok", textToSexp text, backToSexp (parsePlanString (invOf tbl) sig text)]
      | .error .inexact => .atom "inexact"
      | .error .unknown => .atom "unsupported"
    | _, _, _ => .atom "bad-case"
  | .list (.atom "ttread" :: r :: sg :: t :: _) =>
    match parseRen r, parseSig sg, parseText t with
    | some tbl, some sig, some text => backToSexp (parsePlanString (invOf tbl) sig text)
    | _, _, _ => .atom "bad-case"
  | _ => .atom "bad-case"

end UPVerif.Drv.C18TTPlan
