import UPVerif.Core.ExprSexp
import UPVerif.Core.Walkers.Substitute
import UPVerif.Core.DagWalker
/-!
Line-protocol handler for C13.

  case    ::= (subst <expr> ((<key> <value> T|F)*))     T|F = verdict of `key.type.is_compatible(value.type)`
                                                         computed by the harness on the real types
            | (hist (reject <expr>*) <call>*)            a HISTORY of calls on the shared substituter of ONE
                                                         environment; `reject` = the nodes the real expression
                                                         manager refuses to build (measured by the harness)
  call    ::= (subst <expr> ((<key> <value> T|F)*))
  answer  ::= (ok <expr>) | reject | bad-case            for a single call (pure recursion `substituteChecked`)
            | (hist <ans>*)                              one answer per call, computed by the stack-and-cache
                                                         machine `Dag.Env.run` started on a fresh environment
  ans     ::= (ok <expr>) | reject | undefined | broken  undefined = the walk raised at a refused node;
                                                         broken = KeyError / out of fuel (never: theorem)

Keys must be pairwise distinct (the Python side passes a dict).
-/
namespace UPVerif.Drv.C13
open UPVerif UPVerif.Expr

def parsePair : Sexp → Option ((Expr × Expr) × Bool)
  | .list [k, v, b] => do
    let k' ← parseExpr k
    let v' ← parseExpr v
    let b' ← b.asBool?
    some ((k', v'), b')
  | _ => none

def distinctKeys : List (Expr × Expr) → Bool
  | [] => true
  | kv :: r => (r.all (fun kv' => !(decide (kv'.1 = kv.1)))) && distinctKeys r

/-- one call of a history, for `Dag.Env.call` -/
def parseCall : Sexp → Option Dag.Call
  | .list [.atom "subst", e, .list ps] => do
    let x ← parseExpr e
    let pairs ← ps.mapM parsePair
    if !distinctKeys (pairs.map (·.1)) then none
    else some (.subst (pairs.map (fun p => (p.1.1, p.1.2, p.2))) x)
  | _ => none

def ansOut : Dag.Ans → Sexp
  | .expr e => .list [.atom "ok", exprToSexp e]
  | .incompatible => .atom "reject"
  | .raised _ => .atom "undefined"
  | _ => .atom "broken"

def handle : Sexp → Sexp
  | .list (.atom "hist" :: .list (.atom "reject" :: rej) :: calls) =>
    match rej.mapM parseExpr, calls.mapM parseCall with
    | some rs, some cs =>
      .list (.atom "hist" :: (Dag.Env.run (fun n => rs.contains n) Dag.Env.fresh cs).1.map ansOut)
    | _, _ => .atom "bad-case"
  | .list [.atom "subst", e, .list ps] =>
    match parseExpr e, ps.mapM parsePair with
    | some x, some pairs =>
      let σ : Subst := pairs.map (·.1)
      if !distinctKeys σ then .atom "bad-case"
      else
        let compat : Expr → Expr → Bool := fun k v =>
          match pairs.find? (fun p => decide (p.1.1 = k) && decide (p.1.2 = v)) with
          | some p => p.2
          | none => false
        match substituteChecked compat σ x with
        | some r => .list [.atom "ok", exprToSexp r]
        | none => .atom "reject"
    | _, _ => .atom "bad-case"
  | _ => .atom "bad-case"

end UPVerif.Drv.C13
