import UPVerif.Core.ExprSexp
import UPVerif.Core.Walkers.Substitute
/-!
Line-protocol handler for C13.

  case    ::= (subst <expr> ((<key> <value> T|F)*))     T|F = verdict of `key.type.is_compatible(value.type)`
                                                         computed by the harness on the real types
  answer  ::= (ok <expr>) | reject | bad-case

Keys must be pairwise distinct (the Python side passes a dict).
-/
namespace UPVerif.Drv.C13
open UPVerif UPVerif.Expr

def parsePair : Sexp → Option ((Expr × Expr) × Bool)
  | .list [k, v, b] => do
    let k' ← parseExpr k
    let v' ← parseExpr v
    let b' ← b.asBool?
    some ((k', v'), b')
  | _ => none

def distinctKeys : List (Expr × Expr) → Bool
  | [] => true
  | kv :: r => (r.all (fun kv' => !(decide (kv'.1 = kv.1)))) && distinctKeys r

def handle : Sexp → Sexp
  | .list [.atom "subst", e, .list ps] =>
    match parseExpr e, ps.mapM parsePair with
    | some x, some pairs =>
      let σ : Subst := pairs.map (·.1)
      if !distinctKeys σ then .atom "bad-case"
      else
        let compat : Expr → Expr → Bool := fun k v =>
          match pairs.find? (fun p => decide (p.1.1 = k) && decide (p.1.2 = v)) with
          | some p => p.2
          | none => false
        match substituteChecked compat σ x with
        | some r => .list [.atom "ok", exprToSexp r]
        | none => .atom "reject"
    | _, _ => .atom "bad-case"
  | _ => .atom "bad-case"

end UPVerif.Drv.C13
