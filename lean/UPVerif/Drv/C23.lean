import UPVerif.Drv.C22
/-!
Line-protocol handler for C23: the histories of `Drv/C22.lean` (same format, same answer) plus

```
(inst ENV ((P TYPE)*) (EXPR*))     -- ActionInstance(action with these parameters, actual parameters)
answer ::= ok | CLS
```
-/
namespace UPVerif.Drv.C23
open UPVerif UPVerif.Build Sexp

def handle : Sexp → Sexp
  | .list [.atom "inst", env, .list ps, .list args] =>
    match C22.parseEnv env, C22.parseParams ps, args.mapM parseExpr with
    | some E, some params, some as =>
      match mkInstance E params as with
      | .ok _ => .atom "ok"
      | .error e => .atom (C22.errName e)
    | _, _, _ => .atom "bad-case"
  | e => C22.handle e

end UPVerif.Drv.C23
