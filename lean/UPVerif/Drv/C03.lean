import UPVerif.Core.Validate
import UPVerif.Drv.C01
/-!
Line-protocol handler of C03: runs the executable model of `SequentialPlanValidator._validate`
(`Core/Validate.lean`, variant `repaired`) on one case

  (validate <problem> (fn (ref (val*) val)*) (plans (plan step*)*) [(temporal-metric makespan|temporal-oversub)])
  step ::= (do action (arg*))        an instance of an action of the problem; an actual parameter is the atom that
                                     spells it (`Sim.argExpr`): object name | true/false | integer | n or n/d
         | (foreign name)            an instance of a parameterless action that is NOT in the problem

Answer: one entry per plan, `(valid _)` | `(valid q)` | `(invalid inapplicable-action|unsatisfied-goals <why> <step>)` |
`rejected` | `crash` | `(raise missing|zero-div|other)`.

The optional last element says that the real problem carries, besides the metrics of <problem>, one temporal
metric that the wire format cannot express (`Validate.validateT`).

World construction (simplifier = property C11's model configured like `env.simplifier`, interpreted
functions as tables) is shared with `Drv/C01.lean`.
-/
namespace UPVerif.Drv.C03
open UPVerif UPVerif.Sim UPVerif.Validate

def inBounds (lb ub : Option Rat) (q : Rat) : Bool :=
  (match lb with | some l => l ≤ q | none => true) && (match ub with | some u => q ≤ u | none => true)

/-- the atom spells a constant that `ActionInstance.__init__` accepts for a formal parameter of type `t`
    (an object of the problem; a Boolean; a number inside the bounds of the type) -/
def argOK (P : Problem) (t : Ty) (s : String) : Bool :=
  match t with
  | .user _ => (P.objects.lookup s).isSome
  | .bool => s == "true" || s == "false"
  | .int lb ub => (match ArgLit.parseInt s.toList with
    | some z => inBounds (lb.map (fun (x : Int) => (x : Rat))) (ub.map (fun (x : Int) => (x : Rat))) (z : Rat)
    | none => false)
  | .real lb ub => (match ArgLit.parseNum s.toList with
    | some n => inBounds lb ub n.toRat
    | none => false)
  | .time => false

def parseStep (P : Problem) : Sexp → Option Inst
  | .list [.atom "do", .atom an, as] => do
    let args ← as.asStrs?
    let a ← P.action? an
    -- as many actual parameters as the action has parameters, each a constant of the parameter's type
    if args.length = a.params.length ∧ (a.params.zip args).all (fun pa => argOK P pa.1.2 pa.2) then some (a, args) else none
  | .list [.atom "foreign", .atom an] =>
    if (P.action? an).isSome then none
    else some ({ name := an, params := [], pre := [], effs := [] }, [])
  | _ => none

def parsePlan (P : Problem) : Sexp → Option (List Inst)
  | .list (.atom "plan" :: steps) => steps.mapM (parseStep P)
  | _ => none

def whySexp : Why → Sexp
  | .unsatPre => .atom "unsat-pre"
  | .usage => .atom "usage"
  | .invalidAction => .atom "invalid-action"
  | .conflict => .atom "conflict"
  | .missing => .atom "missing"
  | .goals => .atom "goals"
  | .finalMissing => .atom "final-missing"

def reasonSexp : FailReason → Sexp
  | .inapplicableAction => .atom "inapplicable-action"
  | .unsatisfiedGoals => .atom "unsatisfied-goals"

def resultSexp : Except EvalErr VResult → Sexp
  | .error e => Drv.C01.errSexp e
  | .ok (.valid none) => .list [.atom "valid", .atom "_"]
  | .ok (.valid (some q)) => .list [.atom "valid", .atom (ratToString q)]
  | .ok (.invalid w i) => .list [.atom "invalid", reasonSexp w.reason, whySexp w, Sexp.ofNat i]
  | .ok .rejected => .atom "rejected"
  | .ok .crash => .atom "crash"

def run (ps : Sexp) (fns plans : List Sexp) (t : Option TemporalMetric) : Sexp :=
  match parseProblem ps, Drv.C01.parseFnTable fns with
  | some P, some tab =>
    let W : World := { P := P, simp := Drv.C01.simpTotal (Drv.C01.simpCfg P tab), fn := Drv.C01.fnOfTable tab }
    match plans.mapM (parsePlan P) with
    | some πs => .list (πs.map (fun π => resultSexp (validateT .repaired W t π)))
    | none => .atom "bad-case"
  | _, _ => .atom "bad-case"

def handle : Sexp → Sexp
  | .list [.atom "validate", ps, .list (.atom "fn" :: fns), .list (.atom "plans" :: plans)] => run ps fns plans none
  | .list [.atom "validate", ps, .list (.atom "fn" :: fns), .list (.atom "plans" :: plans),
           .list [.atom "temporal-metric", .atom k]] =>
    match k with
    | "makespan" => run ps fns plans (some .makespan)
    | "temporal-oversub" => run ps fns plans (some .temporalOversub)
    | _ => .atom "bad-case"
  | _ => .atom "bad-case"

end UPVerif.Drv.C03
