import UPVerif.Core.Sexp
import UPVerif.Core.STN
/-!
line-protocol handler for C25: runs the executable model of DeltaSimpleTemporalNetwork on one case.

Payloads
* `(hist op…)` with `op = (add i x y b) | (copy i)`: a history over live networks (network 0 is a
  fresh one, `copy i` appends `nets[i].copy_stn()`).  Answer: `((trace T|F…) (nets net…))` — the
  consistency flag of the touched/created network after every op and a dump of every network at
  the end.
* `(tree (pre (x y b)…) (ext (x y b)…))`: the prefix is inserted into network 0, then every
  extension is inserted into its own fresh copy of network 0.  Answer:
  `((pre net) (leaves "<S d,d,…|U>;…") (post net))` (distances in sorted event order).

Fuel: `(E+2)·(A+2)²` pops per `add`, where `E`/`A` = number of distinct events / of `add`s in the
whole case.  `out-of-fuel` is answered when it does not suffice (it then shows up as a
disagreement with the real code, which has terminated).  Op indices are checked with
`wellIndexed` first, so that `run = none` can only mean fuel.
-/
namespace UPVerif.Drv.C25
open UPVerif UPVerif.STN

def parseRat (s : String) : Option Rat :=
  match s.splitOn "/" with
  | [n] => n.toInt?.map fun z => (z : Rat)
  | [n, d] => do
    let z ← n.toInt?
    let k ← d.toNat?
    if k = 0 then none else some (mkRat z k)
  | _ => none

def ratOut (r : Rat) : String :=
  if r.den = 1 then toString r.num else toString r.num ++ "/" ++ toString r.den

def parseCon : List Sexp → Option (Con String)
  | [.atom x, .atom y, .atom b] => (parseRat b).map fun r => { x := x, y := y, b := r }
  | _ => none

def parseOp : Sexp → Option (Op String)
  | .list (.atom "add" :: i :: rest) => do
    let n ← i.asNat?
    let c ← parseCon rest
    some (.add n c)
  | .list [.atom "copy", i] => i.asNat?.map .copy
  | _ => none

def sortStrs (l : List String) : List String := (l.toArray.qsort (· < ·)).toList
def dedup (l : List String) : List String := l.foldl (fun acc x => if acc.contains x then acc else acc ++ [x]) []

def netOut (s : Net String) : Sexp :=
  let keys := sortStrs (s.dist.map (·.1))
  let dist := if s.sat then keys.map fun k => Sexp.list [.atom k, .atom (ratOut (get s.dist k)), .atom (ratOut (model s k))] else []
  let gc := getConstraints s
  let cons := keys.map fun k =>
    Sexp.list (.atom k :: ((lookup k gc).getD []).map fun (w, v) => Sexp.list [.atom (ratOut w), .atom v])
  .list [.atom "net", Sexp.ofBool (checkStn s), Sexp.tag "dist" dist, Sexp.tag "cons" cons]

def leafOut (s : Net String) : String :=
  if s.sat then
    "S" ++ ",".intercalate ((sortStrs (s.dist.map (·.1))).map fun k => ratOut (get s.dist k))
  else "U"

def opEvents : Op String → List String
  | .add _ c => [c.x, c.y]
  | .copy _ => []

def fuelFor (ops : List (Op String)) : Nat :=
  let e := (dedup (ops.flatMap opEvents)).length
  let a := (ops.filter fun o => match o with | .add .. => true | _ => false).length
  (e + 2) * (a + 2) * (a + 2)

/-- run with the per-op trace of consistency flags -/
def runTrace (fuel : Nat) : List (Net String) → List (Op String) → List Bool → Option (List (Net String) × List Bool)
  | nets, [], tr => some (nets, tr.reverse)
  | nets, o :: os, tr =>
    match step fuel nets o with
    | some nets' =>
      let flag := match o with
        | .add i _ => (nets'[i]?.map checkStn).getD false
        | .copy _ => (nets'.getLast?.map checkStn).getD false
      runTrace fuel nets' os (flag :: tr)
    | none => none

def handle : Sexp → Sexp
  | .list (.atom "hist" :: es) =>
    match es.mapM parseOp with
    | some ops =>
      if !wellIndexed 1 ops then .atom "bad-case"
      else
        match runTrace (fuelFor ops) [empty] ops [] with
        | some (nets, tr) => .list [Sexp.tag "trace" (tr.map Sexp.ofBool), Sexp.tag "nets" (nets.map netOut)]
        | none => .atom "out-of-fuel"
    | none => .atom "bad-case"
  | .list [.atom "tree", .list (.atom "pre" :: ps), .list (.atom "ext" :: xs)] =>
    match ps.mapM (fun e => e.asList?.bind parseCon), xs.mapM (fun e => e.asList?.bind parseCon) with
    | some pre, some ext =>
      let preOps : List (Op String) := pre.map (Op.add 0)
      let extOps : List (Op String) := (ext.zipIdx).flatMap fun (c, k) => [Op.copy 0, Op.add (k + 1) c]
      let fuel := fuelFor (preOps ++ extOps)
      match run fuel [empty] preOps with
      | some [s0] =>
        match run fuel [s0] extOps with
        | some (s0' :: leaves) =>
          .list [Sexp.tag "pre" [netOut s0],
                 Sexp.tag "leaves" [.atom (";".intercalate (leaves.map leafOut))],
                 Sexp.tag "post" [netOut s0']]
        | _ => .atom "out-of-fuel"
      | _ => .atom "out-of-fuel"
    | _, _ => .atom "bad-case"
  | _ => .atom "bad-case"

end UPVerif.Drv.C25
