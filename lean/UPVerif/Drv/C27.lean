import UPVerif.Core.Sexp
import UPVerif.Core.Deorder
import UPVerif.Drv.C01
/-!
Line-protocol handler for C27: the model of `SequentialPlan._to_partial_order_plan` on one case

  (deorder <problem> (fn (ref (val*) val)*) (plan (action (obj*))*))

answers `(usage)` when the conversion raises `UPUsageError`, otherwise

  (ok (n N) (raw (i j)*) (red (i j)*) (nlin K) (valid T|F|raise|rejected) (covers T|F|-) (linok K|-))

* `raw`  edges of the graph before `nx.transitive_reduction`, `red` after it (sorted, no duplicates);
* `nlin` number of topological orderings of the reduced graph;
* `valid` the plan executed by the model of the simulator from the initial state, goals included;
* `covers` (valid plans only) the decidable hypothesis of `C27_all_linearisations_partial`;
* `linok` (valid plans with at most 120 orderings) how many orderings are valid AND end in a state
  that reads like the final state of the plan on every ground fluent.

The world (simplifier = property C11's model, interpreted functions as tables) is built exactly as in
`Drv/C01.lean`.
-/
namespace UPVerif.Drv.C27
open UPVerif UPVerif.Sim UPVerif.Deorder

def leEdge (a b : Nat × Nat) : Bool := a.1 < b.1 || (a.1 == b.1 && a.2 <= b.2)

def normEdges (E : List (Nat × Nat)) : List (Nat × Nat) :=
  ((E.eraseDups).toArray.qsort (fun a b => leEdge a b && a != b)).toList

def edgesSexp (E : List (Nat × Nat)) : List Sexp :=
  (normEdges E).map (fun e => .list [Sexp.ofNat e.1, Sexp.ofNat e.2])

def parseStep (W : World) : Sexp → Option (Action × List String)
  | .list [.atom an, as] => do
    let args ← as.asStrs?
    Drv.C01.findInstance W an args
  | _ => none

/-- the plan from the initial state, goals included -/
def validity (W : World) (π : List (Action × List String)) : Sexp × Option (SimState × SimState) :=
  match getInitialState W with
  | .error _ => (.atom "raise", none)
  | .ok none => (.atom "rejected", none)
  | .ok (some s0) =>
    match run W s0 π with
    | .error _ => (.atom "raise", none)
    | .ok none => (.atom "F", none)
    | .ok (some sf) =>
      match isGoal W sf with
      | .error _ => (.atom "raise", none)
      | .ok false => (.atom "F", none)
      | .ok true => (.atom "T", some (s0, sf))

def linOk (W : World) (π : List (Action × List String)) (s0 sf : SimState) (l : List Nat) : Bool :=
  match run W s0 (reorder π l) with
  | .ok (some sf') =>
    (Drv.C01.allKeys W.P).all (fun k => sf'.get W.P k == sf.get W.P k) &&
      (match isGoal W sf' with | .ok true => true | _ => false)
  | _ => false

def handle : Sexp → Sexp
  | .list [.atom "deorder", ps, .list (.atom "fn" :: fns), .list (.atom "plan" :: steps)] =>
    match parseProblem ps, Drv.C01.parseFnTable fns with
    | some P, some tab =>
      let W : World := { P := P, simp := Drv.C01.simpTotal (Drv.C01.simpCfg P tab), fn := Drv.C01.fnOfTable tab }
      match steps.mapM (parseStep W) with
      | none => .atom "bad-case"
      | some π =>
        match footprints W π with
        | .error .usage => .list [.atom "usage"]
        | .ok fps =>
          let raw := rawEdges fps
          let red := reduce raw
          let n := π.length
          let lins := allLins n red
          let (v, st) := validity W π
          let (cov, lok) : Sexp × Sexp := match st with
            | none => (.atom "-", .atom "-")
            | some (s0, sf) =>
              (Sexp.ofBool (covers W π fps),
               if lins.length ≤ 120 then Sexp.ofNat ((lins.filter (linOk W π s0 sf)).length) else .atom "-")
          .list [.atom "ok", Sexp.tag "n" [Sexp.ofNat n], Sexp.tag "raw" (edgesSexp raw),
                 Sexp.tag "red" (edgesSexp red), Sexp.tag "nlin" [Sexp.ofNat lins.length],
                 Sexp.tag "valid" [v], Sexp.tag "covers" [cov], Sexp.tag "linok" [lok]]
    | _, _ => .atom "bad-case"
  | _ => .atom "bad-case"

end UPVerif.Drv.C27
