import UPVerif.Core.Sexp
import UPVerif.Core.ExprSexp
import UPVerif.Core.Problem
import UPVerif.Core.Walkers.Simplify
import UPVerif.Core.Compile.Common
import UPVerif.Core.Compile.CER
import UPVerif.Core.Compile.Invariant
import UPVerif.Core.Compile.DCR
import UPVerif.Core.Compile.QR
import UPVerif.Core.Compile.Grounder
import UPVerif.Core.Compile.Hyps
import UPVerif.Core.Compile.NCR
/-!
Line-protocol handler shared by C06 and C07: runs the executable model of a compiler on one case

  (case <compiler> <problem>)

and answers the compiled problem in the canonical view of `harness/complib.py:variants`

  (compiled (variants (variant <origin|_> ((p ty)…) (pre e…sorted) (effs eff…))…sorted) (goals e…sorted) (traj e…sorted))

For `btr` and `qr` a last element `(hyps tag…)` reports which DECIDABLE hypotheses of the theorems of
Props/C06BTQR.lean / C07BTQR.lean hold on this problem (`Core/Compile/Hyps.lean`; ignored by the comparison, counted
in the evidence): `params-free | has-params`, `btr-hyps-ok | btr-fails:<clause>…`, `qr-hyps-ok | qr-fails:<clause>…`,
`qr-typed-ok | qr-not-typed:<clause>…`.

`(raised)` when the model says the real compiler raises, `(not-modelled)` for the compilers of the
statements that have no Lean model (end-to-end differential only), `bad-case` for anything else.
The simplifier handed to the compiler models is property C11's verified model configured like
`env.simplifier` (no problem: no static fluents), as in Drv/C01.lean.
-/
namespace UPVerif.Drv.C06
open UPVerif UPVerif.Compile UPVerif.Compile.Ground

def simpTotal (cfg : SimpCfg) (e : Expr) : Expr :=
  match simplify cfg e with
  | .ok e' => e'
  | .error _ => .leaf (.timing "simplifier-raised")

def sortSexps (l : List Sexp) : List Sexp :=
  ((l.map (fun s => (toString s, s))).mergeSort (fun a b => decide (a.1 ≤ b.1))).map (·.2)

def variantSexp (P : Problem) (a : Action) (origin : Option Nat) : Sexp :=
  let o : String := match origin with
    | none => "_"
    | some i => match P.actions[i]? with
      | some oa => oa.name
      | none => "?"
  .list [.atom "variant", .atom o, .list (a.params.map (fun p => .list [.atom p.1, tyToSexp p.2])),
         .list (.atom "pre" :: sortSexps (a.pre.map exprToSexp)), .list (.atom "effs" :: a.effs.map effectToSexp)]

/-- the initial state of the compiled problem on all its ground fluents: `(name (obj…) value|undef)`, sorted -/
def initSexp (Q : Problem) : List Sexp :=
  match Sim.initialState? Q with
  | none => [.atom "ill-formed-initial-values"]
  | some s0 =>
    sortSexps (Q.fluents.flatMap (fun d =>
      (Sim.cartesian (d.ref.sig.map (Sim.tyDomain Q))).map (fun objs =>
        .list [.atom d.ref.name, .list (objs.map .atom), optValToSexp (s0.get Q (d.ref, objs.map Val.o))])))

def compiledSexp (P : Problem) (c : Compiled) : Sexp :=
  .list [.atom "compiled",
    .list (.atom "variants" :: sortSexps ((c.prob.actions.zip c.back).map (fun ab => variantSexp P ab.1 ab.2))),
    .list (.atom "goals" :: sortSexps (c.prob.goals.map exprToSexp)),
    .list (.atom "traj" :: sortSexps (c.prob.traj.map exprToSexp)),
    .list (.atom "init" :: initSexp c.prob)]

/-- the Grounder (Core/Compile/Grounder.lean), `prune_actions` True (the compiler's default; simplifier =
    `Simplifier(env, problem)`: C11's model with the problem's static fluents, initial values and defaults) and False
    (`env.simplifier`), every ground action IN ORDER with its name, its `trace_back_map` entry, its preconditions in order
    and its effects:

  (grounded (prune (ground <name> <origin> (arg…) (pre e…) (effs eff…))…) (noprune (ground …)…) (goals…) (traj…) (init…)) -/
def groundSexps (P : Problem) (c : GroundCompiled) : List Sexp :=
  (c.prob.actions.zip c.back).map (fun ab =>
    let o : String := match P.actions[ab.2.1]? with
      | some oa => oa.name
      | none => "?"
    .list [.atom "ground", .atom ab.1.name, .atom o, .list (ab.2.2.map .atom),
           .list (.atom "pre" :: ab.1.pre.map exprToSexp), .list (.atom "effs" :: ab.1.effs.map effectToSexp)])

def staticCfg (P : Problem) : SimpCfg :=
  { tenv := P.types, statics := staticFluents P, init := P.init,
    defaults := P.fluents.filterMap (fun d => d.default.map (fun e => (d.ref, e))), funs := [] }

def handleGrounder (P : Problem) : Sexp :=
  match grounderCompile (simpTotal (staticCfg P)) true P, grounderCompile (simpTotal (SimpCfg.empty P.types)) false P with
  | some c1, some c0 =>
    .list [.atom "grounded", .list (.atom "prune" :: groundSexps P c1), .list (.atom "noprune" :: groundSexps P c0),
      .list (.atom "goals" :: sortSexps (c1.prob.goals.map exprToSexp)),
      .list (.atom "traj" :: sortSexps (c1.prob.traj.map exprToSexp)),
      .list (.atom "init" :: initSexp c1.prob)]
  | _, _ => .list [.atom "raised"]
def tagsOf (okTag failPrefix : String) (cl : List (String × Bool)) : List String :=
  match failing cl with
  | [] => [okTag]
  | l => l.map (fun n => failPrefix ++ n)

/-- the compiled problem followed by the verdicts of the theorems' decidable hypotheses -/
def withHyps (s : Sexp) (tags : List String) : Sexp :=
  match s with
  | .list items => .list (items ++ [.list (.atom "hyps" :: tags.map .atom)])
  | x => x

def paramsTag (P : Problem) : String := if paramsFree P then "params-free" else "has-params"


/-- a quality metric in the wire format of `Core/Problem.lean` (`upp.enc_problem`) -/
def metricSexp : Metric → Sexp
  | .minActionCosts costs dflt =>
    .list [.atom "min-action-costs", .list (costs.map (fun ce => .list [.atom ce.1, exprToSexp ce.2])),
           (match dflt with
            | some d => exprToSexp d
            | none => .atom "_")]
  | .minLength => .list [.atom "min-length"]
  | .minFinal e => .list [.atom "min-final", exprToSexp e]
  | .maxFinal e => .list [.atom "max-final", exprToSexp e]
  | .oversub goals => .list [.atom "oversub", .list (goals.map (fun gw => .list [exprToSexp gw.1, .atom (ratToString gw.2)]))]

/-- NegativeConditionsRemover rewrites the quality metrics too: they are part of its canonical view -/
def compiledSexpM (P : Problem) (c : Compiled) : Sexp :=
  match compiledSexp P c with
  | .list l => .list (l ++ [.list (.atom "metrics" :: c.prob.metrics.map metricSexp)])
  | s => s

def notModelled : List String :=
  ["utf", "tcr", "uin",
   "pipe:qr+cer", "pipe:qr+dcr", "pipe:sir+btr", "pipe:grounder+cer", "pipe:qr+cer+dcr+ncr", "pipe:utf+qr"]

def handle : Sexp → Sexp
  | .list [.atom "case", .atom comp, ps] =>
    match parseProblem ps with
    | none => .atom "bad-case"
    | some P =>
      let simp := simpTotal (SimpCfg.empty P.types)
      if comp == "cer" then
        match cerCompile simp P with
        | none => .list [.atom "raised"]
        | some c => compiledSexp P c
      else if comp == "sir" then
        match sirCompile simp P with
        | none => .list [.atom "raised"]
        | some c => compiledSexp P c
      else if comp == "btr" then
        match btrCompile simp P with
        | none => .list [.atom "raised"]
        | some c => withHyps (compiledSexp P c) (paramsTag P :: tagsOf "btr-hyps-ok" "btr-fails:" (btrClauses simp P c))
      else if comp == "dcr" then
        match dcrCompile simp (Expr.dnf simp) P with
        | none => .list [.atom "raised"]
        | some c => compiledSexp P c
      else if comp == "qr" then
        match qrCompile simp P with
        | none => .list [.atom "raised"]
        | some c => withHyps (compiledSexp P c) (paramsTag P :: tagsOf "qr-hyps-ok" "qr-fails:" (qrClauses P c) ++
            tagsOf "qr-typed-ok" "qr-not-typed:" (typedClauses P))
      else if comp == "grounder" then handleGrounder P
      else if comp == "ncr" then
        match ncrCompile simp P with
        | none => .list [.atom "raised"]
        | some c => compiledSexpM P c
      else if notModelled.contains comp then .list [.atom "not-modelled"]
      else .atom "bad-case"
  | _ => .atom "bad-case"

end UPVerif.Drv.C06
