import UPVerif.Core.ExprSexp
import UPVerif.Core.Walkers.TypeOf
/-! line-protocol handler for C15: the type checker model on one case

  (typeof <types> <expr>)       → inferred type | reject
  (compat <types> <ty> <ty>)    → T | F          (`t_left.is_compatible(t_right)`) -/
namespace UPVerif.Drv.C15
open UPVerif

def handle : Sexp → Sexp
  | .list [.atom "typeof", ts, e] =>
    match parseTypeEnv ts, parseExpr e with
    | some E, some x =>
      match typeOf E x with
      | some t => tyToSexp t
      | none => .atom "reject"
    | _, _ => .atom "bad-case"
  | .list [.atom "compat", ts, a, b] =>
    match parseTypeEnv ts, parseTy a, parseTy b with
    | some E, some tl, some tr => Sexp.ofBool (isCompatible E tl tr)
    | _, _, _ => .atom "bad-case"
  | _ => .atom "bad-case"

end UPVerif.Drv.C15
