import UPVerif.Core.Sexp
import UPVerif.Core.ExprSexp
import UPVerif.Core.Problem
import UPVerif.Core.KindOf
/-!
Line-protocol handler for C10: parses one problem (shared problem wire format + the local
extension for durative actions, processes, events, timed effects/goals, extra metrics, time-model
flags, simulated effects and the `facts` supplied by the real LinearChecker / Simplifier), runs
`KindOf.kindOf` and prints the sorted feature set.

```
(kp <problem> (dactions D*) (processes Pr*) (events Ev*) (teffs ((at ..) eff)*) (tgoals ((iv ..) e)*)
    (xmetrics (makespan) | (toversub (((iv ..) e w)*))*) (flags T|F T|F) (sim (aname fluent-exp*)*)
    (facts (lin e T|F)* (simp e (fluent-exp*))*))
D  ::= (daction name ((p type)*) (dur lo hi) (conds ((iv ..) e)*) (effs ((at ..) eff)*)
                (ceffs ((iv ..) (ceff increase|decrease fluent value))*) (sim ((at ..) fluent-exp*)*))
Pr ::= (process name ((p type)*) (pre e*) (ceffs (ceff increase|decrease fluent value)*))
Ev ::= (event name ((p type)*) (pre e*) (effs eff*))
(at start|end|gstart|gend delay)     (iv T|F T|F (at ..) (at ..))
(extern name)  -> unmodelled
```
-/
namespace UPVerif.Drv.C10
open UPVerif UPVerif.KindOf

def parseTiming : Sexp → Option Timing
  | .list [.atom "at", .atom k, .atom d] => do
    let kind ← (match k with
      | "start" => some TPKind.start | "end" => some .end_ | "gstart" => some .gstart | "gend" => some .gend
      | _ => none)
    let q ← parseRat d
    some { kind := kind, delay := q }
  | _ => none

def parseInterval : Sexp → Option Interval
  | .list [.atom "iv", lo, ro, a, b] => do
    let _ ← lo.asBool?
    let _ ← ro.asBool?
    let l ← parseTiming a
    let u ← parseTiming b
    some { lower := l, upper := u }
  | _ => none

def parseParams (ps : List Sexp) : Option (List (String × Ty)) :=
  ps.mapM (fun p => match p with
    | .list [.atom pn, t] => (parseTy t).map (fun ty => (pn, ty))
    | _ => none)

def parseCEff : Sexp → Option CEff
  | .list [.atom "ceff", .atom k, f, v] => do
    let kind ← (match k with | "increase" => some CK.inc | "decrease" => some .dec | _ => none)
    let fe ← parseExpr f
    let ve ← parseExpr v
    some { fluent := fe, value := ve, kind := kind }
  | _ => none

def parseDAct : Sexp → Option DAct
  | .list [.atom "daction", .atom n, .list ps, .list [.atom "dur", lo, hi], .list (.atom "conds" :: cs),
           .list (.atom "effs" :: es), .list (.atom "ceffs" :: ces), .list (.atom "sim" :: ss)] => do
    let params ← parseParams ps
    let l ← parseExpr lo
    let h ← parseExpr hi
    let conds ← cs.mapM (fun c => match c with
      | .list [iv, e] => do
        let i ← parseInterval iv
        let x ← parseExpr e
        some (i, x)
      | _ => none)
    let effs ← es.mapM (fun c => match c with
      | .list [t, e] => do
        let i ← parseTiming t
        let x ← parseEffect e
        some (i, x)
      | _ => none)
    let ceffs ← ces.mapM (fun c => match c with
      | .list [iv, e] => do
        let i ← parseInterval iv
        let x ← parseCEff e
        some (i, x)
      | _ => none)
    let sims ← ss.mapM (fun c => match c with
      | .list (t :: fs) => do
        let i ← parseTiming t
        let xs ← fs.mapM parseExpr
        some (i, xs)
      | _ => none)
    some { name := n, params := params, durLo := l, durHi := h, conds := conds, effs := effs, ceffs := ceffs, sims := sims }
  | _ => none

def parseProc : Sexp → Option Proc
  | .list [.atom "process", .atom n, .list ps, .list (.atom "pre" :: pre), .list (.atom "ceffs" :: ces)] => do
    let params ← parseParams ps
    let pre' ← pre.mapM parseExpr
    let effs ← ces.mapM parseCEff
    some { name := n, params := params, pre := pre', effs := effs }
  | _ => none

def parseEvt : Sexp → Option Evt
  | .list [.atom "event", .atom n, .list ps, .list (.atom "pre" :: pre), .list (.atom "effs" :: es)] => do
    let params ← parseParams ps
    let pre' ← pre.mapM parseExpr
    let effs ← es.mapM parseEffect
    some { name := n, params := params, pre := pre', effs := effs }
  | _ => none

def parseXMetric : Sexp → Option KMetric
  | .list [.atom "makespan"] => some .makespan
  | .list [.atom "toversub", .list gs] => do
    let goals ← gs.mapM (fun g => match g with
      | .list [iv, e, .atom w] => do
        let i ← parseInterval iv
        let x ← parseExpr e
        let q ← parseRat w
        some (i, x, q)
      | _ => none)
    some (.toversub goals)
  | _ => none

def ofMetric : Metric → KMetric
  | .minActionCosts c d => .minActionCosts c d
  | .minLength => .minLength
  | .minFinal e => .minFinal e
  | .maxFinal e => .maxFinal e
  | .oversub g => .oversub g

structure FactTables where
  lin : List (Expr × Bool)
  simp : List (Expr × List Expr)

def parseFacts (fs : List Sexp) : Option FactTables :=
  fs.foldlM (fun (acc : FactTables) f => match f with
    | .list [.atom "lin", e, b] => do
      let x ← parseExpr e
      let v ← b.asBool?
      some { acc with lin := (x, v) :: acc.lin }
    | .list [.atom "simp", e, .list fl] => do
      let x ← parseExpr e
      let xs ← fl.mapM parseExpr
      some { acc with simp := (x, xs) :: acc.simp }
    | _ => none) { lin := [], simp := [] }

def lookupE {α : Type} (t : List (Expr × α)) (e : Expr) : Option α :=
  (t.find? (fun p => p.1 == e)).map (·.2)

/-- every expression the model may hand to `Facts.lin` / `Facts.simpFluentExps` -/
def linQueries (P : KProblem) : List Expr :=
  let effc (e : Effect) := [e.cond]
  P.iactions.flatMap (fun a => a.pre ++ a.effs.flatMap effc)
  ++ P.dactions.flatMap (fun a => a.conds.map (·.2) ++ a.effs.flatMap (fun te => effc te.2))
  ++ P.processes.flatMap (·.pre)
  ++ P.events.flatMap (fun ev => ev.pre ++ ev.effs.flatMap effc)
  ++ P.timedEffects.flatMap (fun te => effc te.2)
  ++ P.timedGoals.map (·.2) ++ P.goals ++ P.traj
  ++ P.metrics.flatMap (fun m => match m with
      | .minFinal e | .maxFinal e => [e]
      | .oversub gs => gs.map (·.1)
      | .toversub gs => gs.map (·.2.1)
      | m => costExprs m)

def simpQueries (P : KProblem) : List Expr :=
  P.dactions.flatMap (fun a => a.ceffs.map (·.2.value)) ++ P.processes.flatMap (fun p => p.effs.map (·.value))

def sortStrs (l : List String) : List String := (l.toArray.qsort (· < ·)).toList
def dedup (l : List String) : List String := l.foldl (fun acc x => if acc.contains x then acc else acc ++ [x]) []

def parseCase : Sexp → Option (KProblem × FactTables)
  | .list [.atom "kp", base, .list (.atom "dactions" :: ds), .list (.atom "processes" :: prs),
           .list (.atom "events" :: evs), .list (.atom "teffs" :: tes), .list (.atom "tgoals" :: tgs),
           .list (.atom "xmetrics" :: xms), .list [.atom "flags", dt, so], .list (.atom "sim" :: sims),
           .list (.atom "facts" :: fs)] => do
    let B ← parseProblem base
    let simT ← sims.mapM (fun s => match s with
      | .list (.atom a :: fls) => (fls.mapM parseExpr).map (fun xs => (a, xs))
      | _ => none)
    -- a simulated effect must belong to a declared action
    if simT.any (fun s => !(B.actions.any (fun a => a.name == s.1))) then none
    let iacts : List IAct := B.actions.map (fun a =>
      { name := a.name, params := a.params, pre := a.pre, effs := a.effs, sim := simT.lookup a.name })
    let dacts ← ds.mapM parseDAct
    let procs ← prs.mapM parseProc
    let evts ← evs.mapM parseEvt
    let teffs ← tes.mapM (fun c => match c with
      | .list [t, e] => do
        let i ← parseTiming t
        let x ← parseEffect e
        some (i, x)
      | _ => none)
    let tgoals ← tgs.mapM (fun c => match c with
      | .list [iv, e] => do
        let i ← parseInterval iv
        let x ← parseExpr e
        some (i, x)
      | _ => none)
    let xm ← xms.mapM parseXMetric
    let d ← dt.asBool?
    let s ← so.asBool?
    let ft ← parseFacts fs
    some ({ types := B.types, objects := B.objects, fluents := B.fluents, init := B.init,
            iactions := iacts, dactions := dacts, processes := procs, events := evts,
            timedEffects := teffs, timedGoals := tgoals, goals := B.goals, traj := B.traj,
            metrics := B.metrics.map ofMetric ++ xm, discreteTime := d, selfOverlapping := s }, ft)
  | _ => none

def handle : Sexp → Sexp
  | .list [.atom "extern", _] => .atom "unmodelled"
  | c =>
    match parseCase c with
    | none => .atom "bad-case"
    | some (P, ft) =>
      -- never default: every fact the model can ask for must be in the case
      if (linQueries P).any (fun e => (lookupE ft.lin e).isNone)
         || (simpQueries P).any (fun e => (lookupE ft.simp e).isNone) then .atom "bad-case"
      else
        let F : Facts := { lin := fun e => (lookupE ft.lin e).getD true,
                           simpFluentExps := fun e => (lookupE ft.simp e).getD [] }
        match kindOf F P with
        | none => .list [.atom "error", .atom "not-groundable"]
        | some k => .list (.atom "kind" :: (sortStrs (dedup k)).map .atom)

end UPVerif.Drv.C10
