import UPVerif.Core.Sexp
import UPVerif.Core.ExprSexp
import UPVerif.Core.Problem
import UPVerif.Core.MAProblem
import UPVerif.Core.Walkers.Simplify
import UPVerif.Core.Walkers.Dnf
import UPVerif.Core.Compile.MACond
import UPVerif.Core.Compile.MADisj
import UPVerif.Spec.MASuccessor
/-!
Line-protocol handler for C37.

  (ma cond <maproblem> (states <state>*))   answer: (cond R (sem S*))
  (ma disj <maproblem> (states <state>*))   answer: (disj R (sem S*))
  R ::= (raise conflict) | (raise simplifier) | (compiled …)          (`MA.compiledToSexp`)

`<state>` lists one value per declared ground fluent in canonical order: environment fluents, then every
agent's fluents, declaration order; the ground instances of a fluent with parameters (user types only) in
the order of `itertools.product` over `problem.objects(type)`.  For each state, `S` lists — per agent, per
ORIGINAL action, in order — the reference successor `MASpec.successorIn` (`none`, or the values of the
successor in the same canonical order) followed by the truth value of every shared goal: this ties
the Python twin of the reference semantics used by the property oracle to `Spec/MASuccessor.lean`.

The simplifier is C11's verified model configured like `env.simplifier` (no problem: no static
fluents); `Dnf` is C12's model over it.  Should the simplifier fail, a poison leaf is produced and the
answer is `(raise simplifier)` — visible, never a default.
-/
namespace UPVerif.Drv.C37
open UPVerif UPVerif.Expr UPVerif.MA UPVerif.MASpec

def poison : Expr := .leaf (.timing "simplifier-raised")

def simpTotal (e : Expr) : Expr :=
  match simplify (SimpCfg.empty { fathers := [] }) e with
  | .ok e' => e'
  | .error _ => poison

mutual
partial def mentions (s : Expr) : Expr → Bool
  | .leaf l => decide (Expr.leaf l = s)
  | .app _ as => as.any (mentions s)
  | .quant _ _ b => mentions s b
end

def effMentions (e : Effect) : Bool := mentions poison e.fluent || mentions poison e.value || mentions poison e.cond

def poisoned (c : Compiled) : Bool :=
  c.goals.any (mentions poison) ||
  c.agents.any (fun a => a.actions.any (fun ca => ca.act.pre.any (mentions poison) || ca.act.effs.any effMentions))

def resultSexp : Option Compiled → Sexp
  | none => .list [.atom "raise", .atom "conflict"]
  | some c => if poisoned c then .list [.atom "raise", .atom "simplifier"] else compiledToSexp c

/-- the ground instances of one declared fluent, `q` = its name in the agent-indexed name space -/
def groundKeys (O : Problem) (q : FluentRef → FluentRef) (r : FluentRef) : List GKey :=
  (Sim.cartesian (r.sig.map (Sim.tyDomain O))).map (fun os => (q r, os.map Val.o))

/-- all declared ground fluents in canonical order -/
def allKeys (P : MAProblem) : List GKey :=
  P.env.flatMap (fun d => groundKeys P.objProblem id d.ref) ++
  P.agents.flatMap (fun a => a.fluents.flatMap (fun f => groundKeys P.objProblem (qual a.name) f.ref))

def stateOf (keys : List GKey) (vals : List Val) : GState :=
  fun k => (keys.zip vals).lookup k

def semOf (P : MAProblem) (keys : List GKey) (g : GState) : Sexp :=
  .list (.atom "st" ::
    (P.agents.flatMap (fun ag => ag.actions.map (fun a =>
      match successorIn P.objProblem (viewOf ag) g a.pre a.effs with
      | none => Sexp.atom "none"
      | some g' => .list (keys.map (fun k => optValToSexp (g' k)))))) ++
    [.list (.atom "goals" :: P.goals.map (fun γ => Sexp.ofBool (goalHolds g γ)))])

def parseStates (n : Nat) (ss : List Sexp) : Option (List (List Val)) :=
  ss.mapM (fun s => match s with
    | .list vs => do
      let xs ← vs.mapM parseVal
      if xs.length == n then some xs else none
    | _ => none)

def handle : Sexp → Sexp
  | .list [.atom "ma", .atom which, ps, .list (.atom "states" :: ss)] =>
    match parseMAProblem ps with
    | none => .atom "bad-case"
    | some P =>
      let keys := allKeys P
      match parseStates keys.length ss with
      | none => .atom "bad-case"
      | some sts =>
        let sem := Sexp.list (.atom "sem" :: sts.map (fun vs => semOf P keys (stateOf keys vs)))
        match which with
        | "cond" =>
          .list [.atom "cond", resultSexp (compileCond simpTotal P), sem]
        | "disj" =>
          .list [.atom "disj", resultSexp (compileDisj simpTotal (dnf simpTotal) P), sem]
        | _ => .atom "bad-case"
  | _ => .atom "bad-case"

end UPVerif.Drv.C37
