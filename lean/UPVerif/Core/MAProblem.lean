import UPVerif.Core.Expr
import UPVerif.Core.ExprSexp
import UPVerif.Core.Problem
/-
Multi-agent problem syntax (`unified_planning/model/multi_agent/`): the part of `MultiAgentProblem`
(ma_problem.py), `Agent` (agent.py) and `MAEnvironment` (ma_environment.py) that the two multi-agent
removers read and write — user types and objects (read by `Effect.expand_effect` when
`ConditionalEffectsRemover._instances_of_conditional_effect` expands a conditional forall effect),
environment fluents, agents with their (public / private) fluents and instantaneous actions, and the
shared goals.  Agent-specific goals are outside the supported kind of
both compilers (`AGENT_SPECIFIC_*_GOAL` is not set by their `supported_kind`), initial values are
copied verbatim by `clone()` and never read: neither is part of the syntax.

THE AGENT-INDEXED NAME SPACE.  `Dot(ag, f(args))` — "fluent `f` of agent `ag`" — is the ordinary
fluent application `ag.f(args)`: `undot` rewrites every `DOT` node into a `FLUENT_EXP` whose fluent
carries the qualified name (`qual`).  All walkers the compilers call (`Simplifier`, `Nnf`, `Dnf`)
treat a `DOT` node exactly like a fluent atom (simplifier.py `walk_dot` rebuilds it around the
simplified child; the others never look inside a non-connective node), so they commute with `undot`;
the correspondence check applies the same rewriting to the output of the real compilers and compares
syntactically, which is what ties this reading to the code.  A BARE fluent application inside an
agent's action denotes the agent's own fluent when the agent declares it and an environment fluent
otherwise; that resolution is semantic (`Spec/MASuccessor.lean`, `View.key`), not syntactic.
Names are assumed not to contain `.`.
-/
namespace UPVerif.MA
open UPVerif

/-- fluent `f` of agent `ag` in the agent-indexed name space -/
def qual (ag : String) (f : FluentRef) : FluentRef := { f with name := ag ++ "." ++ f.name }

/-- `Dot(ag, f(args))` ↦ `ag.f(args)` at one node whose children are already rewritten -/
def undotNode : Op → List Expr → Expr
  | .dot ag, [.app (.fluent f) as] => .app (.fluent (qual ag f)) as
  | op, as => .app op as

mutual
def undot : Expr → Expr
  | .leaf l => .leaf l
  | .app op args => undotNode op (undotList args)
  | .quant q vs b => .quant q vs (undot b)
def undotList : List Expr → List Expr
  | [] => []
  | e :: es => undot e :: undotList es
end

def undotEffect (e : Effect) : Effect :=
  { e with fluent := undot e.fluent, value := undot e.value, cond := undot e.cond }

def undotAction (a : Action) : Action :=
  { a with pre := a.pre.map undot, effs := a.effs.map undotEffect }

/-- a fluent of an agent: `Agent.fluents` with its default and whether it is in `public_fluents` -/
structure MAFluent where
  ref : FluentRef
  default : Option Expr
  pub : Bool
  deriving Repr, Inhabited

/-- `Agent` -/
structure Agent where
  name : String
  fluents : List MAFluent
  actions : List Action
  deriving Repr, Inhabited

/-- `MultiAgentProblem` -/
structure MAProblem where
  name : String
  /-- `ma_environment.fluents` -/
  env : List FluentDecl
  agents : List Agent
  /-- the shared goals (`problem.goals`) -/
  goals : List Expr
  /-- user-type hierarchy (`UserTypesSetMixin`) -/
  types : TypeEnv := { fathers := [] }
  /-- objects in declaration order: (name, user type) (`ObjectsSetMixin`) -/
  objects : List (String × String) := []
  deriving Repr, Inhabited

/-- what `Effect.expand_effect(problem)` reads of the problem — `problem.objects(type)` — as a single-agent
    `Problem`, so that `Sim.expandEffect` (the model of `expand_effect`) is shared with C01/C06/C07 -/
def MAProblem.objProblem (P : MAProblem) : Problem :=
  { name := P.name, types := P.types, objects := P.objects, fluents := [], init := [], actions := [],
    goals := [], traj := [], metrics := [] }

/-- a compiled action with what `CompilerResult.map_back_action_instance` maps it to: the NAME of an
    action of the SAME agent in the original problem, `none` for an action that maps back to nothing -/
structure CAction where
  act : Action
  origin : Option String
  deriving Repr, Inhabited

structure CAgent where
  name : String
  fluents : List MAFluent
  actions : List CAction
  deriving Repr, Inhabited

/-- the compiled problem together with the map back -/
structure Compiled where
  name : String
  env : List FluentDecl
  agents : List CAgent
  goals : List Expr
  deriving Repr, Inhabited

def Action.isConditional (a : Action) : Bool := a.effs.any (·.isConditional)

/-- names `Agent.has_name_in_agent` answers for: actions and fluents -/
def Agent.names (a : Agent) : List String := a.actions.map (·.name) ++ a.fluents.map (·.ref.name)
def CAgent.names (a : CAgent) : List String := a.actions.map (·.act.name) ++ a.fluents.map (·.ref.name)

/-! ### wire format

```
(maproblem name [(types (T _) (S T) …) (objects (o T) …)] (env ((name type (sig…)) default|_) …)
  (agents (agent name (fluents ((name type (sig…)) default|_ T|F) …) (actions <action> …)) …)
  (goals e…))
```
The `types` / `objects` sections are optional (both or none).
`<action>` and expressions as in `Core/Problem.lean` / `Core/ExprSexp.lean`; `(dot ag e)` nodes are
accepted and rewritten by `undot`. -/
open Sexp

def parseDecl : Sexp → Option FluentDecl
  | .list [r, d] => do
    let (n, ty, sig) ← parseRef r
    let dflt ← (match d with
      | .atom "_" => some none
      | e => (parseExpr e).map some)
    some { ref := { name := n, ty := ty, sig := sig }, default := dflt }
  | _ => none

def parseMAFluent : Sexp → Option MAFluent
  | .list [r, d, p] => do
    let fd ← parseDecl (.list [r, d])
    let pb ← p.asBool?
    some { ref := fd.ref, default := fd.default, pub := pb }
  | _ => none

def parseAgent : Sexp → Option Agent
  | .list [.atom "agent", .atom n, .list (.atom "fluents" :: fls), .list (.atom "actions" :: acts)] => do
    let fs ← fls.mapM parseMAFluent
    let as ← acts.mapM parseAction
    some { name := n, fluents := fs, actions := as.map undotAction }
  | _ => none

def parseMABody (name : String) (types : TypeEnv) (objects : List (String × String))
    (efs ags gs : List Sexp) : Option MAProblem := do
  let env ← efs.mapM parseDecl
  let agents ← ags.mapM parseAgent
  let goals ← gs.mapM parseExpr
  some { name := name, env := env, agents := agents, goals := goals.map undot, types := types, objects := objects }

def parseMAProblem : Sexp → Option MAProblem
  | .list [.atom "maproblem", .atom name, .list (.atom "env" :: efs),
           .list (.atom "agents" :: ags), .list (.atom "goals" :: gs)] =>
    parseMABody name { fathers := [] } [] efs ags gs
  | .list [.atom "maproblem", .atom name, tys, .list (.atom "objects" :: objs), .list (.atom "env" :: efs),
           .list (.atom "agents" :: ags), .list (.atom "goals" :: gs)] => do
    let types ← parseTypeEnv tys
    let objects ← objs.mapM (fun o => match o with
      | .list [.atom n, .atom t] => some (n, t)
      | _ => none)
    parseMABody name types objects efs ags gs
  | _ => none

def declToSexp (d : FluentDecl) : Sexp :=
  .list [refToSexp d.ref.name d.ref.ty d.ref.sig, match d.default with | none => .atom "_" | some e => exprToSexp e]

def maFluentToSexp (f : MAFluent) : Sexp :=
  .list [refToSexp f.ref.name f.ref.ty f.ref.sig, (match f.default with | none => .atom "_" | some e => exprToSexp e),
         ofBool f.pub]

def cactionToSexp (c : CAction) : Sexp :=
  .list [.atom "cact", match c.origin with | none => .atom "_" | some o => .list [.atom o], actionToSexp c.act]

def cagentToSexp (a : CAgent) : Sexp :=
  .list [.atom "agent", .atom a.name, .list (.atom "fluents" :: a.fluents.map maFluentToSexp),
         .list (.atom "actions" :: a.actions.map cactionToSexp)]

def compiledToSexp (c : Compiled) : Sexp :=
  .list [.atom "compiled", .atom c.name, .list (.atom "env" :: c.env.map declToSexp),
         .list (.atom "agents" :: c.agents.map cagentToSexp), .list (.atom "goals" :: c.goals.map exprToSexp)]

end UPVerif.MA
