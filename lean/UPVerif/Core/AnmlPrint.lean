import UPVerif.Core.AnmlSyntax
/-
Model of the ANML writer (unified_planning/io/anml_writer.py): problem syntax → token list, statement by
statement as `ANMLWriter._write_problem` (l.239) writes them and expression by expression as
`ConverterToANMLString.walk_*` (l.100) spell them.  The expressions are the ones `convert` (l.121) hands to
`walk`, i.e. already simplified (the Simplifier is C11's; the harness applies the real one).
-/
namespace UPVerif.Anml
open UPVerif Tok

/-- `str(z)` of a Python int, as tokens -/
def intToks (z : Int) : List Tok :=
  if z < 0 then [sym "-", num z.natAbs] else [num z.toNat]

/-- `str(q)` of a `Fraction` (`n` or `n/d`) -/
def ratToks (q : Rat) : List Tok :=
  if q.den == 1 then intToks q.num else intToks q.num ++ [sym "/", num q.den]

/-- a bound of a real type, `_get_anml_name` l.531-542: `{n}.0` for an integral bound, `n/d` otherwise -/
def realBoundToks (q : Rat) : List Tok :=
  if q.den == 1 then (if q.num < 0 then [sym "-", dec q.num.natAbs 0 1] else [dec q.num.toNat 0 1])
  else intToks q.num ++ [sym "/", num q.den]

/-- the bounds of a numeric type name, `_get_anml_name` l.516-543; nothing for the unbounded type (its name is
    preset, l.257-259) -/
def lowerToks {α} (toks : α → List Tok) : Option α → List Tok
  | none => [sym "(", sym "-", kw "infinity"]
  | some l => sym "[" :: toks l

def upperToks {α} (toks : α → List Tok) : Option α → List Tok
  | none => [kw "infinity", sym ")"]
  | some u => toks u ++ [sym "]"]

def printBounds {α} (toks : α → List Tok) (lb ub : Option α) : List Tok :=
  if lb.isNone && ub.isNone then [] else lowerToks toks lb ++ sym "," :: upperToks toks ub

/-- `_get_anml_name(type, names_mapping)` (l.494): the three preset names, the numeric types with bounds,
    the renamed user types -/
def printTy (ρ : Ren) : Ty → List Tok
  | .bool => [kw "boolean"]
  | .int lb ub => kw "integer" :: printBounds intToks lb ub
  | .real lb ub => kw "float" :: printBounds realBoundToks lb ub
  | .user n => [Tok.id (ρ.ty n)]
  | .time => [kw "UNDEFINED"]

/-- `"{type} {name}"` joined by `", "` (parameters of fluents and actions, quantifier variables) -/
def printDecls (ρ : Ren) (nm : String → Ty → String) : List (String × Ty) → List Tok
  | [] => []
  | [d] => printTy ρ d.2 ++ [Tok.id (nm d.1 d.2)]
  | d :: d' :: rest => printTy ρ d.2 ++ Tok.id (nm d.1 d.2) :: sym "," :: printDecls ρ nm (d' :: rest)

def varDecls (vs : List Var) : List (String × Ty) := vs.map (fun v => (v.name, v.ty))

def opTok : Op → Tok
  | .and => kw "and" | .or => kw "or" | .implies => kw "implies"
  | .iff => sym "==" | .eq => sym "=="
  | .plus => sym "+" | .minus => sym "-" | .times => sym "*" | .div => sym "/"
  | .le => sym "<=" | .lt => sym "<"
  | _ => kw "UNDEFINED"

/-- the separator between the printed arguments of an application -/
def sepTok : Op → Tok
  | .fluent _ => sym ","
  | op => opTok op

/-- an application, given its printed arguments joined by the separator (`walk_fluent_exp`, `walk_not`, the
    n-ary and binary `walk_*`) -/
def appToks (ρ : Ren) (op : Op) (n : Nat) (inner : List Tok) : List Tok :=
  match op with
  | .fluent f => if n = 0 then [Tok.id (ρ.fl f.name)] else Tok.id (ρ.fl f.name) :: sym "(" :: inner ++ [sym ")"]
  | .not => sym "(" :: kw "not" :: inner ++ [sym ")"]
  | _ => sym "(" :: inner ++ [sym ")"]

def leafToks (ρ : Ren) : Leaf → List Tok
  | .boolC b => [kw (if b then "true" else "false")]
  | .intC z => intToks z
  | .realC r => sym "(" :: intToks r.num ++ [sym "/", num r.den, sym ")"]
  | .obj n _ => [Tok.id (ρ.obj n)]
  | .param n t => [Tok.id (ρ.par n t)]
  | .var v => [Tok.id (ρ.var v.name v.ty)]
  | .timing _ => [kw "UNDEFINED"]
  | .present _ => [kw "UNDEFINED"]

mutual
/-- `ConverterToANMLString.walk_*` -/
def printE (ρ : Ren) : Expr → List Tok
  | .leaf l => leafToks ρ l
  | .app op args => appToks ρ op args.length (printSep ρ (sepTok op) args)
  | .quant q vs b =>
    sym "(" :: kw (match q with | .ex => "exists" | .all => "forall") :: sym "("
      :: printDecls ρ ρ.var (varDecls vs) ++ sym ")" :: sym "{" :: printE ρ b ++ [sym ";", sym "}", sym ")"]
/-- `sep.join(args)` -/
def printSep (ρ : Ren) (sep : Tok) : List Expr → List Tok
  | [] => []
  | [e] => printE ρ e
  | e :: e' :: es => printE ρ e ++ sep :: printSep ρ sep (e' :: es)
end

/-- `_convert_anml_timing` (l.439) -/
def printTiming (t : Timing) : List Tok :=
  let time := kw (if t.tp.fromStart then "start" else "end")
  if t.delay > 0 then time :: sym "+" :: ratToks t.delay
  else if t.delay == 0 then [time]
  else time :: sym "-" :: ratToks (-t.delay)

/-- `_convert_anml_interval` (l.448) -/
def printInterval (i : Interval) : List Tok :=
  let l := sym (if i.lopen then "(" else "[")
  let r := sym (if i.ropen then ")" else "]")
  if i.lo == i.hi then l :: printTiming i.lo ++ [r]
  else l :: printTiming i.lo ++ sym "," :: printTiming i.hi ++ [r]

def kindTok : EffKind → Tok
  | .assign => sym ":="
  | .increase => sym ":increase"
  | .decrease => sym ":decrease"

/-- the point interval `[ t ]` -/
def pointIv (t : Timing) : Interval := { lo := t, hi := t, lopen := false, ropen := false }

/-- `fluent := value` / `:increase` / `:decrease` -/
def printAssign (ρ : Ren) (e : Effect) : List Tok :=
  printE ρ e.fluent ++ kindTok e.kind :: printE ρ e.value

/-- the assignment, inside its `when` block if the effect is conditional -/
def printWhen (ρ : Ren) (e : Effect) : List Tok :=
  if e.isConditional then kw "when" :: printE ρ e.cond ++ sym "{" :: printAssign ρ e ++ [sym ";", sym "}"]
  else printAssign ρ e

/-- `_convert_effect` (l.400) without its last `;`; `timing = none` prints `start` -/
def printEffectBody (ρ : Ren) (t : Option Timing) (e : Effect) : List Tok :=
  printInterval (pointIv (t.getD ⟨.start, 0⟩))
  ++ (if e.forall_.isEmpty then printWhen ρ e
      else kw "forall" :: sym "(" :: printDecls ρ ρ.var (varDecls e.forall_) ++ sym ")" :: sym "{"
           :: printWhen ρ e ++ [sym ";", sym "}"])

/-- `_convert_effect` (l.400) -/
def printEffect (ρ : Ren) (t : Option Timing) (e : Effect) : List Tok :=
  printEffectBody ρ t e ++ [sym ";"]

def printParams (ρ : Ren) (ps : List (String × Ty)) : List Tok :=
  sym "(" :: printDecls ρ ρ.par ps ++ [sym ")"]

/-- one action (l.305-345) -/
def printAction (ρ : Ren) : AAction → List Tok
  | .inst n ps pre effs =>
    kw "action" :: Tok.id (ρ.act n) :: printParams ρ ps
    ++ [sym "::", sym "(", str "InstantaneousAction", sym ")", sym "{"]
    ++ pre.flatMap (fun p => sym "[" :: kw "start" :: sym "]" :: printE ρ p ++ [sym ";"])
    ++ effs.flatMap (printEffect ρ none)
    ++ [sym "}", sym ";"]
  | .dur n ps d conds effs =>
    kw "action" :: Tok.id (ρ.act n) :: printParams ρ ps ++ sym "{"
    :: kw "duration" :: sym (if d.lopen then ">" else ">=") :: printE ρ d.lo
    ++ kw "and" :: kw "duration" :: sym (if d.ropen then "<" else "<=") :: printE ρ d.hi ++ [sym ";"]
    ++ conds.flatMap (fun c => printInterval c.1 ++ printE ρ c.2 ++ [sym ";"])
    ++ effs.flatMap (fun e => printEffect ρ (some e.1) e.2)
    ++ [sym "}", sym ";"]

def printFluent (ρ : Ren) (P : AProblem) (f : AFluent) : List Tok :=
  kw (if P.isStatic f.ref then "constant" else "fluent") :: printTy ρ f.ref.ty ++ Tok.id (ρ.fl f.ref.name)
  :: (if f.ref.sig.isEmpty then [] else printParams ρ (f.pnames.zip f.ref.sig)) ++ [sym ";"]

def printNames : List String → List Tok
  | [] => []
  | [n] => [Tok.id n]
  | n :: n' :: rest => Tok.id n :: sym "," :: printNames (n' :: rest)

/-- `ANMLWriter._write_problem` -/
def anmlPrint (ρ : Ren) (P : AProblem) : List Tok :=
  P.types.flatMap (fun t => kw "type" :: Tok.id (ρ.ty t.1) :: (match t.2 with
      | none => [sym ";"]
      | some f => [sym "<", Tok.id (ρ.ty f), sym ";"]))
  ++ P.fluents.flatMap (printFluent ρ P)
  ++ P.actions.flatMap (printAction ρ)
  ++ P.types.flatMap (fun t =>
      let os := (P.objects.filter (fun o => o.2 == t.1)).map (fun o => ρ.obj o.1)
      if os.isEmpty then [] else kw "instance" :: Tok.id (ρ.ty t.1) :: printNames os ++ [sym ";"])
  ++ P.init.flatMap (fun i =>
      (match effTarget { fluent := i.1, value := i.2, cond := Expr.tt, kind := .assign, forall_ := [] } with
       | some f => if P.isStatic f then [] else [sym "[", kw "start", sym "]"]
       | none => [sym "[", kw "start", sym "]"])
      ++ printE ρ i.1 ++ sym ":=" :: printE ρ i.2 ++ [sym ";"])
  ++ P.timedEffects.flatMap (fun e => printEffect ρ (some e.1) e.2)
  ++ P.goals.flatMap (fun g => sym "[" :: kw "end" :: sym "]" :: printE ρ g ++ [sym ";"])
  ++ P.timedGoals.flatMap (fun g => printInterval g.1 ++ printE ρ g.2 ++ [sym ";"])
  ++ P.invariants.flatMap (fun i => sym "[" :: kw "all" :: sym "]" :: printE ρ i ++ [sym ";"])

end UPVerif.Anml
