import UPVerif.Core.Sim
/-
`SequentialPlan._to_partial_order_plan` (unified_planning/plans/sequential_plan.py:111, WITH the repair
of notes/patches/C27-deorder-state-invariants.patch: a step that writes a ground fluent of a state
invariant reads every ground fluent of that invariant), the part of
`networkx.transitive_reduction` it calls, and `PartialOrderPlan.all_sequential_plans`
(partial_order_plan.py:221) read as "all topological orderings of the graph".

A plan is a list of steps `(action, object names)`; the nodes of the graph are the POSITIONS of the
steps in the plan (Python: the `ActionInstance` objects, compared by identity — the property speaks
about plans made of distinct instances).

(line numbers: sequential_plan.py WITH the patch applied)
* `invFluents`                                     — the repair: ground fluents per state invariant, :141-158
* `liftedRequired`, `nestedFree`, `footprint`      — the per-step read set (`required_fluents`, :167-202, plus
                                                     the repair :204-214) and the ground effect targets
* `readLoop`, `writeLoop`, `stepSt`, `runSt`       — the `last_modifier` / `all_required` bookkeeping and the
                                                     edges it adds, :216-241
* `reduce`                                         — `nx.transitive_reduction` on a DAG (:243-247)
* `isLin`                                          — `nx.all_topological_sorts` as a predicate
* `run`, `reorder`                                 — a sequential plan executed with `Sim.apply`
                                                     (the validator itself is property C03's model)
* `rkeys`, `covers`                                — the ground fluents an evaluation can read, and the
                                                     DECIDABLE check that the footprints computed on the
                                                     lifted actions cover what the grounded (simplified)
                                                     actions and the simulator's invariants can read
-/
namespace UPVerif.Deorder
open UPVerif UPVerif.Expr UPVerif.Sim

/-- what `_to_partial_order_plan` knows of one step: `required_fluents` (a Python set: only
    membership matters) and the grounded targets of its expanded effects, in effect order -/
structure Footprint (κ : Type) where
  reads : List κ
  writes : List κ
  deriving Repr, DecidableEq

/-! ### the graph construction (generic in the type of the dictionary keys; Python: ground FLUENT_EXP
    nodes, compared structurally thanks to hash-consing) -/

/-- `last_modifier`, `all_required`, `graph.edges` -/
structure St (κ : Type) where
  /-- `last_modifier: Dict[FNode, ActionInstance]` as a list of bindings, newest first -/
  lastMod : List (κ × Nat)
  /-- `all_required: Dict[FNode, List[ActionInstance]]` flattened to (fluent, reader) pairs -/
  allReq : List (κ × Nat)
  edges : List (Nat × Nat)
  deriving Repr

section graph
variable {κ : Type} [DecidableEq κ]

/-- `last_modifier.get(k, None)` -/
def lastOf (l : List (κ × Nat)) (k : κ) : Option Nat := (l.find? (fun p => decide (p.1 = k))).map (·.2)

/-- `all_required.setdefault(k, [])` seen from step `j`: the readers of `k` other than `j` -/
def readersOf (l : List (κ × Nat)) (k : κ) (j : Nat) : List Nat :=
  (l.filter (fun r => decide (r.1 = k) && decide (r.2 ≠ j))).map (·.2)

/-- sequential_plan.py:216-226 (patched file): every required fluent registers the step as a reader and orders it
    after the fluent's last modifier -/
def readLoop (j : Nat) : List κ → St κ → St κ
  | [], st => st
  | k :: ks, st =>
    readLoop j ks
      { lastMod := st.lastMod
        allReq := (k, j) :: st.allReq
        edges := match lastOf st.lastMod k with
          | some i => (i, j) :: st.edges
          | none => st.edges }

/-- sequential_plan.py:228-241 (patched file): every expanded effect makes the step the last modifier of its target
    and orders the step after every other reader of the target -/
def writeLoop (j : Nat) : List κ → St κ → St κ
  | [], st => st
  | k :: ks, st =>
    writeLoop j ks
      { lastMod := (k, j) :: st.lastMod
        allReq := st.allReq
        edges := (readersOf st.allReq k j).map (fun i => (i, j)) ++ st.edges }

/-- one iteration of `for action_instance in self.actions` once its footprint is known -/
def stepSt (j : Nat) (fp : Footprint κ) (st : St κ) : St κ :=
  writeLoop j fp.writes (readLoop j fp.reads st)

def runSt : Nat → List (Footprint κ) → St κ → St κ
  | _, [], st => st
  | j, fp :: fps, st => runSt (j + 1) fps (stepSt j fp st)

/-- the edges of `graph` when the loop ends (BEFORE `nx.transitive_reduction`); a list used as a set -/
def rawEdges (fps : List (Footprint κ)) : List (Nat × Nat) := (runSt 0 fps ⟨[], [], []⟩).edges

end graph

/-! ### `nx.transitive_reduction` (networkx/algorithms/dag.py) on a DAG: the successors `v` of `u`
    that are not descendants of another successor of `u` -/

/-- `b` is reachable from `a` by a non-empty path of at most `fuel` edges -/
def reachB (E : List (Nat × Nat)) : Nat → Nat → Nat → Bool
  | 0, _, _ => false
  | fuel + 1, a, b => E.any (fun e => e.1 == a && (e.2 == b || reachB E fuel e.2 b))

def reduce (E : List (Nat × Nat)) : List (Nat × Nat) :=
  E.filter (fun e => !(E.any (fun e' => e'.1 == e.1 && e'.2 != e.2 && reachB E E.length e'.2 e.2)))

/-! ### `all_sequential_plans`: the topological orderings of the graph on the nodes `0 … n-1` -/

def isLin (n : Nat) (E : List (Nat × Nat)) (l : List Nat) : Bool :=
  l.isPerm (List.range n) && E.all (fun e => decide (l.idxOf e.1 < l.idxOf e.2))

/-- insertion of `x` at every position -/
def insertAll (x : Nat) : List Nat → List (List Nat)
  | [] => [[x]]
  | y :: ys => (x :: y :: ys) :: (insertAll x ys).map (y :: ·)

def perms : List Nat → List (List Nat)
  | [] => [[]]
  | x :: xs => (perms xs).flatMap (insertAll x)

/-- all linearisations, by filtering all permutations (driver only; `n` is small) -/
def allLins (n : Nat) (E : List (Nat × Nat)) : List (List Nat) :=
  (perms (List.range n)).filter (isLin n E)

/-! ### footprints from the problem syntax -/

inductive Err where
  /-- `UPUsageError`: a fluent occurs inside the parameters of a fluent -/
  | usage
  deriving DecidableEq, Repr

/-- `lifted_required_fluents` (sequential_plan.py:169-186, patched file): the fluent expressions of the
    preconditions and of the condition, target and value of every expanded effect, quantifiers
    removed first -/
def liftedRequired (P : Problem) (a : Action) : List Expr :=
  a.pre.flatMap (fun p => fluentExps (removeQuantifiers P p)) ++
  a.effs.flatMap (fun e => (expandEffect P e).flatMap (fun e' =>
    fluentExps (removeQuantifiers P e'.cond) ++ fluentExps (removeQuantifiers P e'.fluent) ++
    fluentExps (removeQuantifiers P e'.value)))

/-- the check of sequential_plan.py:191-199 (patched file) on one lifted fluent: no fluent inside its arguments -/
def nestedFree (P : Problem) : Expr → Bool
  | .app (.fluent _) args => args.all (fun a => (fluentExps (removeQuantifiers P a)).isEmpty)
  | _ => false

/-- the same check on a fluent of an (already quantifier-free) state invariant -/
def argsFluentFree : Expr → Bool
  | .app (.fluent _) args => (fluentExpsList args).isEmpty
  | _ => false

/-- the repair: `invariants_fluents`, one set of ground fluents per state invariant
    (`fve.get(simp.simplify(eqr.remove_quantifiers(si, problem)))`) -/
def invFluents (W : World) : Except Err (List (List Expr)) :=
  let rec go : List Expr → Except Err (List (List Expr))
    | [] => .ok []
    | si :: sis =>
      let fs := fluentExps (W.simp (removeQuantifiers W.P si))
      if fs.all argsFluentFree then
        match go sis with
        | .error x => .error x
        | .ok r => .ok (fs :: r)
      else .error .usage
  go (Sim.stateInvariants W.P)

/-- the expanded effects of the lifted action, in the order of the two loops over
    `inst_action.effects` / `effect.expand_effect(problem)` -/
def expanded (P : Problem) (a : Action) : List Effect := a.effs.flatMap (expandEffect P)

/-- `required_fluents` and the grounded targets of one step -/
def footprint (W : World) (invs : List (List Expr)) (a : Action) (args : List String) :
    Except Err (Footprint Expr) :=
  let lifted := liftedRequired W.P a
  if lifted.all (nestedFree W.P) then
    let σ := paramSubst W.P a args
    let req := lifted.map (fun l => W.simp (substE σ l))
    let mod := (expanded W.P a).map (fun e => W.simp (substE σ e.fluent))
    -- the repair: the fluents of every state invariant that mentions a modified fluent
    let extra := (invs.filter (fun K => K.any (fun k => mod.contains k))).flatMap id
    .ok { reads := req ++ extra, writes := mod }
  else .error .usage

def footprintsGo (W : World) (invs : List (List Expr)) :
    List (Action × List String) → Except Err (List (Footprint Expr))
  | [] => .ok []
  | s :: rest =>
    match footprint W invs s.1 s.2 with
    | .error x => .error x
    | .ok fp =>
      match footprintsGo W invs rest with
      | .error x => .error x
      | .ok r => .ok (fp :: r)

/-- the footprints of all steps; `.error usage` = `_to_partial_order_plan` raises `UPUsageError` -/
def footprints (W : World) (π : List (Action × List String)) : Except Err (List (Footprint Expr)) :=
  match invFluents W with
  | .error x => .error x
  | .ok invs => footprintsGo W invs π

/-- `SequentialPlan.convert_to(PARTIAL_ORDER_PLAN, problem)`: the edges of the graph handed to
    `PartialOrderPlan` -/
def deorder (W : World) (π : List (Action × List String)) : Except Err (List (Nat × Nat)) :=
  match footprints W π with
  | .error x => .error x
  | .ok fps => .ok (reduce (rawEdges fps))

/-! ### executing a sequential plan -/

/-- the steps applied one after the other with `Sim.apply`; `.ok none` = some step is inapplicable -/
def run (W : World) : SimState → List (Action × List String) → Except EvalErr (Option SimState)
  | s, [] => .ok (some s)
  | s, st :: rest =>
    match Sim.apply W s st.1 st.2 with
    | .error x => .error x
    | .ok none => .ok none
    | .ok (some s') => run W s' rest

/-- the plan `π` taken in the order `l` of positions -/
def reorder (π : List (Action × List String)) (l : List Nat) : List (Action × List String) :=
  l.filterMap (fun i => π[i]?)

/-! ### what an evaluation can read -/

mutual
/-- the ground fluents `eval c ρ e` may look up in the state (every instance of a quantifier, even
    those an early exit skips); computed along the evaluation itself -/
def rkeys (c : EvalCtx) (ρ : VEnv) : Expr → List GKey
  | .leaf _ => []
  | .app op args =>
    rkeysList c ρ args ++
      (match op with
       | .fluent f => (match evalList c ρ args with
          | .ok vs => [(f, vs)]
          | .error _ => [])
       | _ => [])
  | .quant _ vs body => (qAssignments c vs).flatMap (fun a => rkeys c (a ++ ρ) body)
def rkeysList (c : EvalCtx) (ρ : VEnv) : List Expr → List GKey
  | [] => []
  | e :: es => rkeys c ρ e ++ rkeysList c ρ es
end

mutual
/-- no fluent inside the arguments of a fluent: then `rkeys` does not depend on the state -/
def noNested : Expr → Bool
  | .leaf _ => true
  | .app (.fluent _) args => (fluentExpsList args).isEmpty
  | .app _ args => noNestedList args
  | .quant _ _ b => noNested b
def noNestedList : List Expr → Bool
  | [] => true
  | e :: es => noNested e && noNestedList es
end

/-- the evaluation context of the world over the state in which no fluent has a value -/
def c0 (W : World) : EvalCtx := { get := fun _ => none, objs := W.P.objectsOf, fn := W.fn }

/-- reads of one expanded effect of a grounded action: target arguments, condition, value -/
def effKeys (c : EvalCtx) (e : Effect) : List GKey :=
  match e.fluent with
  | .app (.fluent _) args => rkeysList c [] args ++ rkeys c [] e.cond ++ rkeys c [] e.value
  | _ => []

/-- the ground fluent an expanded effect of a grounded action writes -/
def effTarget (c : EvalCtx) (e : Effect) : Option GKey :=
  match e.fluent with
  | .app (.fluent f) args =>
    (match evalArgs c args with
     | .ok vs => some (f, vs)
     | .error _ => none)
  | _ => none

def effNoNested (e : Effect) : Bool :=
  argsFluentFree e.fluent && noNested e.cond && noNested e.value

def gReads (W : World) (g : GAction) : List GKey :=
  g.pre.flatMap (rkeys (c0 W) []) ++ (expandAll W.P g).flatMap (effKeys (c0 W))

def gWrites (W : World) (g : GAction) : List GKey := (expandAll W.P g).filterMap (effTarget (c0 W))

def gNoNested (W : World) (g : GAction) : Bool := g.pre.all noNested && (expandAll W.P g).all effNoNested

/-- a footprint over state keys (every fluent of the footprint must be ground) -/
def keyFoot (fp : Footprint Expr) : Option (Footprint GKey) :=
  if (fp.reads ++ fp.writes).all (fun e => (keyOf? e).isSome) then
    some { reads := fp.reads.filterMap keyOf?, writes := fp.writes.filterMap keyOf? }
  else none

/-- the footprint `kf` covers the grounded action `g` and respects the simulator's invariants:
    everything `g` can read is in `reads`, everything it can write is in `writes ⊆ reads`, and an
    invariant that mentions a written fluent has all its fluents in `reads` -/
def coversG (W : World) (g : GAction) (kf : Footprint GKey) : Bool :=
  gNoNested W g &&
  (gReads W g).all (fun k => kf.reads.contains k) &&
  (gWrites W g).all (fun k => kf.writes.contains k) &&
  kf.writes.all (fun k => kf.reads.contains k) &&
  (invariants W).all (fun inv =>
    let K := rkeys (c0 W) [] inv
    K.all (fun k => !kf.writes.contains k) || K.all (fun k => kf.reads.contains k))

def stepCovers (W : World) (st : Action × List String) (fp : Footprint Expr) : Bool :=
  match ground W st.1 st.2, keyFoot fp with
  | .ok (some g), some kf => coversG W g kf
  | _, _ => false

/-- the dictionary keys of `_to_partial_order_plan` (expressions) and the state's keys are in
    one-to-one correspondence on the fluents of the footprints -/
def keysInj (fps : List (Footprint Expr)) : Bool :=
  let all := fps.flatMap (fun fp => fp.reads ++ fp.writes)
  all.all (fun e1 => all.all (fun e2 => keyOf? e1 != keyOf? e2 || e1 == e2))

def coversSteps (W : World) : List (Action × List String) → List (Footprint Expr) → Bool
  | [], [] => true
  | st :: π, fp :: fps => stepCovers W st fp && coversSteps W π fps
  | _, _ => false

/-- THE DECIDABLE HYPOTHESIS of `C27_all_linearisations_partial`, evaluated by the driver on every
    case of the correspondence check -/
def covers (W : World) (π : List (Action × List String)) (fps : List (Footprint Expr)) : Bool :=
  (invariants W).all noNested && keysInj fps &&
  fps.all (fun fp => fp.writes.all (fun k => fp.reads.contains k)) && coversSteps W π fps

end UPVerif.Deorder
