/-!
# Executable model of `unified_planning/model/delta_stn.py` (DeltaSimpleTemporalNetwork, epsilon = 0)

Mirrors the Python class function by function, with the same order of operations:

* Python `dict`s (`_constraints`, `_distances`) are insertion-ordered association lists
  (`lookup` = `dict.get`, `assign` = `d[k] = v`, `setDefault` = `dict.setdefault`);
* the linked list of `DeltaNeighbors` hanging off `_constraints[x]` is a `List (Ev × Rat)`, newest
  first (`None` = `[]`); cells are never mutated by the Python code, so sharing them between copies
  is modelled by sharing the immutable list value;
* bounds are `Rat` (Python `int` / `Fraction`; the distinction is not observable through the
  arithmetic used here and the harness canonicalises both to a rational);
* `deque` = `List` (popleft = head, append = `++ [·]`).

The only non-structural loop (`while queue:` in `_inc_check`) takes fuel: one unit per `popleft`.
`Res.fuel` / `none` means "ran out of fuel", never a verdict.  `Props/C25.lean` proves that some
fuel always suffices (`C25_terminates`) and that the result does not depend on it
(`C25_fuel_irrelevant`).

Imports nothing outside core Lean (the driver links against this file).
-/
namespace UPVerif.STN

variable {Ev : Type} [DecidableEq Ev] {α : Type}

/-! ## insertion-ordered dictionaries -/

/-- `dict.get(k)` -/
def lookup (k : Ev) : List (Ev × α) → Option α
  | [] => none
  | (k', v) :: r => if k' = k then some v else lookup k r

/-- `d[k] = v` (keeps the position of an existing key, appends a new one) -/
def assign (k : Ev) (v : α) : List (Ev × α) → List (Ev × α)
  | [] => [(k, v)]
  | (k', v') :: r => if k' = k then (k', v) :: r else (k', v') :: assign k v r

/-- `d.setdefault(k, v)` -/
def setDefault (k : Ev) (v : α) (l : List (Ev × α)) : List (Ev × α) :=
  match lookup k l with
  | some _ => l
  | none => assign k v l

abbrev Nbrs (Ev : Type) := List (Ev × Rat)          -- chain of DeltaNeighbors(dst, bound, next)
abbrev Cons (Ev : Type) := List (Ev × Nbrs Ev)      -- _constraints
abbrev Dist (Ev : Type) := List (Ev × Rat)          -- _distances

/-- `self._distances[v]`.  (A missing key would be a `KeyError` in Python; the model reads `0`, the
value `setdefault` would have stored.  The default is never used on reachable states: `add` stores
both endpoints with `setdefault` before anything is read, the loop only reads endpoints of stored
edges, stored edges are inserted constraints (`Inv.edge_ins`), and every inserted event keeps its
key (`addAll_keys`, `C25_model_defined`).  On the real code a `KeyError` is reported by the
correspondence check as an `error` answer.) -/
def get (d : Dist Ev) (v : Ev) : Rat := (lookup v d).getD 0

/-- `self._constraints[c]` / `self._constraints.get(x, None)` with `None` = `[]` -/
def nbrs (c : Cons Ev) (v : Ev) : Nbrs Ev := (lookup v c).getD []

/-- delta_stn.py:39 — the network: `_constraints`, `_distances`, `_is_sat` (`_epsilon` = 0) -/
structure Net (Ev : Type) where
  cons : Cons Ev
  dist : Dist Ev
  sat : Bool
  deriving Repr

/-- delta_stn.py:58 `__init__()` with no arguments -/
def empty : Net Ev := { cons := [], dist := [], sat := true }

/-- delta_stn.py:92 `copy_stn`: shallow copies of both dicts, same flag.  The dict copies are new
dict objects whose values (immutable neighbour chains, numbers) are shared; in a value model that
is the identity. -/
def copy (s : Net Ev) : Net Ev := { cons := s.cons, dist := s.dist, sat := s.sat }

/-- delta_stn.py:140 `_is_subsumed` inner `while`: the bound of the FIRST neighbour whose dst is `y` -/
def firstBound (y : Ev) : Nbrs Ev → Option Rat
  | [] => none
  | (v, w) :: r => if v = y then some w else firstBound y r

/-- delta_stn.py:140 `_is_subsumed(x, y, b)` -/
def isSubsumed (c : Cons Ev) (x y : Ev) (b : Rat) : Bool :=
  match firstBound y (nbrs c x) with
  | some w => decide (w ≤ b)
  | none => false

/-- result of scanning the neighbour chain of one popped node -/
inductive Relax (Ev : Type) where
  | ok (d : Dist Ev) (q : List Ev)     -- chain exhausted
  | neg (d : Dist Ev)                  -- `return False` (negative cycle through the new edge)

/-- delta_stn.py:158-167 — the inner `while n is not None` of `_inc_check` for the popped node `c`
(epsilon = 0, so `abs(n.bound - b) <= epsilon` is `n.bound = b`).  `self._distances[c]` is re-read
at every neighbour, as in the Python. -/
def relax (y : Ev) (b : Rat) (c : Ev) : Nbrs Ev → Dist Ev → List Ev → Relax Ev
  | [], d, q => .ok d q
  | (v, w) :: ns, d, q =>
    if get d c + w < get d v then
      if v = y ∧ w = b then .neg d
      else relax y b c ns (assign v (get d c + w) d) (q ++ [v])
    else relax y b c ns d q

/-- result of `_inc_check` -/
inductive Res (Ev : Type) where
  | ok (d : Dist Ev)      -- returned True
  | neg (d : Dist Ev)     -- returned False
  | fuel                  -- the model ran out of fuel (not a verdict)

/-- delta_stn.py:155-167 — `while queue:`; one unit of fuel per `popleft` -/
def loop (cs : Cons Ev) (y : Ev) (b : Rat) : Nat → Dist Ev → List Ev → Res Ev
  | _, d, [] => .ok d
  | 0, _, _ :: _ => .fuel
  | fuel + 1, d, c :: q =>
    match relax y b c (nbrs cs c) d q with
    | .ok d' q' => loop cs y b fuel d' q'
    | .neg d' => .neg d'

/-- delta_stn.py:148 `_inc_check(x, y, b)` -/
def incCheck (fuel : Nat) (cs : Cons Ev) (d : Dist Ev) (x y : Ev) (b : Rat) : Res Ev :=
  let xPlusB := get d x + b
  if xPlusB < get d y then loop cs y b fuel (assign y xPlusB d) [y]
  else .ok d

/-- delta_stn.py:104 `add(x, y, b)`: the constraint `x - y <= b`.  `none` = out of fuel. -/
def add (fuel : Nat) (s : Net Ev) (x y : Ev) (b : Rat) : Option (Net Ev) :=
  if s.sat then
    let d1 := setDefault y 0 (setDefault x 0 s.dist)
    let xConstraints := nbrs s.cons x                 -- self._constraints.get(x, None)
    let c1 := setDefault y [] s.cons                  -- self._constraints.setdefault(y, None)
    if isSubsumed c1 x y b then
      some { cons := c1, dist := d1, sat := true }
    else
      let c2 := assign x ((y, b) :: xConstraints) c1  -- self._constraints[x] = DeltaNeighbors(y, b, x_constraints)
      match incCheck fuel c2 d1 x y b with
      | .ok d => some { cons := c2, dist := d, sat := true }
      | .neg d => some { cons := c2, dist := d, sat := false }
      | .fuel => none
  else some s

/-- delta_stn.py:126 `check_stn` -/
def checkStn (s : Net Ev) : Bool := s.sat

/-- delta_stn.py:130 `get_stn_model(x)` = `-1 * self._distances[x]` -/
def model (s : Net Ev) (x : Ev) : Rat := -1 * get s.dist x

/-- delta_stn.py:217-223 — inner loop of `get_constraints`: first occurrence of every dst, as
`(bound, dst)` in chain order -/
def shadow : Nbrs Ev → List Ev → List (Rat × Ev)
  | [], _ => []
  | (v, w) :: r, seen => if v ∈ seen then shadow r seen else (w, v) :: shadow r (v :: seen)

/-- delta_stn.py:204 `get_constraints`: one entry per key of `_distances` (in that order) -/
def getConstraints (s : Net Ev) : List (Ev × List (Rat × Ev)) :=
  s.dist.map fun (el, _) => (el, shadow (nbrs s.cons el) [])

/-! ## histories -/

/-- one inserted constraint `x - y ≤ b` -/
structure Con (Ev : Type) where
  x : Ev
  y : Ev
  b : Rat
  deriving Repr

/-- feed a list of insertions to one network; `none` = out of fuel -/
def addAll (fuel : Nat) : Net Ev → List (Con Ev) → Option (Net Ev)
  | s, [] => some s
  | s, c :: cs =>
    match add fuel s c.x c.y c.b with
    | some s' => addAll fuel s' cs
    | none => none

/-- operations of a history over several live networks (index = creation order) -/
inductive Op (Ev : Type) where
  | add (i : Nat) (c : Con Ev)      -- nets[i].add(c.x, c.y, c.b)
  | copy (i : Nat)                  -- nets.append(nets[i].copy_stn())
  deriving Repr

/-- one step of a history; `none` = index out of range or out of fuel -/
def step (fuel : Nat) (nets : List (Net Ev)) : Op Ev → Option (List (Net Ev))
  | .add i c =>
    match nets[i]? with
    | some s =>
      match add fuel s c.x c.y c.b with
      | some s' => some (nets.set i s')
      | none => none
    | none => none
  | .copy i =>
    match nets[i]? with
    | some s => some (nets ++ [copy s])
    | none => none

/-- every op refers to a network that is live when the op is executed (`n` networks live at the start) -/
def wellIndexed : Nat → List (Op Ev) → Bool
  | _, [] => true
  | n, .add i _ :: r => decide (i < n) && wellIndexed n r
  | n, .copy i :: r => decide (i < n) && wellIndexed (n + 1) r

def run (fuel : Nat) : List (Net Ev) → List (Op Ev) → Option (List (Net Ev))
  | nets, [] => some nets
  | nets, o :: os =>
    match step fuel nets o with
    | some nets' => run fuel nets' os
    | none => none

/-- the insertions each live network has received along its own lineage (ghost bookkeeping used
only to state copy independence) -/
def stepLines (lines : List (List (Con Ev))) : Op Ev → List (List (Con Ev))
  | .add i c =>
    match lines[i]? with
    | some l => lines.set i (l ++ [c])
    | none => lines
  | .copy i =>
    match lines[i]? with
    | some l => lines ++ [l]
    | none => lines

def runLines (lines : List (List (Con Ev))) (ops : List (Op Ev)) : List (List (Con Ev)) :=
  ops.foldl stepLines lines

end UPVerif.STN

/-! ## specification vocabulary (used by `Props/C25.lean`; not part of the mirrored code) -/
namespace UPVerif.STN
variable {Ev : Type}

/-- the assignment `t` of times to events satisfies every inserted constraint `x - y ≤ b` -/
def Sol (t : Ev → Rat) (cs : List (Con Ev)) : Prop := ∀ c ∈ cs, t c.x - t c.y ≤ c.b

/-- the events mentioned by a list of insertions -/
def events (cs : List (Con Ev)) : List Ev := cs.flatMap fun c => [c.x, c.y]

end UPVerif.STN
