import UPVerif.Core.Sim
/-
`TimeTriggeredPlanValidator` (unified_planning/engines/plan_validator.py:269-860) and, for property
C04, the part of `SequentialPlanValidator._validate` (plan_validator.py:117-266) that decides the
status — both WITH the repairs of notes/patches/C04-*.patch and C05-*.patch:

* the state invariants the validator checks are the simulator's (`Sim.invariants`: quantifier-free,
  simplified `Always` bodies + the bounds of every ground instance of a bounded fluent), and they
  are checked in EVERY state of the trace (interval `[0, None)`), the last one included;
* an instantaneous action instance is grounded with the simulator's `GrounderHelper` (`Sim.ground`);
* `_apply_effect` is a generator: the instances of a forall effect are merged one at a time;
  the target's arguments are evaluated before the effect's condition;
* one action instance may assign a non-Boolean fluent twice with the same value;
* `_states_in_interval` yields the state in force at `start` also for a left-open interval when
  nothing happens at `start` itself.

Temporal problem syntax (durative actions, timed effects, timed goals) is defined here.  Not
modelled: simulated effects, quality metrics (the status does not depend on them unless a metric
reads an undefined fluent), continuous effects (the validator does not support them).
-/
namespace UPVerif.TT
open UPVerif UPVerif.Expr UPVerif.Sim

/-! ### temporal syntax (model/timing.py) -/

/-- `TimepointKind` -/
inductive TPKind where
  | start | «end» | gstart | gend
  deriving DecidableEq, Repr, Inhabited

/-- `Timing(delay, Timepoint(kind))` -/
structure Timing where
  kind : TPKind
  delay : Rat
  deriving DecidableEq, Repr, Inhabited

/-- `TimeInterval(lower, upper, is_left_open, is_right_open)` -/
structure TInterval where
  lower : Timing
  upper : Timing
  leftOpen : Bool
  rightOpen : Bool
  deriving DecidableEq, Repr, Inhabited

/-- `DurativeAction`: `duration` is a `DurationInterval` of expressions; `conditions` and `effects`
    are insertion-ordered dicts -/
structure DurAction where
  name : String
  params : List (String × Ty)
  durLo : Expr
  durHi : Expr
  durLeftOpen : Bool
  durRightOpen : Bool
  conds : List (TInterval × List Expr)
  effs : List (Timing × List Effect)
  deriving Repr, Inhabited

/-- what a temporal `Problem` has on top of `Core/Problem.lean` -/
structure TProblem where
  dactions : List DurAction
  /-- `problem.timed_effects` -/
  timedEffs : List (Timing × List Effect)
  /-- `problem.timed_goals` -/
  timedGoals : List (TInterval × List Expr)
  deriving Repr, Inhabited

def TProblem.empty : TProblem := ⟨[], [], []⟩

inductive ActRef where
  | inst (a : Action)
  | dur (d : DurAction)
  deriving Repr, Inhabited

/-- one entry `(start, ActionInstance, duration)` of `TimeTriggeredPlan.timed_actions` -/
structure Step where
  start : Rat
  act : ActRef
  args : List String
  dur : Option Rat
  deriving Repr, Inhabited

/-! ### results -/

/-- `FailedValidationReason` -/
inductive Reason where
  | inapplicable | goals
  deriving DecidableEq, Repr, Inhabited

/-- `ValidationResult.status` (+ `reason`, and the position in the plan of `inapplicable_action`) -/
inductive Verdict where
  | valid
  | invalid (r : Reason) (who : Option Nat)
  deriving DecidableEq, Repr, Inhabited

/-- what can go wrong besides a verdict: a Python exception other than the caught ones escapes from
    `validate` (`raised`), or the model's loop ran out of fuel (never: `validate_no_fuel`, `Lemmas/TTAdmissible.lean`) -/
inductive Err where
  | raised (e : EvalErr)
  | fuel
  deriving DecidableEq, Repr, Inhabited

/-! ### `_instantiate_timing`, `_instantiate_interval`, `_ground_expression` -/

/-- `_instantiate_timing` (plan_validator.py:481): `.ok none` = global end; a failed `assert` is
    the error `other` -/
def instTiming (t : Timing) (start : Rat) (dur : Option Rat) : Except EvalErr (Option Rat) :=
  match t.kind with
  | .start | .gstart => .ok (some (start + t.delay))
  | .gend => .ok none
  | .end => match dur with
    | some d => .ok (some (start + d + t.delay))
    | none => .error .other

/-- `_instantiate_interval`: `(start, end, is_left_open)` — the right flag is not used -/
def instInterval (i : TInterval) (start : Rat) (dur : Option Rat) : Except EvalErr (Rat × Option Rat × Bool) :=
  match instTiming i.lower start dur with
  | .error x => .error x
  | .ok none => .error .other                      -- `assert start is not None`
  | .ok (some lo) =>
    match instTiming i.upper start dur with
    | .error x => .error x
    | .ok hi => .ok (lo, hi, i.leftOpen)

/-- `dict(zip(ai.action.parameters, ai.actual_parameters))` -/
def paramSubst' (P : Problem) (params : List (String × Ty)) (args : List String) : Subst :=
  (params.zip args).map (fun pa => (.leaf (.param pa.1.1 pa.1.2), objExpr P pa.2))

/-! ### `_apply_effects` / `_apply_effect` -/

/-- one element of `now_effects`: the effects of one scheduled event, the substitution
    `_ground_expression` applies to their expressions (empty for timed effects and for the already
    grounded instantaneous actions) and the `ActionInstance` they belong to (its position in the
    plan; `none` for timed effects) -/
structure Group where
  effs : List Effect
  σ : Subst
  tag : Option Nat
  deriving Repr, Inhabited

/-- `(updates, assigned)` of `_apply_effects` -/
structure TAcc where
  upd : List (GKey × Val)
  assigned : List (GKey × Option Nat)
  deriving Repr, Inhabited

def TAcc.empty : TAcc := ⟨[], []⟩

/-- `updates[g_fluent] if g_fluent in updates else state.get_value(g_fluent)` -/
def curVal (cur : GKey → Option Val) (upd : List (GKey × Val)) (k : GKey) : Option Val :=
  match upd.lookup k with
  | some v => some v
  | none => cur k

/-- one instance of `effect.expand_effect(problem)` inside `_apply_effect` (plan_validator.py:429-468):
    target (its arguments evaluated in the state), condition, then the value — for an
    increase/decrease the current value is fetched BEFORE the value is evaluated.
    `.ok none` = the condition is false -/
def evalEff (c : EvalCtx) (upd : List (GKey × Val)) (σ : Subst) (e : Effect) : Except EvalErr (Option Fired) :=
  match substE σ e.fluent with
  | .app (.fluent f) args =>
    match evalArgs c args with
    | .error x => .error x
    | .ok vs =>
      let k : GKey := (f, vs)
      match evalBool c (substE σ e.cond) with
      | .error x => .error x
      | .ok false => .ok none
      | .ok true =>
        match e.kind with
        | .assign =>
          match eval c [] (substE σ e.value) with
          | .error x => .error x
          | .ok v =>
            if f.ty == .bool then
              match v with
              | .b b => .ok (some (.setB k b))
              | _ => .error .other
            else .ok (some (.setV k v))
        | kind =>
          match curVal c.get upd k with
          | none => .error .missing
          | some (.n _) =>
            match eval c [] (substE σ e.value) with
            | .error x => .error x
            | .ok (.n d) => .ok (some (.delta k (if kind = .increase then d else -d)))
            | .ok _ => .error .other
          | some _ => .error .other
  | _ => .error .other

/-- the body of the loop `for f, v in self._apply_effect(...)` of `_apply_effects` for an assignment -/
def assignStep (tag : Option Nat) (acc : TAcc) (k : GKey) (v : Val) : Except Fail TAcc :=
  if (acc.assigned.lookup k).isSome || (acc.upd.lookup k).isSome then
    if acc.assigned.lookup k = some tag then
      if k.1.ty == .bool then
        -- "delete before add"
        match v with
        | .b true => .ok { acc with upd := (k, v) :: acc.upd }
        | .b false => .ok acc
        | _ => .error (.eval .other)
      else if acc.upd.lookup k = some v then .ok acc
      else .error .conflict
    else .error .conflict
  else .ok { upd := (k, v) :: acc.upd, assigned := (k, tag) :: acc.assigned }

/-- … and for an increase / decrease (the new value was computed from `updates` by `_apply_effect`) -/
def deltaStep (cur : GKey → Option Val) (acc : TAcc) (k : GKey) (d : Rat) : Except Fail TAcc :=
  if (acc.assigned.lookup k).isSome then .error .conflict
  else match curVal cur acc.upd k with
    | some (.n q) => .ok { acc with upd := (k, .n (q + d)) :: acc.upd }
    | _ => .error (.eval .other)

def step (cur : GKey → Option Val) (tag : Option Nat) (acc : TAcc) : Fired → Except Fail TAcc
  | .setB k b => assignStep tag acc k (.b b)
  | .setV k v => assignStep tag acc k v
  | .delta k d => deltaStep cur acc k d

/-- the effects of one scheduled event, instance by instance -/
def foldInsts (c : EvalCtx) (σ : Subst) (tag : Option Nat) : List Effect → TAcc → Except Fail TAcc
  | [], acc => .ok acc
  | e :: es, acc =>
    match evalEff c acc.upd σ e with
    | .error x => .error (.eval x)
    | .ok none => foldInsts c σ tag es acc
    | .ok (some f) =>
      match step c.get tag acc f with
      | .error x => .error x
      | .ok acc' => foldInsts c σ tag es acc'

/-- the outer loop of `_apply_effects` over `now_effects` -/
def foldGroups (P : Problem) (c : EvalCtx) : List Group → TAcc → Except Fail TAcc
  | [], acc => .ok acc
  | g :: gs, acc =>
    match foldInsts c g.σ g.tag (g.effs.flatMap (expandEffect P)) acc with
    | .error x => .error x
    | .ok acc' => foldGroups P c gs acc'

/-- `_apply_effects` (plan_validator.py:365) -/
def applyEffects (W : World) (s : SimState) (gs : List Group) : Except Fail SimState :=
  match foldGroups W.P (ctx W s) gs TAcc.empty with
  | .error x => .error x
  | .ok acc => .ok (s.child acc.upd)

/-! ### the trace and `_states_in_interval` -/

/-- `trace: Dict[Fraction, State]` in insertion order; the initial state is stored under `-1` -/
abbrev Trace := List (Rat × SimState)

/-- `trace[time] = new_state` -/
def Trace.set : Trace → Rat → SimState → Trace
  | [], t, s => [(t, s)]
  | (t', s') :: r, t, s => if t' = t then (t, s) :: r else (t', s') :: Trace.set r t s

/-- the first loop of `_states_in_interval`: `(before_time, equal_time)` -/
def scanTimes (start : Rat) : List Rat → Rat × Rat → Rat × Rat
  | [], be => be
  | x :: xs, (b, e) =>
    scanTimes start xs (if x < start ∧ x > b then x else b, if x ≤ start ∧ x > e then x else e)

/-- `inside_indexes_condition` -/
def isInside (start : Rat) (end_ : Option Rat) (x : Rat) : Bool :=
  match end_ with
  | none => decide (start < x)
  | some e => decide (start < x) && decide (x < e)

/-- `_states_in_interval` (plan_validator.py:470, repaired); `none` = `KeyError` (impossible while the
    trace has the key `-1`) -/
def statesInInterval (tr : Trace) (start : Rat) (end_ : Option Rat) (lopen : Bool) : Option (List (Rat × SimState)) :=
  let (before, equal) := scanTimes start (tr.map (·.1)) (-1, -1)
  let inside := tr.filter (fun p => isInside start end_ p.1)
  match tr.lookup before, tr.lookup equal with
  | some sb, some se =>
    some ((if !lopen || equal = before then [(before, sb)] else []) ++
          (if equal ≠ before ∧ some equal ≠ end_ then [(equal, se)] else []) ++ inside)
  | _, _ => none

/-! ### `_validate` -/

/-- an element of `scheduled_effects` (a heap ordered by `(time, id)`); ids grow with every push, so
    the list is kept in push order and popping the `(time, id)`-minimum is "first entry with the
    least time" -/
structure Sched where
  time : Rat
  group : Group
  deriving Repr, Inhabited

/-- an element of `durative_conditions`: `((start, end, is_open), id, c, opt_ai)` -/
structure DCond where
  start : Rat
  «end» : Option Rat
  lopen : Bool
  /-- `is_right_open()` of the interval: `_instantiate_interval` drops it and nothing in the
      validator reads it (kept for the specification, `Spec/Temporal.lean`) -/
  ropen : Bool
  cond : Expr
  tag : Option Nat
  deriving Repr, Inhabited

/-- processing order of the plan: `start_actions.sort(key=start, reverse=True)` (stable) followed by
    repeated `pop()` from the end = ascending start times, entries with equal start time in REVERSE
    listing order.  `insertAsc x l` inserts an entry listed before all of `l`. -/
def insertAsc (x : Step × Nat) : List (Step × Nat) → List (Step × Nat)
  | [] => [x]
  | y :: ys => if x.1.start < y.1.start then x :: y :: ys else y :: insertAsc x ys

def procOrder : List (Step × Nat) → List (Step × Nat)
  | [] => []
  | x :: xs => insertAsc x (procOrder xs)

/-- the positions `0, 1, …` of the plan's entries (the identity of their `ActionInstance`s) -/
def indexed (π : List Step) : List (Step × Nat) := π.zipIdx

/-- state of the main loop of `_validate` -/
structure Loop where
  acts : List (Step × Nat)
  sched : List Sched
  conds : List DCond
  last : SimState
  trace : Trace
  deriving Repr, Inhabited

/-- `scheduled_effects[0][0]` -/
def minTime : List Sched → Option Rat
  | [] => none
  | x :: xs => match minTime xs with
    | none => some x.time
    | some m => some (if x.time ≤ m then x.time else m)

def liftE {α : Type} : Except EvalErr α → Except Err α
  | .ok x => .ok x
  | .error e => .error (.raised e)

/-- duration constraint of a durative action instance as a condition at its start
    (plan_validator.py:640-657) -/
def durationCond (P : Problem) (d : DurAction) (args : List String) (dur : Rat) : Expr :=
  let de := Expr.real dur
  let lc := if d.durLeftOpen then mkGT de d.durLo else mkGE de d.durLo
  let uc := if d.durRightOpen then mkLT de d.durHi else mkLE de d.durHi
  substE (paramSubst' P d.params args) (mkAnd [lc, uc])

/-- the pushes of `da.effects.items()` -/
def schedDurEffs (σ : Subst) (tag : Nat) (start : Rat) (dur : Option Rat) :
    List (Timing × List Effect) → Except EvalErr (List Sched)
  | [] => .ok []
  | (t, effs) :: r =>
    match instTiming t start dur with
    | .error x => .error x
    | .ok none => .error .other
    | .ok (some rt) =>
      match schedDurEffs σ tag start dur r with
      | .error x => .error x
      | .ok l => .ok (⟨rt, ⟨effs, σ, some tag⟩⟩ :: l)

/-- the appends of `da.conditions.items()` -/
def durConds (σ : Subst) (tag : Nat) (start : Rat) (dur : Option Rat) :
    List (TInterval × List Expr) → Except EvalErr (List DCond)
  | [] => .ok []
  | (i, cs) :: r =>
    match instInterval i start dur with
    | .error x => .error x
    | .ok (_, none, _) => .error .other          -- `assert real_interval[1] is not None`
    | .ok (lo, some hi, lop) =>
      match durConds σ tag start dur r with
      | .error x => .error x
      | .ok l => .ok (cs.map (fun c => ⟨lo, some hi, lop, i.rightOpen, substE σ c, some tag⟩) ++ l)

/-- what starting an action instance adds: the events pushed on `scheduled_effects` and the
    conditions appended to `durative_conditions` (plan_validator.py:640-724, in that order).
    `.ok none` = an instantaneous instance that does not ground -/
def stepItems (W : World) (st : Step) (idx : Nat) : Except EvalErr (Option (List Sched × List DCond)) :=
  match st.act with
  | .dur d =>
    match st.dur with
    | none => .error .other                          -- `assert duration is not None`
    | some du =>
      let σ := paramSubst' W.P d.params st.args
      let c0 : DCond := ⟨st.start, some st.start, false, false, durationCond W.P d st.args du, some idx⟩
      match schedDurEffs σ idx st.start (some du) d.effs with
      | .error x => .error x
      | .ok pushes =>
        match durConds σ idx st.start (some du) d.conds with
        | .error x => .error x
        | .ok cs => .ok (some (pushes, c0 :: cs))
  | .inst a =>
    match ground W a st.args with
    | .error x => .error x
    | .ok none => .ok none
    | .ok (some g) =>
      .ok (some ([⟨st.start, ⟨g.effs, [], some idx⟩⟩],
                 g.pre.map (fun c => ⟨st.start, some st.start, false, false, c, some idx⟩)))

/-- the `if start_actions and (...)` branch of the main loop: the next action instance is started.
    `.inl v` = `_validate` returns `v` at once -/
def startStep (W : World) (L : Loop) (st : Step) (idx : Nat) (rest : List (Step × Nat)) :
    Except Err (Verdict ⊕ Loop) :=
  match stepItems W st idx with
  | .error x => .error (.raised x)
  | .ok none => .ok (.inl (.invalid .inapplicable (some idx)))
  | .ok (some (pushes, cs)) =>
    .ok (.inr { L with acts := rest, sched := L.sched ++ pushes, conds := L.conds ++ cs })

/-- the `elif scheduled_effects` branch: every event scheduled at the least time is applied -/
def effectsStep (W : World) (L : Loop) (time : Rat) : Except Err (Verdict ⊕ Loop) :=
  let now := L.sched.filter (fun x => x.time = time)
  let later := L.sched.filter (fun x => x.time ≠ time)
  match applyEffects W L.last (now.map (·.group)) with
  | .error .conflict => .ok (.inl (.invalid .inapplicable ((now.getLast?.map (·.group.tag)).join)))
  | .error (.eval .missing) => .ok (.inl (.invalid .inapplicable ((now.getLast?.map (·.group.tag)).join)))
  | .error .invalid => .error (.raised .other)
  | .error (.eval x) => .error (.raised x)
  | .ok s' => .ok (.inr { L with sched := later, last := s', trace := L.trace.set time s' })

/-- the main loop (plan_validator.py:636-786); `.inr L` = the loop ends normally -/
def run (W : World) : Nat → Loop → Except Err (Verdict ⊕ Loop)
  | 0, _ => .error .fuel
  | fuel + 1, L =>
    match L.acts, minTime L.sched with
    | [], none => .ok (.inr L)
    | (st, idx) :: rest, none =>
      match startStep W L st idx rest with
      | .ok (.inr L') => run W fuel L'
      | r => r
    | [], some m =>
      match effectsStep W L m with
      | .ok (.inr L') => run W fuel L'
      | r => r
    | (st, idx) :: rest, some m =>
      if st.start ≤ m then
        match startStep W L st idx rest with
        | .ok (.inr L') => run W fuel L'
        | r => r
      else
        match effectsStep W L m with
        | .ok (.inr L') => run W fuel L'
        | r => r

/-- `_check_condition` inside `try … except UPStateMissingFluentError: is_satisfied = False` -/
def holds (W : World) (s : SimState) (e : Expr) : Except EvalErr Bool :=
  match evalBool (ctx W s) e with
  | .ok b => .ok b
  | .error .missing => .ok false
  | .error x => .error x

/-- all the given states satisfy the condition -/
def holdsAll (W : World) (e : Expr) : List (Rat × SimState) → Except EvalErr Bool
  | [] => .ok true
  | (_, s) :: r =>
    match holds W s e with
    | .error x => .error x
    | .ok false => .ok false
    | .ok true => holdsAll W e r

/-- the loop "Check (durative) conditions" (plan_validator.py:788-827): `.ok none` = all hold -/
def checkConds (W : World) (tr : Trace) : List DCond → Except EvalErr (Option Verdict)
  | [] => .ok none
  | dc :: r =>
    match statesInInterval tr dc.start dc.end dc.lopen with
    | none => .error .other
    | some sts =>
      match holdsAll W dc.cond sts with
      | .error x => .error x
      | .ok false =>
        .ok (some (match dc.tag with
          | some i => .invalid .inapplicable (some i)
          | none => .invalid .goals none))
      | .ok true => checkConds W tr r

/-- the goal loop (plan_validator.py:829-847) -/
def checkGoals (W : World) (s : SimState) : List Expr → Except EvalErr Bool
  | [] => .ok true
  | g :: r =>
    match holds W s g with
    | .error x => .error x
    | .ok false => .ok false
    | .ok true => checkGoals W s r

/-- everything after the main loop -/
def finish (W : World) (L : Loop) : Except Err Verdict :=
  match checkConds W L.trace L.conds with
  | .error x => .error (.raised x)
  | .ok (some v) => .ok v
  | .ok none =>
    match checkGoals W L.last W.P.goals with
    | .error x => .error (.raised x)
    | .ok false => .ok (.invalid .goals none)
    | .ok true => .ok .valid

/-- the events of `problem.timed_effects` (plan_validator.py:586-604) -/
def timedSched : List (Timing × List Effect) → Except EvalErr (List Sched)
  | [] => .ok []
  | (t, effs) :: r =>
    match instTiming t 0 none with
    | .error x => .error x
    | .ok none => .error .other                    -- `assert instantiated_timing is not None`
    | .ok (some rt) =>
      match timedSched r with
      | .error x => .error x
      | .ok l => .ok (⟨rt, ⟨effs, [], none⟩⟩ :: l)

/-- the conditions of `problem.timed_goals` (plan_validator.py:606-624) -/
def timedGoalConds : List (TInterval × List Expr) → Except EvalErr (List DCond)
  | [] => .ok []
  | (i, gs) :: r =>
    match instInterval i 0 none with
    | .error x => .error x
    | .ok (lo, hi, lop) =>
      match timedGoalConds r with
      | .error x => .error x
      | .ok l => .ok (gs.map (fun g => ⟨lo, hi, lop, i.rightOpen, g, none⟩) ++ l)

/-- the state invariants, checked from `0` on in every state of the trace -/
def invariantConds (W : World) : List DCond :=
  (invariants W).map (fun si => ⟨0, none, false, false, si, none⟩)

/-- number of events an entry of the plan pushes -/
def pushes (st : Step) : Nat :=
  match st.act with
  | .inst _ => 1
  | .dur d => d.effs.length

/-- iterations the main loop can make: one per started action, at most one per scheduled event,
    one to see that nothing is left -/
def fuelFor (T : TProblem) (π : List Step) : Nat :=
  π.length + (π.map pushes).sum + T.timedEffs.length + 1

/-- the loop state `_validate` starts from -/
def initLoop (W : World) (T : TProblem) (π : List Step) : Except Err Loop :=
  match timedSched T.timedEffs with
  | .error x => .error (.raised x)
  | .ok sch =>
    match timedGoalConds T.timedGoals with
    | .error x => .error (.raised x)
    | .ok gc =>
      match initialState? W.P with
      | none => .error (.raised .other)
      | some s0 =>
        .ok { acts := procOrder (indexed π), sched := sch, conds := gc ++ invariantConds W,
              last := s0, trace := [(-1, s0)] }

/-- `TimeTriggeredPlanValidator._validate` (status, reason, inapplicable action) -/
def validate (W : World) (T : TProblem) (π : List Step) : Except Err Verdict :=
  match initLoop W T π with
  | .error x => .error x
  | .ok L0 =>
    match run W (fuelFor T π) L0 with
    | .error x => .error x
    | .ok (.inl v) => .ok v
    | .ok (.inr L) => finish W L

/-! ### `SequentialPlanValidator._validate` (status, reason, inapplicable action; no metric) -/

/-- one iteration of the loop over `plan.actions` (plan_validator.py:179-226):
    `get_unsatisfied_conditions` (all preconditions, no early termination), then `apply_unsafe`.
    `.inl v` = `invalid_result` -/
def seqStep (W : World) (s : SimState) (i : Nat) (a : Action) (args : List String) :
    Except Err (Verdict ⊕ SimState) :=
  match ground W a args with
  | .error x => .error (.raised x)
  | .ok none => .ok (.inl (.invalid .inapplicable (some i)))        -- UPInvalidActionError
  | .ok (some g) =>
    match unsatPre (ctx W s) false g.pre 0 with
    | .error .missing => .ok (.inl (.invalid .inapplicable (some i)))
    | .error x => .error (.raised x)
    | .ok (_ :: _) => .ok (.inl (.invalid .inapplicable (some i)))
    | .ok [] =>
      match applyUnsafe W s g with
      | .error .conflict => .ok (.inl (.invalid .inapplicable (some i)))
      | .error .invalid => .ok (.inl (.invalid .inapplicable (some i)))
      | .error (.eval .missing) => .ok (.inl (.invalid .inapplicable (some i)))
      | .error (.eval x) => .error (.raised x)
      | .ok s' => .ok (.inr s')

def seqLoop (W : World) : List (Action × List String) → Nat → SimState → Except Err (Verdict ⊕ SimState)
  | [], _, s => .ok (.inr s)
  | (a, args) :: r, i, s =>
    match seqStep W s i a args with
    | .ok (.inr s') => seqLoop W r (i + 1) s'
    | x => x

/-- `SequentialPlanValidator._validate`; an initial state violating the invariants is the
    `UPProblemDefinitionError` of `get_initial_state`, which escapes -/
def seqValidate (W : World) (plan : List (Action × List String)) : Except Err Verdict :=
  match getInitialState W with
  | .error x => .error (.raised x)
  | .ok none => .error (.raised .other)
  | .ok (some s0) =>
    match seqLoop W plan 0 s0 with
    | .error x => .error x
    | .ok (.inl v) => .ok v
    | .ok (.inr s) =>
      match unsatisfiedGoals W s false with
      | .error .missing => .ok (.invalid .goals none)
      | .error x => .error (.raised x)
      | .ok [] => .ok .valid
      | .ok (_ :: _) => .ok (.invalid .goals none)

/-- the instantaneous action instances of a time-triggered plan in processing (= start time) order -/
def seqPlanOf (π : List Step) : List (Action × List String) :=
  (procOrder (indexed π)).filterMap (fun x => match x.1.act with
    | .inst a => some (a, x.1.args)
    | .dur _ => none)

end UPVerif.TT
