import UPVerif.Core.Expr
import UPVerif.Core.Problem
/-
Model of the problem-kind computation of `unified_planning/model/problem.py`:
`Problem._kind_factory` / `Problem.kind`, class `_KindFactory` (all `update_*` methods and
`finalize`), `Problem._get_static_and_unused_fluents`, `InitialStateMixin._fluents_with_undefined_values`
and `types.domain_size`, for the class `Problem` (classical / numeric / temporal / processes+events).

The kind under construction is a Python `set` of feature names that the code only touches through
`set_*` (add) and `unset_*` (remove); the model keeps exactly that shape: every `update_*` method
becomes a *program* (`Prog`) of `set` / `unset` / `when` / `seq` steps written in the order of the
Python statements, and `run` interprets a program on a feature list used as a set.  The only
features the code ever *unsets* are SIMPLE_NUMERIC_PLANNING (many places) and CONTINUOUS_TIME
(`finalize`); `Prog` can therefore only unset the former, and `finalize` is a plain function.

What the model does not contain, and takes as a parameter (`Facts`) instead — they are owned by other
properties: `LinearChecker.get_fluents(e)[0]` (C17) and the fluent expressions of
`Simplifier.simplify(e)` (C11).

Syntax: `Core/Problem.lean` lacks durative actions, processes, events, timed effects/goals,
simulated effects, makespan / temporal-oversubscription metrics and the time-model flags; they are
added here locally (`KProblem`).  Dict-of-lists containers (`conditions`, `effects`, `timed_goals`…)
are flattened to lists of pairs and the single Python action list is split into instantaneous and
durative actions: the computation only ever adds features (and removes SIMPLE_NUMERIC_PLANNING),
so neither grouping nor interleaving is observable.
-/
namespace UPVerif.KindOf
open UPVerif

abbrev Feature := String
/-- the `_features` set of the `ProblemKind` under construction (list used as a set) -/
abbrev KS := List Feature

def SNP : Feature := "SIMPLE_NUMERIC_PLANNING"

/-! ### programs over a kind -/

inductive Prog where
  /-- `self.kind.set_<group>(f)` -/
  | set (f : Feature)
  /-- `self.kind.unset_problem_type("SIMPLE_NUMERIC_PLANNING")` -/
  | unsetSNP
  /-- `if c: …` -/
  | when (c : Bool) (p : Prog)
  /-- statements in sequence -/
  | seq (ps : List Prog)
  deriving Inhabited

mutual
def run : Prog → KS → KS
  | .set f, k => f :: k
  | .unsetSNP, k => k.filter (fun g => g != SNP)
  | .when c p, k => if c then run p k else k
  | .seq ps, k => runList ps k
def runList : List Prog → KS → KS
  | [], k => k
  | p :: ps, k => runList ps (run p k)
end

def Prog.skip : Prog := .seq []

/-! ### syntax added locally -/

inductive TPKind where
  | start | end_ | gstart | gend
  deriving DecidableEq, Repr, Inhabited

/-- `unified_planning.model.timing.Timing` -/
structure Timing where
  kind : TPKind
  delay : Rat
  deriving Repr, Inhabited

def Timing.isFromStart (t : Timing) : Bool := t.kind == .start || t.kind == .gstart
def Timing.isFromEnd (t : Timing) : Bool := !t.isFromStart

/-- `TimeInterval` (openness is not observed by the kind computation) -/
structure Interval where
  lower : Timing
  upper : Timing
  deriving Repr, Inhabited

inductive CK where
  | inc | dec
  deriving DecidableEq, Repr, Inhabited

/-- a continuous effect (`EffectKind.CONTINUOUS_INCREASE/DECREASE`): condition `True` and no forall
    variables by construction (`Process._add_continuous_effect`,
    `DurativeAction.add_increase_continuous_effect`) -/
structure CEff where
  fluent : Expr
  value : Expr
  kind : CK
  deriving Repr, Inhabited

/-- `InstantaneousAction`; `sim` = the fluents of its simulated effect, if any -/
structure IAct where
  name : String
  params : List (String × Ty)
  pre : List Expr
  effs : List Effect
  sim : Option (List Expr)
  deriving Repr, Inhabited

/-- `DurativeAction` -/
structure DAct where
  name : String
  params : List (String × Ty)
  durLo : Expr
  durHi : Expr
  conds : List (Interval × Expr)
  effs : List (Timing × Effect)
  ceffs : List (Interval × CEff)
  sims : List (Timing × List Expr)
  deriving Repr, Inhabited

/-- `natural_transition.Process` -/
structure Proc where
  name : String
  params : List (String × Ty)
  pre : List Expr
  effs : List CEff
  deriving Repr, Inhabited

/-- `natural_transition.Event` (without simulated effect) -/
structure Evt where
  name : String
  params : List (String × Ty)
  pre : List Expr
  effs : List Effect
  deriving Repr, Inhabited

inductive KMetric where
  | minActionCosts (costs : List (String × Expr)) (default : Option Expr)
  | minLength
  | minFinal (e : Expr)
  | maxFinal (e : Expr)
  | oversub (goals : List (Expr × Rat))
  | makespan
  | toversub (goals : List (Interval × Expr × Rat))
  deriving Repr, Inhabited

structure KProblem where
  types : TypeEnv
  objects : List (String × String)
  fluents : List FluentDecl
  init : List (Expr × Expr)
  iactions : List IAct
  dactions : List DAct
  processes : List Proc
  events : List Evt
  timedEffects : List (Timing × Effect)
  timedGoals : List (Interval × Expr)
  goals : List Expr
  traj : List Expr
  metrics : List KMetric
  discreteTime : Bool
  selfOverlapping : Bool
  deriving Repr, Inhabited

/-- answers of walkers owned by other properties -/
structure Facts where
  /-- `LinearChecker(problem).get_fluents(e)[0]` -/
  lin : Expr → Bool
  /-- the fluent expressions of `Simplifier(env, problem).simplify(e)` -/
  simpFluentExps : Expr → List Expr

/-! ### small walkers -/

/-- `OperatorKind` of a node (only the distinctions the kind computation makes) -/
inductive NodeKind where
  | const | param | var | obj | timing
  | and | or | not | implies | iff | exists | forall
  | fluent | ifun | dot | arith | le | lt | equals | temporal
  deriving DecidableEq, Repr, Inhabited

def nodeKind : Expr → NodeKind
  | .leaf (.boolC _) | .leaf (.intC _) | .leaf (.realC _) => .const
  | .leaf (.obj _ _) => .obj
  | .leaf (.param _ _) => .param
  | .leaf (.var _) => .var
  | .leaf (.timing _) | .leaf (.present _) => .timing
  | .app .and _ => .and
  | .app .or _ => .or
  | .app .not _ => .not
  | .app .implies _ => .implies
  | .app .iff _ => .iff
  | .app (.fluent _) _ => .fluent
  | .app (.ifun _) _ => .ifun
  | .app (.dot _) _ => .dot
  | .app .plus _ | .app .minus _ | .app .times _ | .app .div _ => .arith
  | .app .le _ => .le
  | .app .lt _ => .lt
  | .app .eq _ => .equals
  | .app .always _ | .app .sometime _ | .app .sometimeBefore _ | .app .sometimeAfter _
  | .app .atMostOnce _ => .temporal
  | .quant .ex _ _ => .exists
  | .quant .all _ _ => .forall

mutual
/-- `OperatorsExtractor.get` (walkers/operators_extractor.py): the node types of all sub-expressions -/
def opsOf : Expr → List NodeKind
  | .leaf l => [nodeKind (.leaf l)]
  | .app o as => nodeKind (.app o as) :: opsOfList as
  | .quant q vs b => nodeKind (.quant q vs b) :: opsOf b
def opsOfList : List Expr → List NodeKind
  | [] => []
  | e :: es => opsOf e ++ opsOfList es
end

mutual
/-- `{f.fluent() for f in free_vars_extractor.get(e)}` (walkers/free_vars.py collects the FLUENT
    expressions, arguments and quantifier bodies included) -/
def fluentRefs : Expr → List FluentRef
  | .leaf _ => []
  | .app (.fluent f) as => f :: fluentRefsList as
  | .app _ as => fluentRefsList as
  | .quant _ _ b => fluentRefs b
def fluentRefsList : List Expr → List FluentRef
  | [] => []
  | e :: es => fluentRefs e ++ fluentRefsList es
end

/-- `e.fluent.fluent()` of an effect's target -/
def targetRef : Expr → Option FluentRef
  | .app (.fluent f) _ => some f
  | _ => none

/-- the class of the type the TypeChecker gives a (well-typed) expression -/
inductive TC where
  | bool | int | real | user | time | other
  deriving DecidableEq, Repr, Inhabited

def tcOfTy : Ty → TC
  | .bool => .bool
  | .int _ _ => .int
  | .real _ _ => .real
  | .user _ => .user
  | .time => .time

def TC.isNum : TC → Bool
  | .int | .real => true
  | _ => false

def tyIsNum (t : Ty) : Bool := (tcOfTy t).isNum

mutual
/-- `expression.type` up to int/real/bool/user/time (walkers/type_checker.py: `walk_plus`,
    `walk_minus`, `walk_times` give real iff some argument is real — time if one is a time —,
    `walk_div` always real) -/
def tcOf : Expr → TC
  | .leaf (.boolC _) => .bool
  | .leaf (.intC _) => .int
  | .leaf (.realC _) => .real
  | .leaf (.obj _ _) => .user
  | .leaf (.param _ t) => tcOfTy t
  | .leaf (.var v) => tcOfTy v.ty
  | .leaf (.timing _) => .time
  | .leaf (.present _) => .bool
  | .app (.fluent f) _ => tcOfTy f.ty
  | .app (.ifun g) _ => tcOfTy g.ty
  | .app (.dot _) as => tcOfHead as
  | .app .plus as | .app .minus as | .app .times as =>
      if anyTC .time as then .time else if anyTC .real as then .real else .int
  | .app .div _ => .real
  | .app _ _ => .bool
  | .quant _ _ _ => .bool
def anyTC (c : TC) : List Expr → Bool
  | [] => false
  | e :: es => tcOf e == c || anyTC c es
def tcOfHead : List Expr → TC
  | [] => .other
  | e :: _ => tcOf e
end

/-! ### `Problem._get_static_and_unused_fluents` (problem.py:321) -/

structure SU where
  static : List FluentRef
  unused : List FluentRef
  inDurations : List FluentRef
  inCosts : List FluentRef
  deriving Repr, Inhabited

def effReads (e : Effect) : List FluentRef :=
  fluentRefs e.fluent ++ fluentRefs e.value ++ fluentRefs e.cond
def ceffReads (e : CEff) : List FluentRef :=
  fluentRefs e.fluent ++ fluentRefs e.value   -- condition is TRUE
def exprsReads (es : List Expr) : List FluentRef := es.flatMap fluentRefs
def simTargets (fs : List Expr) : List FluentRef := fs.filterMap targetRef

/-- fluents discarded from `static_fluents`: every effect target and every simulated-effect fluent,
    in the order of the Python loops -/
def written (P : KProblem) : List FluentRef :=
  P.iactions.flatMap (fun a => a.effs.filterMap (fun e => targetRef e.fluent) ++ simTargets (a.sim.getD []))
  ++ P.dactions.flatMap (fun a => a.effs.filterMap (fun te => targetRef te.2.fluent) ++
      a.ceffs.filterMap (fun ce => targetRef ce.2.fluent) ++ a.sims.flatMap (fun s => simTargets s.2))
  ++ P.events.flatMap (fun ev => ev.effs.filterMap (fun e => targetRef e.fluent))
  ++ P.processes.flatMap (fun pr => pr.effs.filterMap (fun e => targetRef e.fluent))
  ++ P.timedEffects.filterMap (fun te => targetRef te.2.fluent)

def metricReads : KMetric → List FluentRef
  | .minFinal e | .maxFinal e => fluentRefs e
  | .oversub gs => gs.flatMap (fun g => fluentRefs g.1)
  | .toversub gs => gs.flatMap (fun g => fluentRefs g.2.1)
  | _ => []

/-- fluents removed from `unused_fluents` by `remove_used_fluents` -/
def readFluents (P : KProblem) : List FluentRef :=
  P.iactions.flatMap (fun a => exprsReads a.pre ++ a.effs.flatMap effReads)
  ++ P.dactions.flatMap (fun a => exprsReads (a.conds.map (·.2)) ++ a.effs.flatMap (fun te => effReads te.2)
      ++ a.ceffs.flatMap (fun ce => ceffReads ce.2))
  ++ P.events.flatMap (fun ev => exprsReads ev.pre ++ ev.effs.flatMap effReads)
  ++ P.processes.flatMap (fun pr => exprsReads pr.pre ++ pr.effs.flatMap ceffReads)
  ++ P.timedEffects.flatMap (fun te => effReads te.2)
  ++ exprsReads (P.timedGoals.map (·.2))
  ++ exprsReads P.traj
  ++ exprsReads P.goals
  ++ P.metrics.flatMap metricReads

/-- `unused_fluents.clear()`: some action has a simulated effect -/
def hasSim (P : KProblem) : Bool :=
  P.iactions.any (fun a => a.sim.isSome) || P.dactions.any (fun a => !a.sims.isEmpty)

def costExprs : KMetric → List Expr
  | .minActionCosts costs dflt => costs.map (·.2) ++ (match dflt with | some d => [d] | none => [])
  | _ => []

def staticUnused (P : KProblem) : SU :=
  let fl := P.fluents.map (·.ref)
  let w := written P
  let r := readFluents P
  { static := fl.filter (fun f => !w.contains f)
    unused := if hasSim P then [] else fl.filter (fun f => !r.contains f)
    inDurations := P.dactions.flatMap (fun a => fluentRefs a.durLo ++ fluentRefs a.durHi)
    inCosts := P.metrics.flatMap (fun m => exprsReads (costExprs m)) }

/-! ### `_KindFactory.update_*` (problem.py:940 ff.) -/

section factory
variable (F : Facts) (P : KProblem) (S : SU)

/-- `update_problem_kind_type` -/
def updType (t : Ty) : Prog :=
  match t with
  | .user n => .seq [.set "FLAT_TYPING", .when (P.types.father n).isSome (.set "HIERARCHICAL_TYPING")]
  | _ => .skip

/-- `update_problem_kind_expression` -/
def updExpr (e : Expr) : Prog :=
  let ops := opsOf e
  .seq [
    .when (ops.contains .equals) (.set "EQUALITIES"),
    .when (ops.contains .not) (.set "NEGATIVE_CONDITIONS"),
    .when (ops.contains .or || ops.contains .implies) (.set "DISJUNCTIVE_CONDITIONS"),
    .when (ops.contains .exists) (.set "EXISTENTIAL_CONDITIONS"),
    .when (ops.contains .forall) (.set "UNIVERSAL_CONDITIONS"),
    .when (ops.contains .ifun) (.seq [.unsetSNP, .set "INTERPRETED_FUNCTIONS_IN_CONDITIONS"]),
    .when (!F.lin e) .unsetSNP ]

/-- the `STATIC_FLUENTS_IN_<c>` / `FLUENTS_IN_<c>` pair of `update_problem_kind_effect` and
    `update_action_duration` -/
def fluentsIn (fs : List FluentRef) (staticFeat dynFeat : Feature) : Prog :=
  .seq [ .when (fs.any (fun f => S.static.contains f)) (.set staticFeat),
         .when (fs.any (fun f => !S.static.contains f)) (.set dynFeat) ]

def isNumConst : Expr → Bool
  | .leaf (.intC _) | .leaf (.realC _) => true
  | _ => false

def targetIsNum (fl : Expr) : Bool :=
  match targetRef fl with
  | some f => tyIsNum f.ty
  | none => false

/-- `update_problem_kind_effect` for assign / increase / decrease effects.
    The tests `e.fluent in self.fluents_to_only_increase/decrease` of the Python code compare an
    FNode with a set of `Fluent` objects and are therefore always False (checked on the real code);
    the model drops them together with the two sets. -/
def updEffect (e : Effect) : Prog :=
  let value := e.value
  let fiv := fluentRefs value
  let ops := opsOf value
  let numAssign : Prog := fluentsIn S fiv "STATIC_FLUENTS_IN_NUMERIC_ASSIGNMENTS" "FLUENTS_IN_NUMERIC_ASSIGNMENTS"
  let incdec (feat : Feature) : Prog := .seq [
      .set feat,
      .when (ops.contains .ifun) (.seq [.unsetSNP, .set "INTERPRETED_FUNCTIONS_IN_NUMERIC_ASSIGNMENTS"]),
      .when (!isNumConst value) (.seq [.unsetSNP, numAssign]) ]
  .seq [
    .when e.isConditional (.seq [
      updExpr F e.cond,
      .set "CONDITIONAL_EFFECTS",
      .when (targetIsNum e.fluent) .unsetSNP ]),
    .when (!e.forall_.isEmpty) (.seq (.set "FORALL_EFFECTS" :: e.forall_.map (fun v => updType P v.ty))),
    (match e.kind with
     | .increase => incdec "INCREASE_EFFECTS"
     | .decrease => incdec "DECREASE_EFFECTS"
     | .assign =>
       match tcOf value with
       | .int | .real => .seq [
           .when (ops.contains .ifun) (.seq [.unsetSNP, .set "INTERPRETED_FUNCTIONS_IN_NUMERIC_ASSIGNMENTS"]),
           .when (!value.isConstant) .unsetSNP,
           numAssign ]
       | .bool => .seq [
           .when (ops.contains .ifun) (.set "INTERPRETED_FUNCTIONS_IN_BOOLEAN_ASSIGNMENTS"),
           fluentsIn S fiv "STATIC_FLUENTS_IN_BOOLEAN_ASSIGNMENTS" "FLUENTS_IN_BOOLEAN_ASSIGNMENTS" ]
       | .user => .seq [
           .when (ops.contains .ifun) (.set "INTERPRETED_FUNCTIONS_IN_OBJECT_ASSIGNMENTS"),
           fluentsIn S fiv "STATIC_FLUENTS_IN_OBJECT_ASSIGNMENTS" "FLUENTS_IN_OBJECT_ASSIGNMENTS" ]
       | _ => .skip) ]

/-- `update_problem_kind_effect` on a continuous effect (last `elif`) -/
def updCEffect (e : CEff) : Prog :=
  .seq [ .unsetSNP,
         .when ((opsOf e.value).contains .ifun) (.set "INTERPRETED_FUNCTIONS_IN_NUMERIC_ASSIGNMENTS") ]

/-- `update_problem_kind_fluent` -/
def updFluent (d : FluentDecl) : Prog :=
  let f := d.ref
  let t := f.ty
  let unused := S.unused.contains f
  .seq [
    .when (!unused || !tyIsNum t) (updType P t),
    (match t with
     | .int lb ub => .seq [
         .when (lb.isSome || ub.isSome) (.set "BOUNDED_TYPES"),
         .when (!unused || (!S.inDurations.contains f && !S.inCosts.contains f)) (.set "INT_FLUENTS") ]
     | .real lb ub => .seq [
         .when (lb.isSome || ub.isSome) (.set "BOUNDED_TYPES"),
         .when (!unused || (!S.inDurations.contains f && !S.inCosts.contains f)) (.set "REAL_FLUENTS") ]
     | .user _ => .set "OBJECT_FLUENTS"
     | _ => .skip),
    .seq (f.sig.map (fun pt => .seq [
      updType P pt,
      (match pt with
       | .bool => .set "BOOL_FLUENT_PARAMETERS"
       | .int _ _ => .set "BOUNDED_INT_FLUENT_PARAMETERS"
       | _ => .skip) ])) ]

/-- `update_action_parameter` -/
def updParam (pt : Ty) : Prog :=
  .seq [
    updType P pt,
    (match pt with
     | .bool => .set "BOOL_ACTION_PARAMETERS"
     | .real _ _ => .set "REAL_ACTION_PARAMETERS"
     | .int lb ub =>
       if lb.isNone || ub.isNone then .set "UNBOUNDED_INT_ACTION_PARAMETERS"
       else .set "BOUNDED_INT_ACTION_PARAMETERS"
     | _ => .skip) ]

/-- `update_action_duration` -/
def updDuration (lo hi : Expr) : Prog :=
  let durTy (b : Expr) : Prog :=
    if tcOf b == .int then .set "INT_TYPE_DURATIONS" else .set "REAL_TYPE_DURATIONS"
  let fvs := fluentRefs lo ++ fluentRefs hi
  let ops := opsOf lo ++ opsOf hi
  .seq [
    durTy lo, durTy hi,
    .when (decide (lo ≠ hi)) (.set "DURATION_INEQUALITIES"),
    .when (ops.contains .ifun) (.set "INTERPRETED_FUNCTIONS_IN_DURATIONS"),
    .when (!fvs.isEmpty) (fluentsIn S fvs "STATIC_FLUENTS_IN_DURATIONS" "FLUENTS_IN_DURATIONS") ]

/-- the INTERMEDIATE / EXTERNAL classification of one `Timing` -/
def timingClass (t : Timing) : Prog :=
  if (t.isFromStart && decide (0 < t.delay)) || (t.isFromEnd && decide (t.delay < 0))
  then .set "INTERMEDIATE_CONDITIONS_AND_EFFECTS" else .set "EXTERNAL_CONDITIONS_AND_EFFECTS"

def intervalClass (i : Interval) : Prog :=
  .when (decide (i.lower.delay ≠ 0) || decide (i.upper.delay ≠ 0))
    (.seq [timingClass i.lower, timingClass i.upper])

/-- `update_action_timed_condition` -/
def updTimedCond (c : Interval × Expr) : Prog := .seq [intervalClass c.1, updExpr F c.2]
/-- `update_action_timed_effect` -/
def updTimedEff (te : Timing × Effect) : Prog :=
  .seq [.when (decide (te.1.delay ≠ 0)) (timingClass te.1), updEffect F P S te.2]
/-- `update_action_timed_continuous_effect` -/
def updTimedCEff (ce : Interval × CEff) : Prog := .seq [intervalClass ce.1, updCEffect ce.2]

/-- the continuous-effect loop shared by `update_problem_kind_action` (durative) and
    `update_problem_kind_process`.  `continuous_fluents` / `fluents_in_rhs` hold the bound methods
    `FNode.fluent` of hash-consed nodes, so membership is equality of fluent EXPRESSIONS. -/
def contLoop (ces : List CEff) : Prog :=
  let targets := ces.map (·.fluent)
  let rhs := ces.flatMap (fun e => F.simpFluentExps e.value)
  .seq [
    .seq (ces.map (fun e => match e.kind with
      | .inc => .set "INCREASE_CONTINUOUS_EFFECTS"
      | .dec => .set "DECREASE_CONTINUOUS_EFFECTS")),
    .when (targets.any (fun t => rhs.contains t)) (.set "NON_LINEAR_CONTINUOUS_EFFECTS") ]

/-- `update_problem_kind_action`, `InstantaneousAction` branch -/
def updIAct (a : IAct) : Prog :=
  .seq [
    .seq (a.params.map (fun p => updParam P p.2)),
    .seq (a.pre.map (updExpr F)),
    .seq (a.effs.map (updEffect F P S)),
    .when a.sim.isSome (.set "SIMULATED_EFFECTS") ]

/-- `update_problem_kind_action`, `DurativeAction` branch -/
def updDAct (a : DAct) : Prog :=
  .seq [
    .seq (a.params.map (fun p => updParam P p.2)),
    updDuration S a.durLo a.durHi,
    .seq (a.conds.map (updTimedCond F)),
    .seq (a.effs.map (updTimedEff F P S)),
    .seq (a.ceffs.map updTimedCEff),
    .when (!a.sims.isEmpty) (.set "SIMULATED_EFFECTS"),
    .set "CONTINUOUS_TIME",
    contLoop F (a.ceffs.map (·.2)) ]

/-- `update_problem_kind_process` (with the preconditions scanned: fix of D-C10) -/
def updProc (p : Proc) : Prog :=
  .seq [
    .seq (p.params.map (fun q => updParam P q.2)),
    .seq (p.pre.map (updExpr F)),
    contLoop F p.effs ]

/-- `update_problem_kind_event` -/
def updEvt (ev : Evt) : Prog :=
  .seq [
    .seq (ev.params.map (fun q => updParam P q.2)),
    .seq (ev.pre.map (updExpr F)),
    .seq (ev.effs.map (updEffect F P S)) ]

def gainKind (w : Rat) : Prog :=
  if w.den == 1 then .set "INT_NUMBERS_IN_OVERSUBSCRIPTION" else .set "REAL_NUMBERS_IN_OVERSUBSCRIPTION"

/-- one iteration of the loop of `update_problem_kind_metric` -/
def updMetric : KMetric → Prog
  | .minFinal e | .maxFinal e =>
    .seq [.set "FINAL_VALUE", updExpr F e, .when (!F.lin e) .unsetSNP]
  | .minActionCosts costs dflt =>
    .seq (.set "ACTIONS_COST" :: (costExprs (.minActionCosts costs dflt)).map (fun cost => .seq [
      updExpr F cost,
      (match tcOf cost with
       | .int => .set "INT_NUMBERS_IN_ACTIONS_COST"
       | .real => .set "REAL_NUMBERS_IN_ACTIONS_COST"
       | _ => .skip),
      .seq ((fluentRefs cost).map (fun f =>
        if S.static.contains f then .set "STATIC_FLUENTS_IN_ACTIONS_COST" else .set "FLUENTS_IN_ACTIONS_COST")) ]))
  | .makespan => .set "MAKESPAN"
  | .minLength => .set "PLAN_LENGTH"
  | .oversub gs =>
    .seq [.set "OVERSUBSCRIPTION", .seq (gs.map (fun g => updExpr F g.1)), .seq (gs.map (fun g => gainKind g.2))]
  | .toversub gs =>
    .seq [.set "TEMPORAL_OVERSUBSCRIPTION", .seq (gs.map (fun g => updExpr F g.2.1)),
          .seq (gs.map (fun g => gainKind g.2.2))]

/-- `update_problem_kind_initial_state`, given the fluents with undefined values -/
def updInit (undef : List FluentDecl) : Prog :=
  .seq (undef.map (fun d =>
    if tyIsNum d.ref.ty then .set "UNDEFINED_INITIAL_NUMERIC" else .set "UNDEFINED_INITIAL_SYMBOLIC"))

/-- the loop body over `self._trajectory_constraints` in `Problem._kind_factory` -/
def updTraj (tc : Expr) : Prog :=
  .seq [
    (match tc with
     | .app .always _ => .set "STATE_INVARIANTS"
     | _ => .set "TRAJECTORY_CONSTRAINTS"),
    updExpr F tc ]

/-- `_KindFactory.__init__` followed by `Problem._kind_factory` -/
def kindProg (undef : List FluentDecl) : Prog :=
  .seq [
    -- __init__
    .set "ACTION_BASED",
    .set SNP,
    .seq (P.metrics.map (updMetric F S)),
    .seq (P.fluents.map (updFluent P S)),
    .seq (P.objects.map (fun o => updType P (.user o.2))),
    -- _kind_factory
    .seq (P.iactions.map (updIAct F P S)),
    .seq (P.dactions.map (updDAct F P S)),
    .when (!P.timedEffects.isEmpty) (.seq [.set "CONTINUOUS_TIME", .set "TIMED_EFFECTS"]),
    .seq (P.processes.map (updProc F P)),
    .seq (P.events.map (updEvt F P S)),
    .seq (P.timedEffects.map (fun te => updEffect F P S te.2)),
    .when (!P.timedGoals.isEmpty) (.seq [.set "TIMED_GOALS", .set "CONTINUOUS_TIME"]),
    .seq (P.traj.map (updTraj F)),
    .seq ((P.timedGoals.map (·.2) ++ P.goals).map (updExpr F)),
    updInit undef,
    .when (!P.processes.isEmpty) (.set "PROCESSES"),
    .when (!P.events.isEmpty) (.set "EVENTS") ]

end factory

/-! ### initial state (`mixins/initial_state.py:143`, `types.py:250`) -/

/-- `problem.objects(t)` count: objects whose type is `t` or a descendant -/
def objectsOf (P : KProblem) (t : String) : List String :=
  (P.objects.filter (fun o => P.types.isSubtype o.2 t)).map (·.1)

/-- `domain_size`; `none` = raises `UPProblemDefinitionError("Parameter not groundable!")` -/
def domainSize (P : KProblem) : Ty → Option Int
  | .bool => some 2
  | .user n => some (objectsOf P n).length
  | .int (some lb) (some ub) => some (ub - lb + 1)
  | _ => none

def groundSize (P : KProblem) : List Ty → Option Int
  | [] => some 1
  | t :: ts => do
    let a ← domainSize P t
    let b ← groundSize P ts
    some (a * b)

/-- number of explicit initial values whose fluent is `f` (`Counter(x.fluent() for x in …)`) -/
def initCount (P : KProblem) (f : FluentRef) : Int :=
  ((P.init.filter (fun iv => targetRef iv.1 == some f)).length : Int)

/-- `_fluents_with_undefined_values` -/
def undefFluents (P : KProblem) : List FluentDecl → Option (List FluentDecl)
  | [] => some []
  | d :: ds =>
    if d.default.isSome then undefFluents P ds
    else do
      let g ← groundSize P d.ref.sig
      let rest ← undefFluents P ds
      some (if g != initCount P d.ref then d :: rest else rest)

/-! ### `finalize` (problem.py:925) -/

/-- first `if` of `finalize`: the numeric problem type -/
def finNumeric (k : KS) : KS :=
  if !k.contains "REAL_FLUENTS" && !k.contains "INT_FLUENTS" then k.filter (fun g => g != SNP)
  else if !k.contains SNP then "GENERAL_NUMERIC_PLANNING" :: k
  else k

/-- second `if`: discrete time replaces continuous time -/
def finDiscrete (P : KProblem) (k : KS) : KS :=
  if k.contains "CONTINUOUS_TIME" && P.discreteTime then
    ("DISCRETE_TIME" :: k).filter (fun g => g != "CONTINUOUS_TIME")
  else k

/-- third `if`: self-overlapping -/
def finOverlap (P : KProblem) (k : KS) : KS :=
  if P.selfOverlapping && (k.contains "CONTINUOUS_TIME" || k.contains "DISCRETE_TIME") then
    "SELF_OVERLAPPING" :: k
  else k

def finalize (P : KProblem) (k : KS) : KS := finOverlap P (finDiscrete P (finNumeric k))

/-- `Problem.kind`; `none` = the computation raises ("Parameter not groundable!") -/
def kindOf (F : Facts) (P : KProblem) : Option KS :=
  match undefFluents P P.fluents with
  | none => none
  | some undef => some (finalize P (run (kindProg F P (staticUnused P) undef) []))

end UPVerif.KindOf
