/-
Model of `unified_planning/model/state.py` (class `UPState`).

Python `UPState` objects are MUTABLE and SHARED: `_condense_state` (called by `__hash__`, hence by
`__eq__`, by `__repr__`, and through the f-string `{self}` by the error path of `get_value`)
rewrites `_values`, `_father`, `_ancestors` of an object that may be the `_father` of other
objects.  The model therefore is a heap: `Store.nodes[i]` is the object created i-th, `father`
holds an object id.  Every function below names the Python function it mirrors.

Keys are fluent expressions `f(a1,…)` (fluent name + constant arguments); `fluents_defaults` is keyed
by the fluent alone (`fluent.fluent()`).  Values are constant FNodes, which the expression manager
hash-conses, so `==`/`!=` on them is equality of an opaque token.  Python dicts are association
lists in insertion order whose keys are pairwise distinct (`NodupKeys`).
-/
namespace UPVerif.State

/-- a fluent expression: fluent name and arguments -/
abbrev FExp := String × List String
/-- a constant FNode (opaque token) -/
abbrev Value := String
/-- a Python `dict` FExp ↦ constant, in insertion order -/
abbrev Dict := List (FExp × Value)
/-- `problems_fluent_set.fluents_defaults` : Fluent ↦ constant -/
abbrev Defaults := List (String × Value)

/-- `d.get(k, None)` -/
def dget : Dict → FExp → Option Value
  | [], _ => none
  | (k', v) :: r, k => if k' = k then some v else dget r k

/-- `d.setdefault(k, v)` -/
def setdefault (d : Dict) (k : FExp) (v : Value) : Dict :=
  match dget d k with
  | some _ => d
  | none => d ++ [(k, v)]

/-- `for k, v in inst._values.items(): acc.setdefault(k, v)` (state.py:122-123, 191-192) -/
def mergeInto (acc : Dict) (vals : Dict) : Dict :=
  vals.foldl (fun a kv => setdefault a kv.1 kv.2) acc

/-- `fluents_defaults.get(fluent.fluent(), None)` -/
def defaultOf : Defaults → FExp → Option Value
  | [], _ => none
  | (n, v) :: r, f => if n = f.1 then some v else defaultOf r f

/-- `UPState._is_nondefault` (state.py:105-109) -/
def isNondefault (ds : Defaults) (f : FExp) (v : Value) : Bool :=
  match defaultOf ds f with
  | none => true
  | some d => d != v

/-- `a == b` on dicts: the same items (keys are distinct) -/
def itemsEq (a b : Dict) : Bool :=
  a.all (fun kv => dget b kv.1 == some kv.2) && b.all (fun kv => dget a kv.1 == some kv.2)

/-- one `UPState` object -/
structure Node where
  /-- `self._values` -/
  values : Dict
  /-- `self._father` (object id) -/
  father : Option Nat
  /-- `self._ancestors` -/
  ancestors : Nat
  /-- `type(self).MAX_ANCESTORS` -/
  limit : Option Nat
  /-- `self._hash`: `None`, or the items whose hashes were xor-ed when it was computed -/
  hash : Option Dict
  deriving Repr

structure Store where
  /-- the shared `_fluent_set.fluents_defaults` -/
  defaults : Defaults
  /-- `UPState.MAX_ANCESTORS`: `make_child` builds `UPState(...)`, not `type(self)(...)`, so every
      state it returns has the base class's limit, whatever the class of the root -/
  baseLimit : Option Nat
  /-- the objects in creation order; object id = index -/
  nodes : List Node
  deriving Repr

/-- `max_ancestors is not None and max_ancestors < 1` → UPValueError (state.py:80-84) -/
def limitOk : Option Nat → Bool
  | some n => decide (1 ≤ n)
  | none => true

/-- `UPState.__init__` (state.py:60-103).  `father` = (id, the father object as it is now).
    The loop `self._values[fluent] = value` over the items of a dict is a filtered copy.
    (Keys that are not fluent expressions / values that are not constants raise UPValueError in the
    code; the model's keys and values are fluent expressions and constants by construction.) -/
def initNode (ds : Defaults) (limit : Option Nat) (values : Dict) (father : Option (Nat × Node)) :
    Option Node :=
  if !limitOk limit then none
  else some {
    values := values.filter (fun kv => father.isSome || isNondefault ds kv.1 kv.2)
    father := father.map (·.1)
    ancestors := match father with
      | none => 0
      | some (_, fn) => fn.ancestors + 1
    limit := limit
    hash := none }

/-- the `_values` dicts met by `while current_instance is not None: …; current_instance =
    current_instance._father` (state.py:121-124, 159-163, 190-193), starting from object `cur`.
    `fuel` bounds the walk; `chain_fuel_suffices` (Props/C36) shows that `i + 1` is enough from
    object `i` in every reachable store (a father is always an older object). -/
def chain : Nat → List Node → Option Nat → List Dict
  | 0, _, _ => []
  | _ + 1, _, none => []
  | fuel + 1, ns, some i =>
    match ns[i]? with
    | none => []
    | some n => n.values :: chain fuel ns n.father

def chainOf (st : Store) (i : Nat) : List Dict := chain (i + 1) st.nodes (some i)

/-- `value_found = inst._values.get(fluent, None); if value_found is not None: return` along the chain -/
def firstFound : List Dict → FExp → Option Value
  | [], _ => none
  | d :: r, f =>
    match dget d f with
    | some v => some v
    | none => firstFound r f

/-- `UPState._condense_state` (state.py:111-130): in-place update of object `i` -/
def condense (st : Store) (i : Nat) : Store :=
  match st.nodes[i]? with
  | none => st
  | some n =>
    match n.father with
    | none => st
    | some _ =>
      let condensed := (chainOf st i).foldl mergeInto []
      let n' : Node := { n with
        values := condensed.filter (fun kv => isNondefault st.defaults kv.1 kv.2)
        ancestors := 0
        father := none }
      { st with nodes := st.nodes.set i n' }

/-- `UPState.get_value` (state.py:148-171).  `none` = raises UPStateMissingFluentError; building
    the error message formats `{self}`, i.e. calls `__repr__`, which condenses the object. -/
def getValue (st : Store) (i : Nat) (f : FExp) : Store × Option Value :=
  match firstFound (chainOf st i) f with
  | some v => (st, some v)
  | none =>
    match defaultOf st.defaults f with
    | some d => (st, some d)
    | none => (condense st i, none)

/-- the test `max_ancestors is None or self._ancestors >= max_ancestors` (state.py:187) -/
def mustFlatten (n : Node) : Bool :=
  match n.limit with
  | none => true
  | some m => decide (m ≤ n.ancestors)

/-- `UPState.make_child` (state.py:173-199): `none` = raises (no such object / UPValueError from
    the constructor); otherwise the new store and the id of the new object -/
def makeChild (st : Store) (i : Nat) (u : Dict) : Option (Store × Nat) :=
  match st.nodes[i]? with
  | none => none
  | some n =>
    if mustFlatten n then
      let complete := (chainOf st i).foldl mergeInto u
      match initNode st.defaults st.baseLimit
              (complete.filter (fun kv => isNondefault st.defaults kv.1 kv.2)) none with
      | none => none
      | some c => some ({ st with nodes := st.nodes ++ [c] }, st.nodes.length)
    else
      match initNode st.defaults st.baseLimit u (some (i, n)) with
      | none => none
      | some c => some ({ st with nodes := st.nodes ++ [c] }, st.nodes.length)

/-- `self._values` of object `i` -/
def valuesOf (st : Store) (i : Nat) : Dict :=
  match st.nodes[i]? with
  | some n => n.values
  | none => []

/-- `UPState.__repr__` (state.py:132-134) -/
def reprOp (st : Store) (i : Nat) : Store × Dict :=
  let st1 := condense st i
  (st1, valuesOf st1 i)

/-- `UPState.__hash__` (state.py:136-141); the hash value is modelled by the items it is the xor of -/
def hashOf (st : Store) (i : Nat) : Store × Dict :=
  let st1 := condense st i
  match st1.nodes[i]? with
  | none => (st1, [])
  | some n =>
    match n.hash with
    | some h => (st1, h)
    | none => ({ st1 with nodes := st1.nodes.set i { n with hash := some n.values } }, n.values)

/-- `UPState.__eq__` (state.py:143-146) between two UPState objects -/
def eqOp (st : Store) (i j : Nat) : Store × Bool :=
  let r1 := hashOf st i
  let r2 := hashOf r1.1 j
  if itemsEq r1.2 r2.2 then (r2.1, itemsEq (valuesOf r2.1 i) (valuesOf r2.1 j))
  else (r2.1, false)

/-- `hash(a) == hash(b)` -/
def hashEqOp (st : Store) (i j : Nat) : Store × Bool :=
  let r1 := hashOf st i
  let r2 := hashOf r1.1 j
  (r2.1, itemsEq r1.2 r2.2)

/-- `UPState(values, problem)` for a class whose `MAX_ANCESTORS` is `rootLimit`, in a process whose
    `UPState.MAX_ANCESTORS` is `baseLimit` -/
def mkRoot (ds : Defaults) (rootLimit baseLimit : Option Nat) (vals : Dict) : Option Store :=
  match initNode ds rootLimit vals none with
  | none => none
  | some r => some { defaults := ds, baseLimit := baseLimit, nodes := [r] }

/-- the value object `i` gives to fluent `f`, without side effect (`none` = raises) -/
def abs (st : Store) (i : Nat) (f : FExp) : Option Value :=
  match firstFound (chainOf st i) f with
  | some v => some v
  | none => defaultOf st.defaults f

/-! ### histories -/

inductive Op where
  | child (i : Nat) (u : Dict)
  | get (i : Nat) (f : FExp)
  | hash (i : Nat)
  | eq (i j : Nat)
  | hasheq (i j : Nat)
  | repr (i : Nat)
  deriving Repr

inductive Ans where
  | created (k : Nat)
  | usage
  | val (v : Value)
  | missing
  | bool (b : Bool)
  | items (d : Dict)
  | done
  deriving Repr

/-- one public call on the heap -/
def exec (st : Store) : Op → Store × Ans
  | .child i u =>
    match makeChild st i u with
    | some (st', k) => (st', .created k)
    | none => (st, .usage)
  | .get i f =>
    match getValue st i f with
    | (st', some v) => (st', .val v)
    | (st', none) => (st', .missing)
  | .hash i => ((hashOf st i).1, .done)
  | .eq i j => let r := eqOp st i j; (r.1, .bool r.2)
  | .hasheq i j => let r := hashEqOp st i j; (r.1, .bool r.2)
  | .repr i => let r := reprOp st i; (r.1, .items r.2)

def run (st : Store) (ops : List Op) : Store := ops.foldl (fun s o => (exec s o).1) st

/-! ### reference semantics: a state is a finite map (written from the property text) -/

abbrev FMap := FExp → Option Value

/-- the initial state: explicit values, else the fluent's default, else nothing -/
def FMap.root (ds : Defaults) (vals : Dict) : FMap :=
  fun f => match dget vals f with
    | some v => some v
    | none => defaultOf ds f

/-- a child state: the update wins, everything else as in the parent -/
def FMap.update (m : FMap) (u : Dict) : FMap :=
  fun f => match dget u f with
    | some v => some v
    | none => m f

/-- the finite maps of the states created so far -/
def specExec (ms : List FMap) : Op → List FMap
  | .child i u =>
    match ms[i]? with
    | some m => ms ++ [m.update u]
    | none => ms
  | _ => ms

def specRun (ms : List FMap) (ops : List Op) : List FMap := ops.foldl specExec ms

end UPVerif.State
