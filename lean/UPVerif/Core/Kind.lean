/-
Model of `unified_planning/model/problem_kind.py` (class ProblemKind) and
`problem_kind_versioning.py` (versions, upgrades, equalize_versions).

Feature sets are Python `set`s of strings; here `List String` used as a set (membership is all
that is ever observed).  The tables (`FEATURES`, `FEATURES_VERSIONS`, the upgrade functions,
`LATEST_PROBLEM_KIND_VERSION`) are NOT written here: they are regenerated from /repo on every
run into `UPVerif/Gen/Features.lean` as a value of type `Tables`.
-/
namespace UPVerif.Kind

abbrev Feature := String

/-- one `if A in v and B in v: out.update({X, Y})` of an upgrade function -/
structure Rule where
  conds : List Feature
  adds : List Feature
  deriving Repr

/-- an upgrade function: all rules read the ORIGINAL set; then a fixed set is removed -/
structure Upgrade where
  rules : List Rule
  removes : List Feature
  deriving Repr

structure Tables where
  all : List Feature
  /-- (feature, added_version, deprecated_version) ; missing = (1, none) -/
  versions : List (Feature × Nat × Option Nat)
  latest : Nat
  /-- `upgrades[i]` upgrades version `i+1` to version `i+2` -/
  upgrades : List Upgrade
  deriving Repr

structure Kind where
  feats : List Feature
  version : Option Nat
  deriving Repr

variable (T : Tables)

def verInfo (f : Feature) : Nat × Option Nat :=
  match T.versions.find? (fun e => e.1 == f) with
  | some e => e.2
  | none => (1, none)

def added (f : Feature) : Nat := (verInfo T f).1

/-- `get_valid_features(version)` as a predicate on features -/
def isValid (v : Nat) (f : Feature) : Bool :=
  T.all.contains f && (decide (added T f ≤ v)) &&
    (match (verInfo T f).2 with
     | some d => !(decide (d ≤ v))
     | none => true)

/-- the `version` property -/
def Kind.ver (k : Kind) : Nat :=
  match k.version with
  | some v => v
  | none => k.feats.foldl (fun m f => max m (added T f)) 1

/-- the constructor's assertions -/
def Kind.wf (k : Kind) : Bool :=
  k.feats.all (fun f => T.all.contains f) &&
  (match k.version with
   | some v => decide (0 < v) && k.feats.all (fun f => decide (added T f ≤ v))
   | none => true)

def subset (a b : List Feature) : Bool := a.all (fun f => b.contains f)
def seteq (a b : List Feature) : Bool := subset a b && subset b a
def setInter (a b : List Feature) : List Feature := a.filter (fun f => b.contains f)
def setUnion (a b : List Feature) : List Feature := a ++ b.filter (fun f => !a.contains f)
def setDiff (a b : List Feature) : List Feature := a.filter (fun f => !b.contains f)

def validPart (v : Nat) (a : List Feature) : List Feature := a.filter (isValid T v)

def Upgrade.apply (u : Upgrade) (fs : List Feature) : List Feature :=
  let adds := (u.rules.filter (fun r => subset r.conds fs)).flatMap (·.adds)
  setDiff (setUnion fs adds) u.removes

/-- upgrade `fs` from version `v` to version `w` step by step (`v ≤ w`); `fuel` = number of steps -/
def upgradeTo (fs : List Feature) (v : Nat) : Nat → List Feature
  | 0 => fs
  | n + 1 =>
    match T.upgrades[v - 1]? with
    | some u => upgradeTo (u.apply fs) (v + 1) n
    | none => upgradeTo fs (v + 1) n   -- Python would raise KeyError; unreachable for v < latest

/-- `equalize_versions` -/
def equalize (f1 f2 : List Feature) (v1 v2 : Nat) : List Feature × List Feature × Nat :=
  if v1 ≤ v2 then (upgradeTo T f1 v1 (v2 - v1), f2, v2)
  else (f1, upgradeTo T f2 v2 (v1 - v2), v1)

/-- `__eq__` -/
def Kind.eq (a b : Kind) : Bool :=
  if a.ver T != b.ver T then false
  else seteq (validPart T (a.ver T) a.feats) (validPart T (a.ver T) b.feats)

/-- `__le__` -/
def Kind.le (a b : Kind) : Bool :=
  let (fa, fb, v) := equalize T a.feats b.feats (a.ver T) (b.ver T)
  subset (validPart T v fa) (validPart T v fb)

/-- what `__hash__` sums over (as a set) -/
def Kind.hashKey (a : Kind) : List Feature := validPart T (a.ver T) a.feats

def Kind.union (a b : Kind) : Kind :=
  let (fa, fb, v) := equalize T a.feats b.feats (a.ver T) (b.ver T)
  { feats := setUnion fa fb, version := some v }

def Kind.inter (a b : Kind) : Kind :=
  let (fa, fb, v) := equalize T a.feats b.feats (a.ver T) (b.ver T)
  { feats := setInter fa fb, version := some v }

end UPVerif.Kind
