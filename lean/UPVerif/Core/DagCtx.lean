import UPVerif.Core.DagWalker
/-
Walkers whose ARGUMENTS INCLUDE A MUTABLE CONTEXT (wave 6, STRC14).

`Core/DagWalker.lean` models the stack-and-cache machine; its node function `Spec.fn` is a pure
function of an argument VALUE (`Arg`).  Several real walkers are not called with values but with
REFERENCES to mutable objects, and keep such references (or things derived from them) in instance
fields besides `memoization` / `stack`:

  * `ExpressionQuantifiersRemover.remove_quantifiers(expression, objects_set)`
    (expression_quantifiers_remover.py:41-58): `self._objects_set = objects_set; return self.walk(expression)`;
    the node functions read `self._objects_set.objects(t)` WHEN THEY RUN (ibid. :60-79);
  * `QuantifierSimplifier(env, problem)` / `StateEvaluator(problem)`: the problem is stored at
    construction, `self._problem.objects(t)` is read by `walk_exists` / `walk_forall` when they run
    (quantifier_simplifier.py:128,155); assignments / state are per-call fields reset in `finally`;
  * `Substituter.substitute(expression, substitutions)`: the dict is read at the call
    (substituter.py:100-127) and a new dict is handed to `walk` as a keyword argument;
  * `FluentsSubstituter(fluents, env)`: the dict given at construction is read by `walk_fluent_exp`;
  * `Simplifier(env, problem)` / `LinearChecker(problem)`: `problem.get_static_fluents()` is SNAPSHOT
    at construction and the cache is kept across calls — the class docstrings declare the behaviour
    undefined when the problem is modified afterwards (outside the property; see `keptCtx_*` below for
    why no walker that keeps its cache can read a mutable context).

What "the result depends only on that call's arguments" means for such a call is: it is a function
of the expression and of the CURRENT content of the objects passed (the value a brand-new walker
instance would compute now), not of anything the instance saw in earlier calls.  This file adds the
pieces needed to state it:

  * `Entry` — the entry method around `walk`: which fields it (re)assigns before walking (`enter`,
    may read the world), what the node functions can see during the walk (`view`: the fields, and
    the world THROUGH the fields), and the fields written by the node functions, summarised per call
    (`leave`; e.g. a lazily filled per-instance table);
  * `ctxCall` / `runOps` — one instance living through a history of world MUTATIONS and calls;
  * `pureOps` — the same history answered from (expression, current world) alone;
  * the instance for `ExpressionQuantifiersRemover` over a world of problems (`qrmSpec`, `qrmEntry`);
  * two refuted variants: the objects-per-type table kept while the SAME problem object is passed
    (`qrmCachedEntry`, the seeded change C14-2), and a walker that keeps its cache while its node
    function reads the context (`keptCtxSpec`).
-/
namespace UPVerif.Dag
open UPVerif

variable {Arg Val ε Wd F Key Mut : Type}

/-- the entry method of a walker class around `DagWalker.walk` -/
structure Entry (Wd F Key Arg : Type) where
  /-- field assignments made by the entry method before `self.walk(...)`; may read the world as it
      is now; `F` = the instance fields other than `memoization` / `stack` -/
  enter : Wd → F → Key → F
  /-- everything a node function can read while the walk runs: the fields, and the world through
      the references held in the fields.  (The world does not change during a walk.) -/
  view : Wd → F → Arg
  /-- fields as the walk leaves them (writes made by node functions, summarised for the whole call) -/
  leave : Wd → F → Expr → F

/-- one walker OBJECT: its fields and the machine's state -/
structure Inst (F Val : Type) where
  fields : F
  walker : Walker Val

/-- `instance.entry_method(expression, key)` in world `W` -/
def ctxCall (S : Spec Arg Val ε) (En : Entry Wd F Key Arg) (W : Wd) (I : Inst F Val) (k : Key) (e : Expr) :
    Except (Err ε) Val × Inst F Val :=
  let f := En.enter W I.fields k
  let r := walk S (En.view W f) I.walker e
  (r.1, { fields := En.leave W f e, walker := r.2 })

/-- operation alphabet of a history with a mutable context -/
inductive CtxOp (Mut Key : Type) where
  /-- the caller mutates the world between two calls (`problem.add_object(...)`, …) -/
  | mutate (m : Mut)
  /-- a call on the long-lived instance; `k` = which object(s) of the world are passed -/
  | call (k : Key) (e : Expr)

/-- a history on ONE instance: answers (`none` for a mutation), world and instance afterwards -/
def runOps (S : Spec Arg Val ε) (En : Entry Wd F Key Arg) (apply : Mut → Wd → Wd) :
    Wd → Inst F Val → List (CtxOp Mut Key) → List (Option (Except (Err ε) Val)) × (Wd × Inst F Val)
  | W, I, [] => ([], (W, I))
  | W, I, .mutate m :: ops =>
    let rs := runOps S En apply (apply m W) I ops
    (none :: rs.1, rs.2)
  | W, I, .call k e :: ops =>
    let r := ctxCall S En W I k e
    let rs := runOps S En apply W r.2 ops
    (some r.1 :: rs.1, rs.2)

/-- the same history answered from (expression, CURRENT world) alone: the plain structural recursion
    on what a just-constructed instance (`init` fields) would see now -/
def pureOps (S : Spec Arg Val ε) (En : Entry Wd F Key Arg) (apply : Mut → Wd → Wd) (init : F) :
    Wd → List (CtxOp Mut Key) → List (Option (Except (Err ε) Val))
  | _, [] => []
  | W, .mutate m :: ops => none :: pureOps S En apply init (apply m W) ops
  | W, .call k e :: ops =>
    some (liftPure (pureWalk S (En.view W (En.enter W init k)) e)) :: pureOps S En apply init W ops

/-- the same history with a BRAND-NEW instance for every call (the fresh-instance comparison) -/
def freshOps (S : Spec Arg Val ε) (En : Entry Wd F Key Arg) (apply : Mut → Wd → Wd) (init : F) :
    Wd → List (CtxOp Mut Key) → List (Option (Except (Err ε) Val))
  | _, [] => []
  | W, .mutate m :: ops => none :: freshOps S En apply init (apply m W) ops
  | W, .call k e :: ops =>
    some (ctxCall S En W { fields := init, walker := Walker.fresh } k e).1 :: freshOps S En apply init W ops

/-! ## `ExpressionQuantifiersRemover` (expression_quantifiers_remover.py) -/

/-- an `Object`: name and user-type name -/
abbrev Obj := String × String

/-- `objects_set.objects(UserType t)` for every `t`, as a list in insertion order -/
abbrev ObjView := String → List Obj

/-- `itertools.product(*iterables)` (the last iterable varies fastest) -/
def product {α : Type} : List (List α) → List (List α)
  | [] => [[]]
  | d :: ds => d.flatMap (fun x => (product ds).map (fun r => x :: r))

/-- `list(self._objects_set.objects(v.type))` (ibid. :66-68); `ObjectsSetMixin.objects` compares
    `obj.type.is_subtype(t)`, which is false for every non-user type -/
def qrmDomain (O : ObjView) (v : Var) : List Obj :=
  match v.ty with
  | .user t => O t
  | _ => []

/-- the body of the `for o in product(...)` loop (ibid. :75-77): `subs = dict(zip(vars, o))` (a later
    duplicate variable wins: the list is reversed so that `lookup` finds it first) and
    `args[0].substitute(subs)` — `FNode.substitute` goes to the environment's shared Substituter
    (`Substituter.substitute`: empty map → the expression; the pairs variable/object of a subtype are
    compatible), modelled by its pure function `substE` (what a CLEAN Substituter computes,
    `C14_result`; the shared one is clean between calls, `C14_env_stays_clean`) -/
def qrmInst (reject : Expr → Bool) (vs : List Var) (b' : Expr) (objs : List Obj) : Except SubErr Expr :=
  let σ : Expr.Subst :=
    ((vs.zip objs).map (fun vo => (Expr.leaf (.var vo.1), Expr.leaf (.obj vo.2.1 vo.2.2)))).reverse
  if σ.isEmpty then .ok b' else substE reject σ b'

/-- a Python `for` loop collecting results: the first exception escapes -/
def mapExcept {α β : Type} (f : α → Except ε β) : List α → Except ε (List β)
  | [] => .ok []
  | x :: xs =>
    match f x with
    | .error e => .error e
    | .ok y =>
      match mapExcept f xs with
      | .error e => .error e
      | .ok ys => .ok (y :: ys)

/-- `walk_exists` / `walk_forall` via `_help_walk_quantifiers` (ibid. :60-89); every other node kind
    is `IdentityDagWalker`'s (`rebuildE`) -/
def qrmFn (reject : Expr → Bool) (O : ObjView) (e : Expr) (args : List Expr) : Except SubErr Expr :=
  match e with
  | .quant q vs _ =>
    match args with
    | [b'] =>
      match mapExcept (qrmInst reject vs b') (product (vs.map (qrmDomain O))) with
      | .error x => .error x
      | .ok insts =>
        let n := match q with
          | .ex => Expr.mkOr insts
          | .all => Expr.mkAnd insts
        if reject n then .error (.rejected n) else .ok n
    | _ => .error (.rejected e)   -- unreachable: a quantifier has one child
  | _ => rebuildE reject e args

/-- `IdentityDagWalker.__init__(self, env, True)`: one-time cache, no keyword arguments, inherited
    `_push_with_children_to_stack` -/
def qrmSpec (reject : Expr → Bool) : Spec ObjView Expr SubErr where
  invalidate := true
  fn := qrmFn reject
  special := fun _ _ => none

/-- what a call depending only on its arguments returns: the plain recursion (children last first) -/
def qrmPure (reject : Expr → Bool) (O : ObjView) (e : Expr) : Except SubErr Expr := pureWalk (qrmSpec reject) O e

/-- the mutable world: the user-type hierarchy of the environment (fixed once a type exists) and the
    `_objects` list of every problem (insertion order) -/
structure QWorld where
  types : TypeEnv
  problems : List (List Obj)

/-- `problem.objects(t)` NOW (mixins/objects_set.py:121-134) -/
def QWorld.objects (W : QWorld) (p : Nat) : ObjView :=
  fun t => (W.problems.getD p []).filter (fun o => W.types.isSubtype o.2 t)

inductive QMut where
  /-- `problems[p].add_object(Object(name, type))` (a new name) -/
  | addObject (p : Nat) (o : Obj)

def QMut.apply : QMut → QWorld → QWorld
  | .addObject p o, W => { W with problems := W.problems.modify p (fun os => os ++ [o]) }

/-- `remove_quantifiers` (ibid. :41-58) AS FOUND: the only field is the reference `_objects_set`,
    assigned at every call; node functions read the problem through it when they run -/
def qrmEntry : Entry QWorld (Option Nat) Nat ObjView where
  enter := fun _ _ k => some k
  view := fun W f =>
    match f with
    | some p => W.objects p
    | none => fun _ => []
  leave := fun _ f _ => f

/-! ### `QuantifierSimplifier(env, problem)` / `StateEvaluator(problem)` — entry methods only

The problem is stored by the constructor (`self._problem`, quantifier_simplifier.py:43); `qsimplify` /
`evaluate` store the call's assignments / state in fields, walk, and reset them in `finally`
(quantifier_simplifier.py:62-77, state_evaluator.py:48-66); `walk_exists` / `walk_forall` read
`self._problem.objects(t)` when they run.  The node functions stay a parameter (`Spec`). -/

structure QsFields (A : Type) where
  /-- `self._problem`: a reference, never reassigned after `__init__` -/
  pb : Nat
  /-- `self._assignments` + `self._variable_assignments` (or `self._state`) of the running call -/
  cur : Option A

def qsEntry (A : Type) : Entry QWorld (QsFields A) A (ObjView × Option A) where
  enter := fun _ f a => { pb := f.pb, cur := some a }
  view := fun W f => (W.objects f.pb, f.cur)
  leave := fun _ f _ => { pb := f.pb, cur := none }

/-! ### the seeded change C14-2: objects per type kept while the SAME problem object is passed -/

structure CachedFields where
  /-- `self._objects_set` -/
  ref : Option Nat
  /-- `self._objects_of_type` -/
  cache : List (String × List Obj)

mutual
/-- the user types quantified somewhere in `e` (the types `_possible_objects` is asked for) -/
def quantTypes : Expr → List String
  | .leaf _ => []
  | .app _ as => quantTypesList as
  | .quant _ vs b => vs.filterMap (fun v => match v.ty with | .user t => some t | _ => none) ++ quantTypes b
def quantTypesList : List Expr → List String
  | [] => []
  | e :: es => quantTypes e ++ quantTypesList es
end

/-- what `_possible_objects(t)` returns during a call entered with fields `f` -/
def cachedView (W : QWorld) (f : CachedFields) : ObjView := fun t =>
  match f.cache.lookup t with
  | some l => l
  | none =>
    match f.ref with
    | some p => W.objects p t
    | none => []

/-- ```
    if objects_set is not self._objects_set:
        self._objects_set = objects_set
        self._objects_of_type = {}
    return self.walk(expression)          # _possible_objects fills the table lazily
    ``` -/
def qrmCachedEntry : Entry QWorld CachedFields Nat ObjView where
  enter := fun _ f k => if f.ref = some k then f else { ref := some k, cache := [] }
  view := cachedView
  leave := fun W f e =>
    let filled := (quantTypes e).foldl
      (fun c t => if (c.lookup t).isSome then c else c ++ [(t, cachedView W f t)]) f.cache
    { ref := f.ref, cache := filled }

/-! ### a walker that KEEPS its cache and whose node function reads the context -/

/-- the probe node function with the salt living in a mutable context (cf. `Simplifier(env, problem)`,
    whose `walk_fluent_exp` reads `problem` while the cache is kept across calls) -/
def keptCtxSpec : Spec ProbeArg Nat Expr where
  invalidate := false
  fn := probeFn
  special := fun _ _ => none

/-- world = the salt; no fields; the node function reads the world -/
def keptCtxEntry : Entry Nat Unit Unit ProbeArg where
  enter := fun _ _ _ => ()
  view := fun W _ => { salt := W, bad := [] }
  leave := fun _ f _ => f

/-! ## the environment with a long-lived quantifier remover and mutable problems -/

/-- one `Environment` (its shared walkers), the problems built in it, and ONE long-lived
    `ExpressionQuantifiersRemover` -/
structure EnvX where
  env : Env
  world : QWorld
  qrm : Inst (Option Nat) Expr

inductive OpX where
  /-- a call on a shared walker of the environment -/
  | call (c : Call)
  /-- the caller mutates a problem -/
  | mutate (m : QMut)
  /-- `qrm.remove_quantifiers(e, problems[p])` -/
  | qrm (p : Nat) (e : Expr)

def EnvX.step (reject : Expr → Bool) (X : EnvX) : OpX → Option Ans × EnvX
  | .call c =>
    let r := X.env.call reject c
    (some r.1, { X with env := r.2 })
  | .mutate m => (none, { X with world := m.apply X.world })
  | .qrm p e =>
    let r := ctxCall (qrmSpec reject) qrmEntry X.world X.qrm p e
    (some (ansOfSub r.1), { X with qrm := r.2 })

def EnvX.run (reject : Expr → Bool) : EnvX → List OpX → List (Option Ans) × EnvX
  | X, [] => ([], X)
  | X, o :: os =>
    let r := X.step reject o
    let rs := EnvX.run reject r.2 os
    (r.1 :: rs.1, rs.2)

/-- the world after an operation: only the caller's mutations change it -/
def OpX.next : OpX → QWorld → QWorld
  | .mutate m, W => m.apply W
  | _, W => W

/-- one operation answered from its arguments and the CURRENT world alone -/
def pureStepX (reject : Expr → Bool) (W : QWorld) : OpX → Option Ans
  | .call c => some (pureCall reject c)
  | .mutate _ => none
  | .qrm p e => some (ansOfSub (liftPure (qrmPure reject (W.objects p) e)))

/-- the same history answered from each call's arguments and the CURRENT world alone -/
def pureX (reject : Expr → Bool) : QWorld → List OpX → List (Option Ans)
  | _, [] => []
  | W, o :: os => pureStepX reject W o :: pureX reject (o.next W) os

end UPVerif.Dag
