import UPVerif.Core.Kind
/-
Model of the DECLARED problem kinds of the compilers (`unified_planning/engines/compilers/*.py`):
`supported_kind()`, `supports()`, `supports_compilation()`, `resulting_problem_kind()`, and of the
chaining of those declarations by `Factory._get_engine` for `compilation_kinds`
(`unified_planning/engines/factory.py:697-722`).

The bodies of `supported_kind` / `resulting_problem_kind` are tiny first-order programs over a
feature set.  They are NOT written here: `harness/translate_C09.py` re-reads them from /repo on
every run into `UPVerif/Gen/Kinds.lean` as values of type `Prog` / `Decl`.  This file is the
interpreter of those programs, i.e. the model of the `ProblemKind` methods they call
(`unified_planning/model/problem_kind.py`, `ProblemKindMeta.__new__`: `_set`, `_unset`, `_has`,
lines 173-199; `clone`, line 262).

What the translator resolves statically (and rejects with TRANSLATION-BROKEN otherwise), so that it
is not modelled here: a `set_<g>/unset_<g>/has_<x>` names a method the metaclass really creates;
the feature passed to `set_<g>/unset_<g>` is a member of `FEATURES[g]` (the first `assert` of
`_set/_unset`); `has_<x>()` is replaced by the feature list `_has` intersects with (`l + [m]` for a
group, `[f]` for a feature, later definitions overriding earlier ones as `setattr` does).
The second `assert` of `_set` (the feature must exist at the kind's declared version) depends on
the input and IS modelled (`Prog.run`).

Programs are polymorphic in the type of features: the theorems are about `Prog Feature`
(`Feature = String`, as in `Core/Kind.lean`); the finite checks that decide monotonicity are
evaluated by the kernel on the same program with features renamed to indices (`Prog Nat`,
string comparison in the kernel costs milliseconds), see `Lemmas/KindProgLemmas.lean`.
-/
namespace UPVerif.KindProg
open UPVerif.Kind

/-- which object a `has_*` test is called on: the `problem_kind` argument or the local clone -/
inductive Src | inp | cur
  deriving Repr, DecidableEq

/-- the condition of an `if` -/
inductive Cond (α : Type) where
  | has (s : Src) (feats : List α)      -- `<s>.has_<x>()`, `feats` = what `_has` intersects with
  | and (a b : Cond α)
  | or (a b : Cond α)
  | not (a : Cond α)
  deriving Repr, DecidableEq

/-- a statement list in continuation style (last argument = the statements that follow) -/
inductive Prog (α : Type) where
  | done
  | set (f : α) (k : Prog α)                  -- `K.set_<group>("f")`
  | unset (f : α) (k : Prog α)                -- `K.unset_<group>("f")`
  | ite (c : Cond α) (t e k : Prog α)         -- `if c: t else: e` ; k
  deriving Repr, DecidableEq

section generic
variable {α : Type} [BEq α]

/-- `_has`: `len(self._features.intersection(features)) > 0` -/
def hasAny (fs : List α) (s : List α) : Bool := fs.any (fun f => s.contains f)

def Cond.eval (inp cur : List α) : Cond α → Bool
  | .has .inp fs => hasAny fs inp
  | .has .cur fs => hasAny fs cur
  | .and a b => a.eval inp cur && b.eval inp cur
  | .or a b => a.eval inp cur || b.eval inp cur
  | .not a => !(a.eval inp cur)

/-- `self._features.add(f)` -/
def addF (f : α) (s : List α) : List α := if s.contains f then s else s ++ [f]
/-- `self._features.discard(f)` -/
def delF (f : α) (s : List α) : List α := s.filter (fun g => g != f)

/-- what a method body computes when no assertion fails: `cur` is the local kind's feature set,
    `inp` the feature set of the `problem_kind` argument -/
def Prog.exec (inp : List α) : Prog α → List α → List α
  | .done, cur => cur
  | .set f k, cur => k.exec inp (addF f cur)
  | .unset f k, cur => k.exec inp (delF f cur)
  | .ite c t e k, cur =>
    if c.eval inp cur then k.exec inp (t.exec inp cur) else k.exec inp (e.exec inp cur)

/-- features a body may add -/
def Prog.sets : Prog α → List α
  | .done => []
  | .set f k => f :: k.sets
  | .unset _ k => k.sets
  | .ite _ t e k => t.sets ++ e.sets ++ k.sets

/-- features a body adds or removes -/
def Prog.mentioned : Prog α → List α
  | .done => []
  | .set f k => f :: k.mentioned
  | .unset f k => f :: k.mentioned
  | .ite _ t e k => t.mentioned ++ e.mentioned ++ k.mentioned

def Cond.tests : Cond α → List α
  | .has _ fs => fs
  | .and a b => a.tests ++ b.tests
  | .or a b => a.tests ++ b.tests
  | .not a => a.tests

/-- features a body reads -/
def Prog.tests : Prog α → List α
  | .done => []
  | .set _ k => k.tests
  | .unset _ k => k.tests
  | .ite c t e k => c.tests ++ t.tests ++ e.tests ++ k.tests

/-- every feature occurring in a body -/
def Prog.feats (p : Prog α) : List α := p.mentioned ++ p.tests

/-! finite checks that decide, for ONE body, facts about ALL input feature sets
(soundness: `Lemmas/KindProgLemmas.lean`) -/

def dedup : List α → List α
  | [] => []
  | x :: xs => if (dedup xs).contains x then dedup xs else x :: dedup xs

/-- all sub-lists (as masks) -/
def masks : List α → List (List α)
  | [] => [[]]
  | x :: xs => masks xs ++ (masks xs).map (fun m => x :: m)

/-- one pass of the dependency closure: the features read by a condition that guards a change of a
    feature of `D` are added to `D` -/
def Prog.grow (D : List α) : Prog α → List α
  | .done => D
  | .set _ k => k.grow D
  | .unset _ k => k.grow D
  | .ite c t e k =>
    let D1 := if (t.mentioned ++ e.mentioned).any (fun g => D.contains g) then D ++ c.tests else D
    k.grow (e.grow (t.grow D1))

def Prog.growN (p : Prog α) : Nat → List α → List α
  | 0, D => D
  | n + 1, D => p.growN n (dedup (p.grow D))

/-- what membership of `f` in the output can depend on: `f` itself, the features read by the
    conditions that guard a change of `f`, the features read by the conditions that guard a change of
    those, … (the iteration is only a way to COMPUTE a candidate; what the soundness proofs use is
    that the result is closed, `closedB`, which the checks below verify) -/
def Prog.univ (p : Prog α) (f : α) : List α := p.growN (p.tests.length + 1) [f]

/-- `D` is closed for the body: a condition guarding a change of a feature of `D` reads only
    features of `D` -/
def Prog.closedB (D : List α) : Prog α → Bool
  | .done => true
  | .set _ k => k.closedB D
  | .unset _ k => k.closedB D
  | .ite c t e k =>
    (!(t.mentioned ++ e.mentioned).any (fun g => D.contains g) || c.tests.all (fun x => D.contains x)) &&
    t.closedB D && e.closedB D && k.closedB D

/-! a SYNTACTIC sufficient condition for monotonicity (enumeration is far too slow in the kernel
for the bodies of /repo), covering the shapes the declarations use:
`if <positive condition>: <sets, and unsets of features whose presence makes the condition true>`
and `if not <positive condition>: <unsets only>`, with no `else` branch -/

/-- built from `has` tests with `and` / `or` only -/
def Cond.positive : Cond α → Bool
  | .has _ _ => true
  | .and a b => a.positive && b.positive
  | .or a b => a.positive && b.positive
  | .not _ => false

def Prog.isDone : Prog α → Bool
  | .done => true
  | _ => false

/-- features a body may remove -/
def Prog.unsets : Prog α → List α
  | .done => []
  | .set _ k => k.unsets
  | .unset f k => f :: k.unsets
  | .ite _ t e k => t.unsets ++ e.unsets ++ k.unsets

def Prog.onlyUnsets : Prog α → Bool
  | .done => true
  | .unset _ k => k.onlyUnsets
  | _ => false

def Prog.monoB : Prog α → Bool
  | .done => true
  | .set _ k => k.monoB
  | .unset _ k => k.monoB
  | .ite c t e k =>
    k.monoB && e.isDone &&
    ((c.positive && t.monoB && t.unsets.all (fun u => c.eval [] [u])) ||
     (match c with
      | .not c' => c'.positive && t.onlyUnsets
      | _ => false))

/-- `f` is in no output for an input without the features `blockers`, checked on all `s ⊆ univ` -/
def Prog.neverCheck (p : Prog α) (f : α) (blockers : List α := []) : Bool :=
  (p.univ f).contains f && p.closedB (p.univ f) &&
  (masks (p.univ f)).all (fun s => s.any (fun x => blockers.contains x) || !(p.exec s s).contains f)

end generic

/-- renaming of features -/
def Cond.map {α β : Type} (φ : α → β) : Cond α → Cond β
  | .has s fs => .has s (fs.map φ)
  | .and a b => .and (a.map φ) (b.map φ)
  | .or a b => .or (a.map φ) (b.map φ)
  | .not a => .not (a.map φ)

def Prog.map {α β : Type} (φ : α → β) : Prog α → Prog β
  | .done => .done
  | .set f k => .set (φ f) (k.map φ)
  | .unset f k => .unset (φ f) (k.map φ)
  | .ite c t e k => .ite (c.map φ) (t.map φ) (e.map φ) (k.map φ)

/-! ### the model the driver runs (features are strings, assertions included) -/

/-- the version assertion of `_set`: `self._version is None or added_feature_version <= self._version` -/
def setOK (T : Tables) (ver : Option Nat) (f : Feature) : Bool :=
  match ver with
  | none => true
  | some v => decide (added T f ≤ v)

/-- run a method body on the local kind `cur` (its `_version` is `ver`, never changed by the
    body); `inp` is the `problem_kind` argument.  `none` = AssertionError. -/
def Prog.run (T : Tables) (ver : Option Nat) (inp : List Feature) :
    Prog Feature → List Feature → Option (List Feature)
  | .done, cur => some cur
  | .set f k, cur => if setOK T ver f then k.run T ver inp (addF f cur) else none
  | .unset f k, cur => k.run T ver inp (delF f cur)
  | .ite c t e k, cur =>
    if c.eval inp cur then (t.run T ver inp cur).bind (k.run T ver inp)
    else (e.run T ver inp cur).bind (k.run T ver inp)

/-- one compiler class -/
structure Decl where
  name : String
  /-- the `CompilationKind`s `supports_compilation` accepts -/
  cks : List String
  /-- body of `supported_kind()`, run on `ProblemKind(version=LATEST_PROBLEM_KIND_VERSION)` -/
  supported : Prog Feature
  /-- body of the `supported_kind()` that `supports()` compares against (`problem_kind <= Cls.supported_kind()`) -/
  supports : Prog Feature
  /-- what the local kind of `resulting_problem_kind` starts from: `true` = `_kind_at_latest_version(problem_kind)`
      (every class that goes through `utils.rewritten_problem_kind`), `false` = `problem_kind.clone()`;
      decided by the translator from the source (the helper's body is matched statement by statement) -/
  atLatest : Bool
  /-- body of `resulting_problem_kind(problem_kind, compilation_kind)`, run on that start -/
  resulting : Prog Feature
  /-- the features occurring in `resulting`, in order of first occurrence … -/
  names : List Feature
  /-- … and `resulting` with every feature replaced by its index in `names` (for the kernel) -/
  resultingIdx : Prog Nat
  deriving Repr

/-- `Cls.supported_kind()`; `none` = AssertionError -/
def kindOfProg (T : Tables) (p : Prog Feature) : Option Kind :=
  (p.run T (some T.latest) [] []).map (fun fs => { feats := fs, version := some T.latest })

def Decl.supportedKind (T : Tables) (d : Decl) : Option Kind := kindOfProg T d.supported

/-- `Cls.supports(problem_kind)`; `none` = AssertionError inside `supported_kind()` -/
def Decl.supportsKind (T : Tables) (d : Decl) (k : Kind) : Option Bool :=
  (kindOfProg T d.supports).map (fun s => k.le T s)

/-- `ProblemKind(features, version=v)` (problem_kind.py:217-231); `none` = one of the constructor's
    assertions fails -/
def mkKind (T : Tables) (fs : List Feature) (v : Option Nat) : Option Kind :=
  if ({ feats := fs, version := v } : Kind).wf T then some { feats := fs, version := v } else none

/-- `_kind_at_latest_version(problem_kind)` (engines/compilers/utils.py:687-704):
    ```
    if problem_kind.version >= LATEST_PROBLEM_KIND_VERSION:
        return problem_kind.clone()                       # copies the feature set, keeps `_version` (may be None)
    features, _, version = equalize_versions(problem_kind.features, set(), problem_kind.version, LATEST_PROBLEM_KIND_VERSION)
    return ProblemKind(features, version=version)
    ```
    `problem_kind.version` is the PROPERTY (`Kind.ver`: the declared version, else the highest version a
    feature needs), so a kind without declared version is upgraded as well when its features are old. -/
def kindAtLatest (T : Tables) (k : Kind) : Option Kind :=
  if T.latest ≤ k.ver T then some k
  else
    let (fs, _, v) := equalize T k.feats [] (k.ver T) T.latest
    mkKind T fs (some v)

/-- the kind the body of `resulting_problem_kind` starts from -/
def Decl.startKind (T : Tables) (d : Decl) (k : Kind) : Option Kind :=
  if d.atLatest then kindAtLatest T k else some k

/-- `Cls.resulting_problem_kind(k, ck)`: the body runs on the start kind (`clone()` copies the feature
    set and keeps `_version`; `_kind_at_latest_version` upgrades an older kind first); the tests written
    `problem_kind.has_*()` still read the GIVEN kind `k` -/
def Decl.resultingKind (T : Tables) (d : Decl) (k : Kind) : Option Kind :=
  (d.startKind T k).bind (fun k0 =>
    (d.resulting.run T k0.version k.feats k0.feats).map (fun fs => { feats := fs, version := k0.version }))

/-- assertion-free variants used by the theorems -/
def execKind (p : Prog Feature) (k : Kind) : Kind :=
  { feats := p.exec k.feats k.feats, version := k.version }
def supportedOf (T : Tables) (p : Prog Feature) : Kind :=
  { feats := p.exec [] [], version := some T.latest }

/-! ### `Factory._get_engine(COMPILER, problem_kind=…, compilation_kinds=…)` (factory.py:697-722) -/

inductive Outcome
  | ok (stages : List (String × Decl × Kind)) (final : Kind)   -- selected (registry name, class, kind it was selected for)
  | noSuitable        -- UPNoSuitableEngineAvailableException
  | assertion         -- an AssertionError inside a kind method
  deriving Repr

/-- `_get_engine_class(COMPILER, None, problem_kind, compilation_kind=ck)`: the first engine of the
    preference list with `supports_compilation(ck)` and `supports(problem_kind)` (factory.py:554-566,
    `_engine_satisfies_conditions` 497-505,532).  `pref` = the registered compilers in preference order. -/
def selectCompiler (T : Tables) (ck : String) (k : Kind) :
    List (String × Decl) → Option (Option (String × Decl))
  | [] => some none
  | (n, d) :: rest =>
    if d.cks.contains ck then
      match d.supportsKind T k with
      | none => none
      | some true => some (some (n, d))
      | some false => selectCompiler T ck k rest
    else selectCompiler T ck k rest

/-- the loop over `compilation_kinds` (factory.py:707-720) -/
def chain (T : Tables) (pref : List (String × Decl)) : Kind → List String → Outcome
  | k, [] => .ok [] k
  | k, ck :: cks =>
    match selectCompiler T ck k pref with
    | none => .assertion
    | some none => .noSuitable
    | some (some (n, d)) =>
      match d.resultingKind T k with
      | none => .assertion
      | some k' =>
        match chain T pref k' cks with
        | .ok st fin => .ok ((n, d, k) :: st) fin
        | o => o

end UPVerif.KindProg
