import UPVerif.Core.Expr
/-!
# Protobuf writer / reader, message level  (C20)

Executable mirror of `unified_planning/grpc/proto_writer.py` (the *writer*, `enc…` below) and
`unified_planning/grpc/proto_reader.py` (the *reader*, `dec…`) for the classical / numeric /
temporal core: type strings, `Real`, timepoints, timings, time and duration intervals,
expressions, effects, actions and a problem record.  The protobuf messages themselves are
mirrored as plain Lean structures (`PE` = `proto.Expression`, …); the protobuf runtime is not
modelled except for the two behaviours the code relies on: an `int64` field rejects values
outside `[-2^63, 2^63)` at construction time (the writer then raises: "writer rejects"), and
reading an unset string field gives `""`.

The code mirrored here is the REPAIRED one (notes/patches/C20-type-strings.patch):
`convert_type_str` matches builtin encodings by equality / prefix and parses infinite bounds of
integers and reals alike; `proto_type` refuses user type names inside the reserved `up:`
namespace.  (The other C20 patches — reader environment, scheduling base conditions, simulated
effects — concern code outside the modelled fragment; the oracle covers them.)

Every failure (Python exception) is `none`; nothing is defaulted.
-/
namespace UPVerif.Proto
open UPVerif

/-! ## 1. decimal numerals  (`str(int)`, `int(str)`, `str(Fraction)`, `Fraction(str)`) -/

/-- `str(n)` for a natural number -/
def natStr (n : Nat) : List Char := Nat.toDigits 10 n

/-- `str(z)` -/
def intStr : Int → List Char
  | .ofNat n => natStr n
  | .negSucc n => '-' :: natStr (n + 1)

/-- `int(s)` on a plain run of decimal digits (the only shape `str` produces) -/
def parseNat (cs : List Char) : Option Nat :=
  if cs ≠ [] ∧ cs.all Char.isDigit = true then some (Nat.ofDigitChars 10 cs 0) else none

/-- `int(s)`: optional leading `-`, then digits -/
def parseInt : List Char → Option Int
  | [] => none
  | c :: cs =>
    if c = '-' then (parseNat cs).map (fun n => - (n : Int))
    else (parseNat (c :: cs)).map (fun n => (n : Int))

/-- `str(Fraction)`: `"n"` when the denominator is 1, else `"n/d"` -/
def ratStr (r : Rat) : List Char :=
  if r.den = 1 then intStr r.num else intStr r.num ++ '/' :: natStr r.den

/-- split at the first `/` -/
def splitSlash : List Char → List Char × Option (List Char)
  | [] => ([], none)
  | c :: rest =>
    if c = '/' then ([], some rest)
    else let (a, b) := splitSlash rest; (c :: a, b)

/-- `Fraction(s)` for `s` of the shape `[-]digits[/digits]`; a zero denominator raises -/
def parseRat (cs : List Char) : Option Rat :=
  match splitSlash cs with
  | (a, none) => Option.map (fun (z : Int) => (Int.cast z : Rat)) (parseInt a)
  | (a, some b) =>
    match parseInt a, parseNat b with
    | some z, some d => if d = 0 then none else some (mkRat z d)
    | _, _ => none

/-! ## 2. type strings  (`proto_writer.proto_type`, `proto_reader.convert_type_str`) -/

def reservedPrefix : List Char := ['u', 'p', ':']
def boolS : List Char := ['u', 'p', ':', 'b', 'o', 'o', 'l']
def timeS : List Char := ['u', 'p', ':', 't', 'i', 'm', 'e']
def integerS : List Char := ['u', 'p', ':', 'i', 'n', 't', 'e', 'g', 'e', 'r']
def realS : List Char := ['u', 'p', ':', 'r', 'e', 'a', 'l']
def negInfS : List Char := ['-', 'i', 'n', 'f']
def infS : List Char := ['i', 'n', 'f']
/-- the name lies in the namespace of builtin types -/
def reserved (name : String) : Bool := reservedPrefix.isPrefixOf name.toList

def lbStrI : Option Int → List Char
  | none => negInfS
  | some z => intStr z
def ubStrI : Option Int → List Char
  | none => infS
  | some z => intStr z
def lbStrR : Option Rat → List Char
  | none => negInfS
  | some r => ratStr r
def ubStrR : Option Rat → List Char
  | none => infS
  | some r => ratStr r

def intPrefix : List Char := ['u', 'p', ':', 'i', 'n', 't', 'e', 'g', 'e', 'r', '[']
def realPrefix : List Char := ['u', 'p', ':', 'r', 'e', 'a', 'l', '[']
def sep : List Char := [',', ' ']

/-- `proto_type(tpe)` as characters; `_IntType.__repr__` / `_RealType.__repr__` (model/types.py:172, 214)
    print no bracket when both bounds are infinite.  `none` = the writer raises (reserved name). -/
def encTyChars : Ty → Option (List Char)
  | .bool => some boolS
  | .time => some timeS
  | .int none none => some integerS
  | .int lb ub => some (intPrefix ++ (lbStrI lb ++ (sep ++ (ubStrI ub ++ [']']))))
  | .real none none => some realS
  | .real lb ub => some (realPrefix ++ (lbStrR lb ++ (sep ++ (ubStrR ub ++ [']']))))
  | .user n => if reserved n then none else some n.toList

def encTy (t : Ty) : Option String := (encTyChars t).map String.ofList

/-- `str.partition(", ")`: text before and after the first `", "` -/
def partitionSep : List Char → Option (List Char × List Char)
  | [] => none
  | c :: rest =>
    if c = ',' ∧ rest.head? = some ' ' then some ([], rest.tail)
    else (partitionSep rest).map (fun p => (c :: p.1, p.2))

/-- `_parse_bounds(s, prefix)`: `s` must end in `]`; the text between prefix and `]` is split at the
    first `", "` -/
def parseBounds (pre s : List Char) : Option (List Char × List Char) :=
  let body := s.drop pre.length
  if body.getLast? = some ']' then partitionSep body.dropLast else none

/-- names of the user types the problem declares (`problem.user_type(name)` raises otherwise) -/
abbrev TypeNames := List String

/-- `convert_type_str(s, problem)` (repaired) -/
def decTyChars (types : TypeNames) (s : List Char) : Option Ty :=
  if s = boolS then some .bool
  else if s = integerS then some (.int none none)
  else if intPrefix.isPrefixOf s then
    match parseBounds intPrefix s with
    | none => none
    | some (l, u) =>
      match (if l = negInfS then some none else (parseInt l).map some),
            (if u = infS then some none else (parseInt u).map some) with
      | some lb, some ub => some (.int lb ub)
      | _, _ => none
  else if s = realS then some (.real none none)
  else if realPrefix.isPrefixOf s then
    match parseBounds realPrefix s with
    | none => none
    | some (l, u) =>
      match (if l = negInfS then some none else (parseRat l).map some),
            (if u = infS then some none else (parseRat u).map some) with
      | some lb, some ub => some (.real lb ub)
      | _, _ => none
  else if reservedPrefix.isPrefixOf s then none          -- assert not s.startswith("up:")
  else if types.contains (String.ofList s) then some (.user (String.ofList s)) else none

def decTy (types : TypeNames) (s : String) : Option Ty := decTyChars types s.toList

/-! ## 3. `Real`, timepoints, timings, intervals -/

def inI64 (z : Int) : Bool := decide (-9223372036854775808 ≤ z) && decide (z ≤ 9223372036854775807)

/-- `proto.Real` -/
structure RealMsg where
  num : Int
  den : Int
  deriving DecidableEq, Repr, Inhabited

/-- `ProtobufWriter._convert_fraction` / `real_expression`: both fields are `int64` -/
def encReal (r : Rat) : Option RealMsg :=
  if inI64 r.num && inI64 r.den then some { num := r.num, den := r.den } else none

/-- `ProtobufReader._convert_real`: `Fraction(numerator, denominator)` -/
def decReal (m : RealMsg) : Option Rat :=
  if m.den = 0 then none else some (Rat.divInt m.num m.den)

inductive TPKind where
  | globalStart | globalEnd | start | end_
  deriving DecidableEq, Repr, Inhabited

/-- `model.timing.Timepoint` -/
structure Timepoint where
  kind : TPKind
  container : Option String
  deriving DecidableEq, Repr, Inhabited

/-- `proto.Timepoint`: `container_id` is a plain string field (`None` is written as unset = `""`) -/
structure TimepointMsg where
  kind : TPKind
  containerId : String
  deriving DecidableEq, Repr, Inhabited

/-- `ProtobufWriter._convert_timepoint` -/
def encTimepoint (tp : Timepoint) : TimepointMsg :=
  { kind := tp.kind, containerId := tp.container.getD "" }

/-- `ProtobufReader._convert_timepoint` -/
def decTimepoint (m : TimepointMsg) : Timepoint :=
  { kind := m.kind, container := if m.containerId = "" then none else some m.containerId }

/-- `model.timing.Timing`; the delay is kept normalised by `uniform_numeric_constant`
    (an `int` exactly when integral), so it is a rational number -/
structure Timing where
  delay : Rat
  tp : Timepoint
  deriving DecidableEq, Repr, Inhabited

/-- `proto.Timing` -/
structure TimingMsg where
  timepoint : TimepointMsg
  delay : Option RealMsg
  deriving DecidableEq, Repr, Inhabited

/-- `ProtobufWriter._convert_timing` -/
def encTiming (t : Timing) : Option TimingMsg :=
  (encReal t.delay).map (fun d => { timepoint := encTimepoint t.tp, delay := some d })

/-- `ProtobufReader._convert_timing` -/
def decTiming (m : TimingMsg) : Option Timing :=
  match m.delay with
  | none => some { delay := 0, tp := decTimepoint m.timepoint }
  | some d => (decReal d).map (fun q => { delay := q, tp := decTimepoint m.timepoint })

/-- `model.timing.TimeInterval` -/
structure TimeInterval where
  lower : Timing
  upper : Timing
  lopen : Bool
  ropen : Bool
  deriving DecidableEq, Repr, Inhabited

/-- `proto.TimeInterval` -/
structure TimeIntervalMsg where
  lopen : Bool
  lower : TimingMsg
  ropen : Bool
  upper : TimingMsg
  deriving DecidableEq, Repr, Inhabited

/-- `ProtobufWriter._convert_time_interval` -/
def encTimeInterval (i : TimeInterval) : Option TimeIntervalMsg :=
  match encTiming i.lower, encTiming i.upper with
  | some l, some u => some { lopen := i.lopen, lower := l, ropen := i.ropen, upper := u }
  | _, _ => none

/-- `ProtobufReader._convert_timed_interval` -/
def decTimeInterval (m : TimeIntervalMsg) : Option TimeInterval :=
  match decTiming m.lower, decTiming m.upper with
  | some l, some u => some { lower := l, upper := u, lopen := m.lopen, ropen := m.ropen }
  | _, _ => none

/-! ## 4. expressions -/

/-- operators `map_operator` / `op_to_node_type` know -/
inductive OpK where
  | plus | minus | times | div | le | lt | equals | and | or | not | implies | iff
  | always | atMostOnce | sometime | sometimeAfter | sometimeBefore
  deriving DecidableEq, Repr, Inhabited

inductive QK where
  | ex | all
  deriving DecidableEq, Repr, Inhabited

/-- expressions the writer has a `walk_*` for (interpreted functions and `Dot` raise
    `NotImplementedError` in the walker: the writer rejects them) -/
inductive UExpr where
  | boolC (b : Bool)
  | intC (z : Int)
  | realC (r : Rat)
  | obj (name : String) (ty : String)
  | param (name : String) (ty : Ty)
  | var (v : Var)
  | timing (t : Timing)
  | present (container : String)
  | fluent (f : FluentRef) (args : List UExpr)
  | op (o : OpK) (args : List UExpr)
  | quant (q : QK) (vs : List Var) (body : UExpr)
  deriving Repr, Inhabited

namespace UExpr
mutual
def beq : UExpr → UExpr → Bool
  | .boolC a, .boolC b => a == b
  | .intC a, .intC b => a == b
  | .realC a, .realC b => a == b
  | .obj a s, .obj b t => a == b && s == t
  | .param a s, .param b t => a == b && s == t
  | .var a, .var b => a == b
  | .timing a, .timing b => a == b
  | .present a, .present b => a == b
  | .fluent f as, .fluent g bs => f == g && beqList as bs
  | .op o as, .op p bs => o == p && beqList as bs
  | .quant q vs a, .quant r ws b => q == r && vs == ws && beq a b
  | _, _ => false
def beqList : List UExpr → List UExpr → Bool
  | [], [] => true
  | a :: as, b :: bs => beq a b && beqList as bs
  | _, _ => false
end
end UExpr

/-- `proto.ExpressionKind` -/
inductive EK where
  | unknown | constant | parameter | variable | fluentSymbol | functionSymbol | stateVariable
  | functionApplication | containerId
  deriving DecidableEq, Repr, Inhabited

/-- `proto.Atom` (`oneof content`) -/
inductive Atom where
  | unset
  | symbol (s : String)
  | int (z : Int)
  | real (r : RealMsg)
  | boolean (b : Bool)
  deriving DecidableEq, Repr, Inhabited

/-- `proto.Expression` -/
inductive PE where
  | mk (atom : Atom) (list : List PE) (type : String) (kind : EK)
  deriving Repr, Inhabited

namespace PE
def atom : PE → Atom | .mk a _ _ _ => a
def list : PE → List PE | .mk _ l _ _ => l
def type : PE → String | .mk _ _ t _ => t
def kind : PE → EK | .mk _ _ _ k => k
end PE

/-- reading `atom.symbol` of an atom holding something else gives the proto3 default `""` -/
def Atom.symbolD : Atom → String
  | .symbol s => s
  | _ => ""

/-- `map_operator` (proto_writer.py:43) -/
def opName : OpK → String
  | .plus => "up:plus" | .minus => "up:minus" | .times => "up:times" | .div => "up:div"
  | .le => "up:le" | .lt => "up:lt" | .equals => "up:equals" | .and => "up:and" | .or => "up:or"
  | .not => "up:not" | .implies => "up:implies" | .iff => "up:iff" | .always => "up:always"
  | .atMostOnce => "up:at_most_once" | .sometime => "up:sometime"
  | .sometimeAfter => "up:sometime_after" | .sometimeBefore => "up:sometime_before"
def quantName : QK → String
  | .ex => "up:exists" | .all => "up:forall"

/-- result of `op_to_node_type` (proto_reader.py:67) -/
inductive NodeType where
  | op (o : OpK) | quant (q : QK) | present
  deriving DecidableEq, Repr

def opOfName (s : String) : Option NodeType :=
  if s = "up:plus" then some (.op .plus) else if s = "up:minus" then some (.op .minus)
  else if s = "up:times" then some (.op .times) else if s = "up:div" then some (.op .div)
  else if s = "up:equals" then some (.op .equals) else if s = "up:le" then some (.op .le)
  else if s = "up:lt" then some (.op .lt) else if s = "up:and" then some (.op .and)
  else if s = "up:or" then some (.op .or) else if s = "up:not" then some (.op .not)
  else if s = "up:exists" then some (.quant .ex) else if s = "up:forall" then some (.quant .all)
  else if s = "up:implies" then some (.op .implies) else if s = "up:iff" then some (.op .iff)
  else if s = "up:always" then some (.op .always)
  else if s = "up:at_most_once" then some (.op .atMostOnce)
  else if s = "up:sometime" then some (.op .sometime)
  else if s = "up:sometime_after" then some (.op .sometimeAfter)
  else if s = "up:sometime_before" then some (.op .sometimeBefore)
  else if s = "up:present" then some .present
  else none

def tpFn : TPKind → String
  | .globalStart => "up:global_start" | .globalEnd => "up:global_end"
  | .start => "up:start" | .end_ => "up:end"
def tpOfFn (s : String) : Option TPKind :=
  if s = "up:start" then some .start else if s = "up:end" then some .end_
  else if s = "up:global_start" then some .globalStart
  else if s = "up:global_end" then some .globalEnd else none

def fnSym (s : String) : PE := .mk (.symbol s) [] "" .functionSymbol

/-- `int_expression` -/
def encInt (z : Int) : Option PE :=
  if inI64 z then some (.mk (.int z) [] "up:integer" .constant) else none
/-- `real_expression` -/
def encRealE (r : Rat) : Option PE :=
  (encReal r).map (fun m => .mk (.real m) [] "up:real" .constant)
/-- `num_expression` on a normalised delay: an `int` exactly when the denominator is 1 -/
def encNum (r : Rat) : Option PE :=
  if r.den = 1 then encInt r.num else encRealE r

/-- `_convert_expression_variable` / `walk_variable_exp` -/
def encVar (v : Var) : Option PE :=
  (encTy v.ty).map (fun t => .mk (.symbol v.name) [] t .variable)

def encVars : List Var → Option (List PE)
  | [] => some []
  | v :: vs =>
    match encVar v, encVars vs with
    | some a, some as => some (a :: as)
    | _, _ => none

/-- `FNode2Protobuf.walk_timing_exp` (proto_writer.py:207) -/
def encTimingExp (t : Timing) : Option PE :=
  let args : List PE := match t.tp.container with
    | some c => [.mk (.symbol c) [] "up:container" .containerId]
    | none => []
  let tpExp : PE := .mk .unset (fnSym (tpFn t.tp.kind) :: args) "up:time" .functionApplication
  if t.delay = 0 then some tpExp
  else (encNum t.delay).map (fun d => .mk .unset [fnSym "up:plus", tpExp, d] "up:time" .functionApplication)

mutual
/-- `FNode2Protobuf.walk_*` (proto_writer.py:128-306) -/
def encExpr : UExpr → Option PE
  | .boolC b => some (.mk (.boolean b) [] "up:bool" .constant)
  | .intC z => encInt z
  | .realC r => encRealE r
  | .obj n t => (encTy (.user t)).map (fun ts => .mk (.symbol n) [] ts .constant)
  | .param n t => (encTy t).map (fun ts => .mk (.symbol n) [] ts .parameter)
  | .var v => encVar v
  | .timing t => encTimingExp t
  | .present c =>
    some (.mk .unset [fnSym "up:present", .mk (.symbol c) [] "up:container" .containerId] "up:bool"
            .functionApplication)
  | .fluent f args =>
    match encTy f.ty, encExprs args with
    | some ts, some as =>
      some (.mk .unset (.mk (.symbol f.name) [] ts .fluentSymbol :: as) ts .stateVariable)
    | _, _ => none
  | .op o args =>
    match encExprs args with
    | some as => some (.mk .unset (.mk (.symbol (opName o)) [] "up:operator" .functionSymbol :: as) ""
                        .functionApplication)
    | none => none
  | .quant q vs body =>
    match encVars vs, encExpr body with
    | some ws, some b =>
      some (.mk .unset (.mk (.symbol (quantName q)) [] "up:operator" .functionSymbol :: (ws ++ [b])) ""
              .functionApplication)
    | _, _ => none
def encExprs : List UExpr → Option (List PE)
  | [] => some []
  | e :: es =>
    match encExpr e, encExprs es with
    | some a, some as => some (a :: as)
    | _, _ => none
end

/-- what the reader looks up in the problem being rebuilt -/
structure Ctx where
  types : TypeNames
  objects : List (String × String)      -- `problem.object(name).type.name`
  fluents : List FluentRef               -- `problem.fluent(name)`
  deriving Repr, Inhabited

def Ctx.object? (c : Ctx) (n : String) : Option String := c.objects.lookup n
def Ctx.fluent? (c : Ctx) (n : String) : Option FluentRef := c.fluents.find? (fun f => f.name == n)

/-- result of `_convert_atom`: an expression, or (for a symbol that is not an object) the
    `Fluent` object itself -/
inductive AtomVal where
  | expr (e : UExpr)
  | fluent (f : FluentRef)

/-- `ProtobufReader._convert_atom` (proto_reader.py:261) -/
def decAtom (c : Ctx) : Atom → Option AtomVal
  | .unset => none
  | .int z => some (.expr (.intC z))
  | .real m => (decReal m).map (fun q => .expr (.realC q))
  | .boolean b => some (.expr (.boolC b))
  | .symbol s =>
    match c.object? s with
    | some t => some (.expr (.obj s t))
    | none => (c.fluent? s).map .fluent

/-- the `up:time` branch of `_convert_expression` (proto_reader.py:219-257), on an already
    destructured message -/
def decTimingExp (l : List PE) : Option Timing :=
  let core : Option (Rat × List PE) :=
    match l with
    | [h, tp, d] =>
      if h.atom.symbolD = "up:plus" then
        if d.type = "up:integer" then
          some ((match d.atom with | .int z => (z : Rat) | _ => 0), tp.list)
        else if d.type = "up:real" then
          (decReal (match d.atom with | .real m => m | _ => { num := 0, den := 0 })).map (fun q => (q, tp.list))
        else none
      else none
    | _ => some (0, l)
  match core with
  | none => none
  | some (dl, tpe) =>
    match tpe with
    | [] => none
    | fn :: rest =>
      match tpOfFn fn.atom.symbolD with
      | none => none
      | some k =>
        some { delay := dl,
               tp := { kind := k, container := match rest with | [] => none | c :: _ => some c.atom.symbolD } }

/-- `[self.convert(var, problem).variable() for var in variables]` -/
def decVarList : List UExpr → Option (List Var)
  | [] => some []
  | .var v :: es => (decVarList es).map (v :: ·)
  | _ :: _ => none

mutual
/-- `ProtobufReader._convert_expression` (proto_reader.py:140) -/
def decExpr (c : Ctx) : PE → Option UExpr
  | .mk atom list type kind =>
    match kind with
    | .constant =>
      match decAtom c atom with
      | some (.expr e) => some e
      | _ => none
    | .parameter => (decTy c.types type).map (fun t => .param atom.symbolD t)
    | .variable => (decTy c.types type).map (fun t => .var { name := atom.symbolD, ty := t })
    | .stateVariable =>
      match list with
      | [] => none
      | .mk fa _ _ fk :: rest =>
        if fk = .fluentSymbol then
          match decAtom c fa, decExprs c rest with
          | some (.fluent f), some args =>
            if args.length = f.sig.length then some (.fluent f args) else none
          | _, _ => none
        else none
    | .functionApplication =>
      match list with
      | [] => none
      | .mk ha hl ht hk :: rest =>
        if ha.symbolD = "up:present" then
          match rest with
          | [] => none
          | cont :: _ => some (.present cont.atom.symbolD)
        else if type ≠ "up:time" then
          if hk = .functionSymbol then
            match opOfName ha.symbolD with
            | some (.op o) => (decExprs c rest).map (fun args => .op o args)
            | some (.quant q) =>
              match rest.getLast?, decExprs c rest with
              | some _, some all =>
                match decVarList all.dropLast, all.getLast? with
                | some vs, some body => some (.quant q vs body)
                | _, _ => none
              | _, _ => none
            | _ => none
          else none
        else (decTimingExp (.mk ha hl ht hk :: rest)).map .timing
    | _ => none
def decExprs (c : Ctx) : List PE → Option (List UExpr)
  | [] => some []
  | m :: ms =>
    match decExpr c m, decExprs c ms with
    | some a, some as => some (a :: as)
    | _, _ => none
end
/-! ## 5. effects, conditions, durations, actions -/

inductive EffKind where
  | assign | increase | decrease
  deriving DecidableEq, Repr, Inhabited

/-- `model.Effect` (assign / increase / decrease; continuous effects make the writer raise) -/
structure Effect where
  kind : EffKind
  fluent : UExpr
  value : UExpr
  cond : UExpr
  forall_ : List Var
  deriving Repr, Inhabited

/-- `proto.EffectExpression` -/
structure EffectMsg where
  kind : EffKind
  fluent : PE
  value : PE
  cond : PE
  forall_ : List PE
  deriving Repr, Inhabited

/-- `ProtobufWriter._convert_effect` (proto_writer.py:368) -/
def encEffect (e : Effect) : Option EffectMsg :=
  match encExpr e.fluent, encExpr e.value, encExpr e.cond, encVars e.forall_ with
  | some f, some v, some c, some vs => some { kind := e.kind, fluent := f, value := v, cond := c, forall_ := vs }
  | _, _, _, _ => none

def UExpr.isFluent : UExpr → Bool
  | .fluent _ _ => true
  | _ => false

/-- `ProtobufReader._convert_effect` (proto_reader.py:640); `Effect.__init__` needs a fluent
    expression as target -/
def decEffect (c : Ctx) (m : EffectMsg) : Option Effect :=
  match decExpr c m.fluent, decExpr c m.value, decExpr c m.cond, decExprs c m.forall_ with
  | some f, some v, some cd, some vs =>
    match decVarList vs with
    | some ws => if f.isFluent then some { kind := m.kind, fluent := f, value := v, cond := cd, forall_ := ws } else none
    | none => none
  | _, _, _, _ => none

/-- `model.timing.DurationInterval` -/
structure DurInterval where
  lower : UExpr
  upper : UExpr
  lopen : Bool
  ropen : Bool
  deriving Repr, Inhabited

/-- `proto.Duration` (its `controllable_in_bounds` interval) -/
structure DurationMsg where
  lopen : Bool
  lower : PE
  ropen : Bool
  upper : PE
  deriving Repr, Inhabited

/-- `ProtobufWriter._convert_duration_interval` -/
def encDuration (d : DurInterval) : Option DurationMsg :=
  match encExpr d.lower, encExpr d.upper with
  | some l, some u => some { lopen := d.lopen, lower := l, ropen := d.ropen, upper := u }
  | _, _ => none

/-- `ProtobufReader._convert_duration` -/
def decDuration (c : Ctx) (m : DurationMsg) : Option DurInterval :=
  match decExpr c m.lower, decExpr c m.upper with
  | some l, some u => some { lower := l, upper := u, lopen := m.lopen, ropen := m.ropen }
  | _, _ => none

structure Param where
  name : String
  ty : Ty
  deriving DecidableEq, Repr, Inhabited

/-- `model.InstantaneousAction` / `model.DurativeAction`; the two dictionaries of a durative
    action are association lists in insertion order -/
inductive Action where
  | inst (name : String) (params : List Param) (pre : List UExpr) (effs : List Effect)
  | dur (name : String) (params : List Param) (duration : DurInterval)
        (conds : List (TimeInterval × List UExpr)) (effs : List (Timing × List Effect))
  deriving Repr, Inhabited

structure CondMsg where
  cond : PE
  span : Option TimeIntervalMsg
  deriving Repr, Inhabited

structure EffMsg where
  effect : EffectMsg
  time : Option TimingMsg
  deriving Repr, Inhabited

/-- `proto.Action` -/
structure ActionMsg where
  name : String
  params : List (String × String)
  duration : Option DurationMsg
  conds : List CondMsg
  effs : List EffMsg
  deriving Repr, Inhabited

def optAll {α : Type} : List (Option α) → Option (List α)
  | [] => some []
  | none :: _ => none
  | some a :: rest => (optAll rest).map (a :: ·)

/-- `_convert_action_parameter` -/
def encParam (p : Param) : Option (String × String) := (encTy p.ty).map (fun t => (p.name, t))

/-- one `(span, [conditions])` item of `_convert_timed_conditions` -/
def encCondGroup (p : TimeInterval × List UExpr) : Option (List CondMsg) :=
  match encTimeInterval p.1 with
  | none => none
  | some sp => optAll (p.2.map (fun e => (encExpr e).map (fun m => ({ cond := m, span := some sp } : CondMsg))))

/-- `ProtobufWriter._convert_timed_conditions` -/
def encTimedConds (cs : List (TimeInterval × List UExpr)) : Option (List CondMsg) :=
  (optAll (cs.map encCondGroup)).map List.flatten

/-- one `(timing, [effects])` item of `_convert_timed_effects` -/
def encEffGroup (p : Timing × List Effect) : Option (List EffMsg) :=
  match encTiming p.1 with
  | none => none
  | some t => optAll (p.2.map (fun e => (encEffect e).map (fun m => ({ effect := m, time := some t } : EffMsg))))

/-- `ProtobufWriter._convert_timed_effects` -/
def encTimedEffs (es : List (Timing × List Effect)) : Option (List EffMsg) :=
  (optAll (es.map encEffGroup)).map List.flatten

/-- `ProtobufWriter._convert_instantaneous_action` / `_convert_durative_action` -/
def encAction : Action → Option ActionMsg
  | .inst name params pre effs =>
    match optAll (params.map encParam), optAll (pre.map encExpr), optAll (effs.map encEffect) with
    | some ps, some cs, some es =>
      some { name := name, params := ps, duration := none,
             conds := cs.map (fun m => { cond := m, span := none }),
             effs := es.map (fun m => { effect := m, time := none }) }
    | _, _, _ => none
  | .dur name params d conds effs =>
    match optAll (params.map encParam), encDuration d, encTimedConds conds, encTimedEffs effs with
    | some ps, some dm, some cs, some es =>
      some { name := name, params := ps, duration := some dm, conds := cs, effs := es }
    | _, _, _, _ => none

/-- `dict.setdefault(k, []).append(v)` on an insertion-ordered association list; with `dedup`
    the value is appended only when absent (`if v not in l: l.append(v)`) -/
def addKV {κ α : Type} [BEq κ] [BEq α] (dedup : Bool) (k : κ) (v : α) :
    List (κ × List α) → List (κ × List α)
  | [] => [(k, [v])]
  | (k', vs) :: rest =>
    if k' == k then (k', if dedup && vs.contains v then vs else vs ++ [v]) :: rest
    else (k', vs) :: addKV dedup k v rest

instance : BEq UExpr := ⟨UExpr.beq⟩

/-- `add_precondition` (model/transition.py:170): `TRUE` and duplicates are not stored -/
def addPre (acc : List UExpr) (e : UExpr) : List UExpr :=
  if e == .boolC true then acc else if acc.contains e then acc else acc ++ [e]

def Effect.beq (a b : Effect) : Bool :=
  a.kind == b.kind && a.fluent == b.fluent && a.value == b.value && a.cond == b.cond && a.forall_ == b.forall_
instance : BEq Effect := ⟨Effect.beq⟩

/-! ### structural equality of expressions is lawful -/

mutual
theorem UExpr.eq_of_beq : ∀ (a b : UExpr), UExpr.beq a b = true → a = b
  | .boolC x, b, h => by cases b <;> simp [UExpr.beq] at h; rw [h]
  | .intC x, b, h => by cases b <;> simp [UExpr.beq] at h; rw [h]
  | .realC x, b, h => by cases b <;> simp [UExpr.beq] at h; rw [h]
  | .obj n t, b, h => by cases b <;> simp [UExpr.beq] at h; rw [h.1, h.2]
  | .param n t, b, h => by cases b <;> simp [UExpr.beq] at h; rw [h.1, h.2]
  | .var v, b, h => by cases b <;> simp [UExpr.beq] at h; rw [h]
  | .timing t, b, h => by cases b <;> simp [UExpr.beq] at h; rw [h]
  | .present s, b, h => by cases b <;> simp [UExpr.beq] at h; rw [h]
  | .fluent f as, b, h => by
    cases b with
    | fluent g bs =>
      simp only [UExpr.beq, Bool.and_eq_true, beq_iff_eq] at h
      rw [h.1, UExpr.eq_of_beqList as bs h.2]
    | _ => simp [UExpr.beq] at h
  | .op o as, b, h => by
    cases b with
    | op p bs =>
      simp only [UExpr.beq, Bool.and_eq_true, beq_iff_eq] at h
      rw [h.1, UExpr.eq_of_beqList as bs h.2]
    | _ => simp [UExpr.beq] at h
  | .quant q vs a, b, h => by
    cases b with
    | quant r ws b =>
      simp only [UExpr.beq, Bool.and_eq_true, beq_iff_eq] at h
      rw [h.1.1, h.1.2, UExpr.eq_of_beq a b h.2]
    | _ => simp [UExpr.beq] at h
theorem UExpr.eq_of_beqList : ∀ (as bs : List UExpr), UExpr.beqList as bs = true → as = bs
  | [], bs, h => by cases bs <;> simp [UExpr.beqList] at h; rfl
  | a :: as, bs, h => by
    cases bs with
    | nil => simp [UExpr.beqList] at h
    | cons b bs =>
      simp only [UExpr.beqList, Bool.and_eq_true] at h
      rw [UExpr.eq_of_beq a b h.1, UExpr.eq_of_beqList as bs h.2]
end

mutual
theorem UExpr.beq_refl : ∀ (a : UExpr), UExpr.beq a a = true
  | .boolC _ => by simp [UExpr.beq]
  | .intC _ => by simp [UExpr.beq]
  | .realC _ => by simp [UExpr.beq]
  | .obj _ _ => by simp [UExpr.beq]
  | .param _ _ => by simp [UExpr.beq]
  | .var _ => by simp [UExpr.beq]
  | .timing _ => by simp [UExpr.beq]
  | .present _ => by simp [UExpr.beq]
  | .fluent _ as => by simp [UExpr.beq, UExpr.beqList_refl as]
  | .op _ as => by simp [UExpr.beq, UExpr.beqList_refl as]
  | .quant _ _ a => by simp [UExpr.beq, UExpr.beq_refl a]
theorem UExpr.beqList_refl : ∀ (as : List UExpr), UExpr.beqList as as = true
  | [] => rfl
  | a :: as => by simp [UExpr.beqList, UExpr.beq_refl a, UExpr.beqList_refl as]
end

instance : LawfulBEq UExpr where
  eq_of_beq {a b} h := UExpr.eq_of_beq a b h
  rfl {a} := UExpr.beq_refl a

instance : DecidableEq UExpr := fun a b =>
  if h : UExpr.beq a b = true then isTrue (UExpr.eq_of_beq a b h)
  else isFalse (fun e => h (e ▸ UExpr.beq_refl a))

theorem Effect.eq_of_beq (a b : Effect) (h : Effect.beq a b = true) : a = b := by
  cases a; cases b
  simp only [Effect.beq, Bool.and_eq_true, beq_iff_eq] at h
  obtain ⟨⟨⟨⟨h1, h2⟩, h3⟩, h4⟩, h5⟩ := h
  subst h1; subst h2; subst h3; subst h4; subst h5; rfl

instance : LawfulBEq Effect where
  eq_of_beq {a b} h := Effect.eq_of_beq a b h
  rfl {a} := by
    cases a
    show Effect.beq _ _ = true
    simp [Effect.beq]


/-- parameters are collected in an `OrderedDict` keyed by name: a repeated name keeps its first
    position and takes the last type -/
def addParam (acc : List Param) (p : Param) : List Param :=
  if acc.any (fun q => q.name == p.name) then acc.map (fun q => if q.name == p.name then p else q)
  else acc ++ [p]

def decParam (c : Ctx) (p : String × String) : Option Param :=
  (decTy c.types p.2).map (fun t => ({ name := p.1, ty := t } : Param))

/-- `(cond, span)` of the first loop of `_convert_action` -/
def decCond (c : Ctx) (cm : CondMsg) : Option (UExpr × Option TimeInterval) :=
  match decExpr c cm.cond, (match cm.span with
                             | none => some none
                             | some sp => (decTimeInterval sp).map some) with
  | some e, some sp => some (e, sp)
  | _, _ => none

/-- `(eff, time)` of the second loop of `_convert_action` -/
def decEff (c : Ctx) (em : EffMsg) : Option (Effect × Option Timing) :=
  match decEffect c em.effect, (match em.time with
                                | none => some none
                                | some t => (decTiming t).map some) with
  | some e, some t => some (e, t)
  | _, _ => none

/-- `add_condition(None, c)` / `add_effect(None, …)` raise on a durative action -/
def needKey {κ α : Type} (p : α × Option κ) : Option (κ × α) := p.2.map (fun k => (k, p.1))

/-- `ProtobufReader._convert_action` (proto_reader.py:583) -/
def decAction (c : Ctx) (m : ActionMsg) : Option Action :=
  match optAll (m.params.map (decParam c)) with
  | none => none
  | some ps0 =>
    let ps := ps0.foldl addParam []
    match (match m.duration with
           | none => some none
           | some dm => (decDuration c dm).map some) with
    | none => none
    | some dur =>
      match optAll (m.conds.map (decCond c)), optAll (m.effs.map (decEff c)) with
      | some conds, some effs =>
        match dur with
        | none =>
          some (.inst m.name ps ((conds.map (·.1)).foldl addPre []) (effs.map (·.1)))
        | some d =>
          match optAll (conds.map needKey), optAll (effs.map needKey) with
          | some cs, some es =>
            some (.dur m.name ps d (cs.foldl (fun acc p => addKV true p.1 p.2 acc) [])
                    (es.foldl (fun acc p => addKV false p.1 p.2 acc) []))
          | _, _ => none
      | _, _ => none

/-! ## 6. problem record -/

/-- the part of `model.Problem` mirrored here (metrics, trajectory constraints and the
    hierarchical / scheduling extensions are outside the model) -/
structure Problem where
  name : Option String
  types : List (String × Option String)            -- user types, fathers first
  objects : List (String × String)
  fluents : List (FluentRef × Option UExpr)         -- with `fluents_defaults`
  actions : List Action
  init : List (UExpr × UExpr)                       -- `explicit_initial_values`
  timedEffects : List (Timing × List Effect)
  goals : List UExpr
  timedGoals : List (TimeInterval × List UExpr)
  epsilon : Option Rat
  discreteTime : Bool
  selfOverlapping : Bool
  deriving Repr, Inhabited

structure FluentMsg where
  name : String
  valueType : String
  params : List (String × String)
  default : Option PE
  deriving Repr, Inhabited

structure GoalMsg where
  goal : PE
  timing : Option TimeIntervalMsg
  deriving Repr, Inhabited

/-- `proto.Problem` (fields mirrored) -/
structure ProblemMsg where
  problemName : String
  types : List (String × String)                    -- `TypeDeclaration(type_name, parent_type)`
  fluents : List FluentMsg
  objects : List (String × String)                  -- `ObjectDeclaration(name, type)`
  actions : List ActionMsg
  init : List (PE × PE)
  timedEffects : List (EffectMsg × TimingMsg)
  goals : List GoalMsg
  epsilon : Option RealMsg
  discreteTime : Bool
  selfOverlapping : Bool
  deriving Repr, Inhabited

/-- `_convert_user_type` -/
def encTypeDecl (t : String × Option String) : Option (String × String) :=
  match encTy (.user t.1), (match t.2 with
                            | none => some ""
                            | some f => encTy (.user f)) with
  | some n, some f => some (n, f)
  | _, _ => none

/-- `_convert_fluent`: signature parameters are written by `_convert_action_parameter` -/
def encFluent (f : FluentRef × Option UExpr) (sigNames : List String) : Option FluentMsg :=
  match encTy f.1.ty,
        optAll ((sigNames.zip f.1.sig).map (fun p => (encTy p.2).map (fun t => (p.1, t)))),
        (match f.2 with
         | none => some none
         | some d => (encExpr d).map some) with
  | some vt, some ps, some d => some { name := f.1.name, valueType := vt, params := ps, default := d }
  | _, _, _ => none

/-- names of a fluent's signature parameters do not take part in fluent identity in this model;
    the harness always uses `a0, a1, …` -/
def sigNames (n : Nat) : List String := (List.range n).map (fun i => "a" ++ toString i)

def encObject (o : String × String) : Option (String × String) :=
  (encTy (.user o.2)).map (fun t => (o.1, t))

def encInit (a : UExpr × UExpr) : Option (PE × PE) :=
  match encExpr a.1, encExpr a.2 with
  | some x, some v => some (x, v)
  | _, _ => none

/-- one `(timing, [effects])` item of `problem.timed_effects` -/
def encTimedEffGroup (te : Timing × List Effect) : Option (List (EffectMsg × TimingMsg)) :=
  match encTiming te.1 with
  | none => none
  | some t => optAll (te.2.map (fun e => (encEffect e).map (fun m => (m, t))))

def encGoal (g : UExpr) : Option GoalMsg :=
  (encExpr g).map (fun m => ({ goal := m, timing := none } : GoalMsg))

/-- one `(interval, [goals])` item of `problem.timed_goals` -/
def encTimedGoalGroup (tg : TimeInterval × List UExpr) : Option (List GoalMsg) :=
  match encTimeInterval tg.1 with
  | none => none
  | some i => optAll (tg.2.map (fun g => (encExpr g).map (fun m => ({ goal := m, timing := some i } : GoalMsg))))

def encEpsilon : Option Rat → Option (Option RealMsg)
  | none => some none
  | some e => (encReal e).map some

/-- `ProtobufWriter._convert_problem` (proto_writer.py:592), mirrored fields -/
def encProblem (p : Problem) : Option ProblemMsg :=
  match optAll (p.types.map encTypeDecl),
        optAll (p.fluents.map (fun f => encFluent f (sigNames f.1.sig.length))),
        optAll (p.objects.map encObject),
        optAll (p.actions.map encAction) with
  | some ts, some fs, some os, some as =>
    match optAll (p.init.map encInit),
          (optAll (p.timedEffects.map encTimedEffGroup)).map List.flatten,
          optAll (p.goals.map encGoal),
          (optAll (p.timedGoals.map encTimedGoalGroup)).map List.flatten,
          encEpsilon p.epsilon with
    | some ini, some tes, some gs, some tgs, some eps =>
      some { problemName := p.name.getD "", types := ts, fluents := fs, objects := os, actions := as,
             init := ini, timedEffects := tes, goals := gs ++ tgs, epsilon := eps,
             discreteTime := p.discreteTime, selfOverlapping := p.selfOverlapping }
    | _, _, _, _, _ => none
  | _, _, _, _ => none

/-- `ProtobufReader._convert_type_declaration` (proto_reader.py:286) folded over `msg.types`:
    builtin-looking names do not yield a user type (`_add_user_type` then fails), the father must
    already be declared -/
def decTypes : List (String × String) → List (String × Option String) → Option (List (String × Option String))
  | [], acc => some acc
  | (n, f) :: rest, acc =>
    if n = "up:bool" ∨ intPrefix.isPrefixOf n.toList ∨ realPrefix.isPrefixOf n.toList then none
    else if f = "" then decTypes rest (acc ++ [(n, none)])
    else if (acc.map (·.1)).contains f then decTypes rest (acc ++ [(n, some f)])
    else none

/-- `set_initial_value`: a dictionary keyed by the fluent expression -/
def setInit (acc : List (UExpr × UExpr)) (kv : UExpr × UExpr) : List (UExpr × UExpr) :=
  if acc.any (fun p => p.1 == kv.1) then acc.map (fun p => if p.1 == kv.1 then kv else p)
  else acc ++ [kv]

/-- `_convert_object`: the type string must denote a user type -/
def decObject (tn : TypeNames) (o : String × String) : Option (String × String) :=
  match decTy tn o.2 with
  | some (.user u) => some (o.1, u)
  | _ => none

/-- `problem.add_fluent(self.convert(f, problem), default_initial_value=…)`: the default value is
    read with the fluents declared so far -/
def decFluentStep (tn : TypeNames) (objects : List (String × String))
    (acc : Option (List (FluentRef × Option UExpr))) (fm : FluentMsg) :
    Option (List (FluentRef × Option UExpr)) :=
  match acc with
  | none => none
  | some (fs : List (FluentRef × Option UExpr)) =>
    match decTy tn fm.valueType, optAll (fm.params.map (fun p => decTy tn p.2)) with
    | some vt, some sig =>
      let c : Ctx := { types := tn, objects := objects, fluents := fs.map (fun f => f.1) }
      match (match fm.default with
             | none => some none
             | some d => (decExpr c d).map some) with
      | some d => some (fs ++ [(({ name := fm.name, ty := vt, sig := sig } : FluentRef), d)])
      | none => none
    | _, _ => none

def decTimedEff (c : Ctx) (te : EffectMsg × TimingMsg) : Option (Timing × Effect) :=
  match decTiming te.2, decEffect c te.1 with
  | some t, some e => some (t, e)
  | _, _ => none

def decInit (c : Ctx) (a : PE × PE) : Option (UExpr × UExpr) :=
  match decExpr c a.1, decExpr c a.2 with
  | some x, some v => some (x, v)
  | _, _ => none

def decGoal (c : Ctx) (g : GoalMsg) : Option (UExpr × Option TimeInterval) :=
  match decExpr c g.goal, (match g.timing with
                           | none => some none
                           | some i => (decTimeInterval i).map some) with
  | some e, some i => some (e, i)
  | _, _ => none

def decEpsilon : Option RealMsg → Option (Option Rat)
  | none => some none
  | some e => (decReal e).map some

/-- `ProtobufReader._convert_problem` (proto_reader.py:313), mirrored fields, in the reader's order:
    types, objects, fluents, actions, timed effects, initial values, goals, flags -/
def decProblem (m : ProblemMsg) : Option Problem :=
  match decTypes m.types [] with
  | none => none
  | some types =>
    let tn : TypeNames := types.map (·.1)
    match optAll (m.objects.map (decObject tn)) with
    | none => none
    | some objects =>
      match m.fluents.foldl (decFluentStep tn objects) (some []) with
      | none => none
      | some fluents =>
        let c : Ctx := { types := tn, objects := objects, fluents := fluents.map (·.1) }
        match optAll (m.actions.map (decAction c)), optAll (m.timedEffects.map (decTimedEff c)),
              optAll (m.init.map (decInit c)), optAll (m.goals.map (decGoal c)), decEpsilon m.epsilon with
        | some actions, some tes, some ini, some gs, some eps =>
          some { name := if m.problemName = "" then none else some m.problemName,
                 types := types, objects := objects, fluents := fluents, actions := actions,
                 init := ini.foldl setInit [],
                 timedEffects := tes.foldl (fun acc p => addKV false p.1 p.2 acc) [],
                 -- `add_goal` drops `TRUE`; `add_timed_goal` groups by interval without duplicates
                 goals := (gs.filterMap (fun p => if p.2.isNone then some p.1 else none)).filter
                            (fun e => !(e == .boolC true)),
                 timedGoals := (gs.filterMap needKey).foldl (fun acc p => addKV true p.1 p.2 acc) [],
                 epsilon := eps, discreteTime := m.discreteTime, selfOverlapping := m.selfOverlapping }
        | _, _, _, _, _ => none

/-! ## 7. hypotheses of the round-trip theorems (decidable; see Props/C20.lean)

These say that an object belongs to the problem the reader is given: its symbols are declared
there.  They are invariants of objects inside a real `Problem`; the excluded points are tested on
the real code by the harness (ill-scoped contexts). -/

/-- the type is one the reader's problem knows: user types are declared; `time` is not a type a
    parameter / fluent / variable can have -/
def tyDeclared (types : TypeNames) : Ty → Bool
  | .user n => types.contains n
  | .time => false
  | _ => true

mutual
/-- the expression only mentions objects and fluents of the context, with the declared types and
    arities, and declared user types -/
def UExpr.wf (c : Ctx) : UExpr → Bool
  | .boolC _ => true
  | .intC _ => true
  | .realC _ => true
  | .obj n t => c.object? n == some t
  | .param _ t => tyDeclared c.types t
  | .var v => tyDeclared c.types v.ty
  | .timing _ => true
  | .present _ => true
  | .fluent f args =>
    c.object? f.name == none && c.fluent? f.name == some f && args.length == f.sig.length && UExpr.wfList c args
  | .op _ args => UExpr.wfList c args
  | .quant _ vs body => vs.all (fun v => tyDeclared c.types v.ty) && UExpr.wf c body
def UExpr.wfList (c : Ctx) : List UExpr → Bool
  | [] => true
  | e :: es => UExpr.wf c e && UExpr.wfList c es
end

def Effect.wf (c : Ctx) (e : Effect) : Bool :=
  e.fluent.isFluent && e.fluent.wf c && e.value.wf c && e.cond.wf c && e.forall_.all (fun v => tyDeclared c.types v.ty)

/-- the wire format writes "no container" as the empty string -/
def Timing.ok (t : Timing) : Bool := t.tp.container != some ""
def TimeInterval.ok (i : TimeInterval) : Bool := i.lower.ok && i.upper.ok

/-- an action of the problem: distinct parameter names, declared types, well-formed expressions;
    preconditions as `add_precondition` stores them (no `TRUE`, no duplicates); the two
    dictionaries of a durative action have distinct keys and non-empty lists (`add_condition`
    never stores an empty or duplicated list), and their timings carry no empty container name -/
def Action.WF (c : Ctx) : Action → Prop
  | .inst _ ps pre effs =>
    (ps.map (·.name)).Nodup ∧ (∀ p ∈ ps, tyDeclared c.types p.ty = true) ∧
    pre.Nodup ∧ (∀ e ∈ pre, e ≠ .boolC true ∧ e.wf c = true) ∧ (∀ e ∈ effs, e.wf c = true)
  | .dur _ ps d conds effs =>
    (ps.map (·.name)).Nodup ∧ (∀ p ∈ ps, tyDeclared c.types p.ty = true) ∧
    d.lower.wf c = true ∧ d.upper.wf c = true ∧
    (conds.map (·.1)).Nodup ∧
    (∀ g ∈ conds, g.1.ok = true ∧ g.2 ≠ [] ∧ g.2.Nodup ∧ ∀ e ∈ g.2, e.wf c = true) ∧
    (effs.map (·.1)).Nodup ∧
    (∀ g ∈ effs, g.1.ok = true ∧ g.2 ≠ [] ∧ ∀ e ∈ g.2, e.wf c = true)

instance (c : Ctx) (a : Action) : Decidable (a.WF c) := by
  cases a <;> unfold Action.WF <;> infer_instance

def UExpr.isConst : UExpr → Bool
  | .boolC _ => true
  | .intC _ => true
  | .realC _ => true
  | .obj _ _ => true
  | _ => false

/-- user types are listed fathers first, and no father is called `""` (the wire format's "none") -/
def typesOK : List (String × Option String) → List String → Bool
  | [], _ => true
  | (n, f) :: rest, seen =>
    (match f with
     | none => true
     | some f => f != "" && seen.contains f) && typesOK rest (seen ++ [n])

def Problem.ctx (p : Problem) : Ctx :=
  { types := p.types.map (·.1), objects := p.objects, fluents := p.fluents.map (·.1) }

/-- a problem as the model-building API leaves it: declared types everywhere, constant default
    values, one initial value per fluent expression, goals without `TRUE`, dictionaries with
    distinct keys and non-empty duplicate-free lists, a non-empty name -/
def Problem.WF (p : Problem) : Prop :=
  p.name ≠ some "" ∧ typesOK p.types [] = true ∧
  (∀ o ∈ p.objects, (p.types.map (·.1)).contains o.2 = true) ∧
  (∀ f ∈ p.fluents, tyDeclared (p.types.map (·.1)) f.1.ty = true ∧
      (∀ t ∈ f.1.sig, tyDeclared (p.types.map (·.1)) t = true) ∧
      ∀ d ∈ f.2.toList, d.isConst = true ∧ d.wf p.ctx = true) ∧
  (∀ a ∈ p.actions, a.WF p.ctx) ∧
  (p.init.map (·.1)).Nodup ∧ (∀ a ∈ p.init, a.1.wf p.ctx = true ∧ a.2.wf p.ctx = true) ∧
  (p.timedEffects.map (·.1)).Nodup ∧
  (∀ g ∈ p.timedEffects, g.1.ok = true ∧ g.2 ≠ [] ∧ ∀ e ∈ g.2, e.wf p.ctx = true) ∧
  (∀ g ∈ p.goals, g ≠ .boolC true ∧ g.wf p.ctx = true) ∧
  (p.timedGoals.map (·.1)).Nodup ∧
  (∀ g ∈ p.timedGoals, g.1.ok = true ∧ g.2 ≠ [] ∧ g.2.Nodup ∧ ∀ e ∈ g.2, e.wf p.ctx = true)

instance (p : Problem) : Decidable p.WF := by
  unfold Problem.WF; infer_instance

end UPVerif.Proto
