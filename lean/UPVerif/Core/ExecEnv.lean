import UPVerif.Core.Expr
import UPVerif.Core.Eval
import UPVerif.Core.Problem
import UPVerif.Core.Sim
import UPVerif.Core.Walkers.Substitute
/-
`SimulatedExecutionEnvironment` (unified_planning/model/contingent/execution_environment.py, WITH the
repair of notes/patches/C35-execution-environment-faithful-clone.patch) together with the parts of
`ContingentProblem` / `SensingAction` (model/contingent/contingent_problem.py, sensing_action.py) and
`FluentsSetMixin.add_fluent` (model/mixins/fluents_set.py) it reads.

* `CProblem`         : a `ContingentProblem` — the classical content (`base`), the per-type defaults
                       (`initial_defaults`), the observed fluents of its `SensingAction`s and the three
                       containers `hidden_fluents`, `oneof_constraints`, `or_constraints`;
* `resolvedDefault`  : `add_fluent` — per-fluent default if given, else the per-type default, else none;
* `detClone`         : `_get_stateless_deterministic_problem_clone`;
* `models`           : `list(all_smt(And(constraints), symbols))` — pysmt and the SMT solver are NOT
                       modelled: they are replaced by their contract (every total assignment of the
                       symbols that satisfies the formula, each exactly once).  The correspondence check
                       compares this list with the list the real `random.choice` receives, on every case;
* `mkEnv`            : `__init__` = clone, `_randomly_set_full_initial_state`, simulator, initial state.
                       `random.choice` is a PARAMETER (`choice`): the model only demands that it is one
                       of `models`;
* `Env.apply`        : `apply`; `Env.isGoalReached` : `is_goal_reached`.

The simulator is `Core/Sim.lean` (properties C01/C02); the simplifier and the interpreted-function
tables are parameters exactly as there.
-/
namespace UPVerif.ExecEnv
open UPVerif UPVerif.Expr UPVerif.Sim

/-- a `ContingentProblem` -/
structure CProblem where
  /-- the `Problem` part.  `base.fluents[i].default` is the `default_initial_value` ARGUMENT given to
      `add_fluent` (the per-fluent default), `base.init` the explicit initial values, `base.actions`
      every action — a `SensingAction` is an `InstantaneousAction` (parameters, preconditions, effects)
      plus the entry of `sensing` below -/
  base : Problem
  /-- `initial_defaults` (the constructor's per-type defaults) -/
  typeDefaults : List (Ty × Expr)
  /-- `SensingAction.observed_fluents`, by action name; the names listed here are the sensing actions -/
  sensing : List (String × List Expr)
  /-- `hidden_fluents`: the literals (`f(args)` or `Not(f(args))`) named by the initial constraints -/
  hidden : List Expr
  /-- `oneof_constraints` -/
  oneofs : List (List Expr)
  /-- `or_constraints` (`add_unknown_initial_constraint(f)` stores `[Not(f), f]` here) -/
  ors : List (List Expr)
  deriving Repr, Inhabited

/-! ### what the contingent problem itself resolves -/

/-- `FluentsSetMixin.add_fluent` (fluents_set.py:168-179): `fluents_defaults[fluent]` is the given
    default, else `initial_defaults[fluent.type]` (exact type), else absent -/
def resolvedDefault (C : CProblem) (d : FluentDecl) : Option Expr :=
  match d.default with
  | some v => some v
  | none => C.typeDefaults.lookup d.ref.ty

/-- the fluents of the contingent problem with `problem.fluents_defaults` -/
def resolvedFluents (C : CProblem) : List FluentDecl :=
  C.base.fluents.map (fun d => { ref := d.ref, default := resolvedDefault C d })

/-- `isinstance(action, SensingAction)` -/
def isSensing (C : CProblem) (name : String) : Bool := (C.sensing.lookup name).isSome

/-! ### hidden atoms -/

/-- `hf.arg(0) if hf.is_not() else hf` -/
def atomOf : Expr → Expr
  | .app .not [x] => x
  | e => e

/-- keys of a `dict` filled in list order: first occurrences, in order -/
def dedup : List Expr → List Expr
  | [] => []
  | x :: xs => x :: (dedup xs).filter (fun y => y != x)

/-- `_hidden_atoms` (execution_environment.py): a hidden literal `Not(f)` hides `f` -/
def hiddenAtoms (C : CProblem) : List Expr := dedup (C.hidden.map atomOf)

/-! ### `_get_stateless_deterministic_problem_clone` -/

/-- the dummy `InstantaneousAction` that replaces a sensing action: same name, parameters,
    preconditions and effects, no observations -/
def dummyOf (a : Action) : Action := { name := a.name, params := a.params, pre := a.pre, effs := a.effs }

def detClone (C : CProblem) : Problem :=
  { name := C.base.name
    types := C.base.types
    -- `add_objects(problem.all_objects)`
    objects := C.base.objects
    -- `add_fluent(fluent, default_initial_value=problem.fluents_defaults.get(fluent))`; the clone has no
    -- per-type defaults of its own
    fluents := resolvedFluents C
    -- explicit initial values of everything that is not hidden
    init := C.base.init.filter (fun fv => !(hiddenAtoms C).contains fv.1)
    actions := C.base.actions.map (fun a => if isSensing C a.name then dummyOf a else a)
    goals := C.base.goals
    -- trajectory constraints (hence state invariants) are NOT copied by the code
    traj := []
    metrics := C.base.metrics }

/-! ### `_randomly_set_full_initial_state` -/

/-- an assignment of the pysmt symbols, keyed by the hidden atom each symbol stands for -/
abbrev Asg := List (Expr × Bool)

/-- the pysmt literal built for a member of a constraint (`Not(sym[x.arg(0)])` / `sym[x]`) under an
    assignment; `none` = `KeyError` (no symbol for that atom) -/
def litVal (asg : Asg) : Expr → Option Bool
  | .app .not [y] => (asg.lookup y).map (fun b => !b)
  | y => asg.lookup y

def litVals (asg : Asg) (c : List Expr) : Option (List Bool) := c.mapM (litVal asg)

def countTrue (bs : List Bool) : Nat := (bs.filter id).length

/-- pysmt `ExactlyOne(args)` -/
def oneofHolds (asg : Asg) (c : List Expr) : Option Bool := (litVals asg c).map (fun bs => countTrue bs == 1)

/-- pysmt `Or(args)` -/
def orHolds (asg : Asg) (c : List Expr) : Option Bool := (litVals asg c).map (fun bs => bs.any id)

/-- `self._max_constraints = max_constraints or float("inf")`; `none` = infinity -/
def effLimit : Option Nat → Option Nat
  | some 0 => none
  | x => x

/-- the loop over `problem.or_constraints` with its `break` (execution_environment.py:149-159);
    `n` = `len(constraints)` when the member is reached.  The test sits inside this loop only, after
    the `append`: every oneof constraint and at least the first or constraint are always used. -/
def takeOrs (limit : Option Nat) : Nat → List (List Expr) → List (List Expr)
  | _, [] => []
  | n, c :: cs =>
    c :: (match limit with
      | some m => if n + 1 ≥ m then [] else takeOrs limit (n + 1) cs
      | none => takeOrs limit (n + 1) cs)

def usedOrs (C : CProblem) (mc : Option Nat) : List (List Expr) := takeOrs (effLimit mc) C.oneofs.length C.ors

/-- no `KeyError` while the constraints are built: every visited member's atom has a symbol -/
def symbolsOK (C : CProblem) (mc : Option Nat) : Bool :=
  (C.oneofs ++ usedOrs C mc).all (fun c => c.all (fun x => (hiddenAtoms C).contains (atomOf x)))

/-- the formula handed to the solver, evaluated under a total assignment of the symbols -/
def satisfies (C : CProblem) (mc : Option Nat) (asg : Asg) : Bool :=
  C.oneofs.all (fun c => oneofHolds asg c == some true) &&
  (usedOrs C mc).all (fun c => orHolds asg c == some true)

/-- every total assignment of the given atoms, the first atom most significant, `false` first -/
def allAssignments : List Expr → List Asg
  | [] => [[]]
  | a :: as => [false, true].flatMap (fun b => (allAssignments as).map (fun r => (a, b) :: r))

/-- CONTRACT of `list(all_smt(And(constraints), symbols))` (pysmt + solver, trusted and checked by
    correspondence on every case): the total assignments satisfying the formula, each once.  The order
    is the solver's; here the canonical one. -/
def models (C : CProblem) (mc : Option Nat) : List Asg :=
  (allAssignments (hiddenAtoms C)).filter (satisfies C mc)

/-- `problem.set_initial_value(f, v)`: assignment into an insertion-ordered `dict` -/
def setInit (init : List (Expr × Expr)) (f v : Expr) : List (Expr × Expr) :=
  if init.any (fun fv => fv.1 == f) then init.map (fun fv => if fv.1 == f then (f, v) else fv)
  else init ++ [(f, v)]

/-- the loop `for k, v in res.items(): set_initial_value(symbol_to_fnode[k], v.is_true())` -/
def setAll (init : List (Expr × Expr)) (asg : Asg) : List (Expr × Expr) :=
  asg.foldl (fun acc av => setInit acc av.1 (Expr.bool av.2)) init

/-! ### the environment -/

inductive InitErr where
  /-- `KeyError`: a constraint names an atom that has no symbol -/
  | keyError
  /-- `IndexError` out of `random.choice([])`: the constraints are contradictory -/
  | noModel
  /-- the chooser handed back something that is not in the list (never the behaviour of `random.choice`) -/
  | notAModel
  /-- `UPProblemDefinitionError` out of `get_initial_state` (bounded type violated by an initial
      value, malformed initial value) -/
  | rejected
  /-- any other exception out of the simulator's constructor / `get_initial_state` -/
  | sim (e : EvalErr)
  deriving DecidableEq, Repr

/-- `self._deterministic_problem` + `self._simulator` (the `World` the simulator is built from),
    `self._state`, and what `apply` reads of `self._problem`: the observed fluents of its sensing actions -/
structure Env where
  W : World
  st : SimState
  sensing : List (String × List Expr)

/-- the deterministic problem once `_randomly_set_full_initial_state` has run -/
def fullProblem (C : CProblem) (choice : Asg) : Problem :=
  let D := detClone C
  { D with init := setAll D.init choice }

/-- `SimulatedExecutionEnvironment.__init__` (execution_environment.py:65-79) -/
def mkEnv (C : CProblem) (mc : Option Nat) (simp : Expr → Expr) (fn : FunRef → List Val → Option Val)
    (choice : Asg) : Except InitErr Env :=
  if !symbolsOK C mc then .error .keyError
  else if (models C mc).isEmpty then .error .noModel
  else if !(models C mc).contains choice then .error .notAModel
  else
    let W : World := { P := fullProblem C choice, simp := simp, fn := fn }
    match getInitialState W with
    | .error e => .error (.sim e)
    | .ok none => .error .rejected
    | .ok (some s) => .ok { W := W, st := s, sensing := C.sensing }

/-- what `apply` does besides changing the state -/
inductive Outcome where
  /-- an exception other than the ones the simulator catches escapes from `simulator.apply`;
      nothing has been changed -/
  | raised (e : EvalErr)
  /-- `UPUsageError("The given action is not applicable!")`; nothing has been changed -/
  | notApplicable
  /-- the state has been replaced; `obs` is the returned dict (insertion order), or
      `UPStateMissingFluentError` raised by `get_value` while it was being filled -/
  | done (obs : Except EvalErr (List (Expr × Val)))

/-- `dict(zip(action.action.parameters, action.actual_parameters))` -/
def obsSubst (P : Problem) (a : Action) (args : List String) : Subst := paramSubst P a args

/-- the loop filling `res` (execution_environment.py:195-198): `res[f.substitute(subs)] =
    self._state.get_value(...)`; a repeated key keeps its position (and is given the same value again) -/
def readObs (P : Problem) (s : SimState) : List Expr → List (Expr × Val) → Except EvalErr (List (Expr × Val))
  | [], out => .ok out
  | fe :: fes, out =>
    match keyOf? fe with
    | none => .error .other          -- not a ground fluent expression: outside the model
    | some k =>
      match s.get P k with
      | none => .error .missing
      | some v =>
        if out.any (fun p => p.1 == fe) then readObs P s fes out
        else readObs P s fes (out ++ [(fe, v)])

/-- `SimulatedExecutionEnvironment.apply` (execution_environment.py:168-199) on the instance
    `name(args)`; `none` = no action of that name. -/
def Env.apply (E : Env) (name : String) (args : List String) : Option (Outcome × Env) :=
  -- sensing: `self._deterministic_problem.action(name)`; otherwise the instance's own action, which
  -- the clone holds under the same name
  match E.W.P.action? name with
  | none => none
  | some a =>
    match Sim.apply E.W E.st a args with
    | .error e => some (.raised e, E)
    | .ok none => some (.notApplicable, E)
    | .ok (some s') =>
      let E' : Env := { E with st := s' }
      -- `isinstance(action.action, SensingAction)` / `action.action.observed_fluents`
      match E.sensing.lookup name with
      | none => some (.done (.ok []), E')
      | some fs =>
        let σ := obsSubst E.W.P a args
        some (.done (readObs E.W.P s' (fs.map (substE σ)) []), E')

/-- `is_goal_reached` -/
def Env.isGoalReached (E : Env) : Except EvalErr Bool := Sim.isGoal E.W E.st

/-- a whole history of `apply` calls; failed calls leave the environment as it was -/
def Env.run (E : Env) : List (String × List String) → Env
  | [] => E
  | (n, args) :: rest =>
    match E.apply n args with
    | none => Env.run E rest
    | some (_, E') => Env.run E' rest

/-! ### well-formedness used by the theorems (decidable; the driver refuses cases violating it) -/

/-- the expressions used as keys of the initial-value dict and of the hidden set -/
def keyExprs (C : CProblem) : List Expr := C.base.init.map (·.1) ++ hiddenAtoms C

/-- distinct key expressions denote distinct ground fluents (in Python: hash-consing, property C16,
    plus type-checked arguments) -/
def keysInjective (C : CProblem) : Bool :=
  decide (∀ e₁ ∈ keyExprs C, ∀ e₂ ∈ keyExprs C, keyOf? e₁ = keyOf? e₂ → (keyOf? e₁).isSome = true → e₁ = e₂)

end UPVerif.ExecEnv
