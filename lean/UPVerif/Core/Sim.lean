import UPVerif.Core.Expr
import UPVerif.Core.Den
import UPVerif.Core.Eval
import UPVerif.Core.Problem
import UPVerif.Core.Walkers.FreeVars
import UPVerif.Core.Walkers.Substitute
/-
`UPSequentialSimulator` (unified_planning/engines/sequential_simulator.py, WITH the repair of
notes/patches/C01-simulator-single-effect-loop.patch: `apply_unsafe` and the `full_check` of
`get_unsatisfied_conditions` share the single loop `_evaluate_effects`), together with the parts of
the library it drives:

* `UPState.get_value / make_child` seen as a finite map with the problem's defaults (model/state.py;
  the parent-chain data structure itself is property C36);
* `GrounderHelper.ground_action(prune_actions=False)` = `create_action_with_given_subs`
  (engines/compilers/utils.py): parameter substitution, simplification of effect arguments, values and
  conditions, effects whose condition simplifies to FALSE dropped, re-insertion through
  `_add_effect_instance` (static conflict check of model/effect.py), `check_and_simplify_preconditions`;
* `Effect.expand_effect` (model/effect.py); `ExpressionQuantifiersRemover` (state invariants);
* `get_all_fluent_exp` (model/fluent.py) for the bounded-type invariants.

The simplifier is a PARAMETER (`World.simp`): property C11 owns its model.  Interpreted functions are
tables (`World.fn`).  Simulated effects are not modelled.  Action / fluent / variable parameters
range over user types (objects); Boolean and bounded-integer parameters are outside the model.
-/
namespace UPVerif.Sim
open UPVerif UPVerif.Expr

/-- everything the simulator is constructed from -/
structure World where
  P : Problem
  simp : Expr → Expr
  fn : FunRef → List Val → Option Val

/-! ### states -/

/-- a `UPState`: bindings newest first (`make_child` prepends), the problem's defaults behind -/
structure SimState where
  vals : List (GKey × Val)
  deriving Repr, Inhabited, DecidableEq

/-- `problem.fluents_defaults.get(f)` -/
def defaultOf (P : Problem) (f : FluentRef) : Option Val :=
  (P.fluents.find? (fun d => d.ref == f)).bind (fun d => d.default.bind constVal?)

/-- `UPState.get_value` (state.py:149): newest binding, else the fluent's default, else missing -/
def SimState.get (P : Problem) (s : SimState) (k : GKey) : Option Val :=
  match s.vals.lookup k with
  | some v => some v
  | none => defaultOf P k.1

/-- `UPState.make_child` -/
def SimState.child (s : SimState) (upd : List (GKey × Val)) : SimState := ⟨upd ++ s.vals⟩

def ctx (W : World) (s : SimState) : EvalCtx := { get := s.get W.P, objs := W.P.objectsOf, fn := W.fn }

/-- a ground fluent expression `f(c₁,…,cₙ)` with constant arguments as a key -/
def keyOf? : Expr → Option GKey
  | .app (.fluent f) args => (args.mapM constVal?).map (fun vs => (f, vs))
  | _ => none

/-- `UPState(problem.explicit_initial_values, problem)` -/
def initialState? (P : Problem) : Option SimState :=
  (P.init.mapM (fun (fv : Expr × Expr) => do
    let k ← keyOf? fv.1
    let v ← constVal? fv.2
    some (k, v))).map (fun l => ⟨l⟩)

/-! ### objects, instances -/

/-- `itertools.product(*ds)`: first component outermost -/
def cartesian {α : Type} : List (List α) → List (List α)
  | [] => [[]]
  | d :: ds => d.flatMap (fun x => (cartesian ds).map (fun r => x :: r))

/-- `ObjectExp(o)` for the object named `o` (its declared type is payload of the node) -/
def objExpr (P : Problem) (o : String) : Expr := .leaf (.obj o ((P.objects.lookup o).getD ""))

/-- `problem.objects(t)` for a parameter / variable type (user types only, see header) -/
def tyDomain (P : Problem) : Ty → List String
  | .user t => P.objectsOf t
  | _ => []

/-- `GrounderHelper.get_possible_parameters` (grounder.py:178, no pruning) -/
def instancesOf (P : Problem) (a : Action) : List (List String) :=
  cartesian (a.params.map (fun p => tyDomain P p.2))

/-- `GrounderHelper.get_grounded_actions`: every action with every parameter tuple, in order -/
def allInstances (P : Problem) : List (Action × List String) :=
  P.actions.flatMap (fun a => (instancesOf P a).map (fun args => (a, args)))

/-- `FNode.substitute` with the empty map is the identity (substituter.py:108) -/
def substE (σ : Subst) (e : Expr) : Expr := if σ.isEmpty then e else subst σ e

/-! ### grounding: `create_action_with_given_subs` -/

structure GAction where
  pre : List Expr
  effs : List Effect
  deriving Repr, Inhabited, DecidableEq

def dedupVars (vs : List Var) : List Var :=
  vs.foldl (fun acc v => if acc.contains v then acc else acc ++ [v]) []

/-- `Effect.__init__` (effect.py:75): keeps the forall variables that occur free, in order, without
    duplicates; `none` = `UPUnboundedVariablesError` -/
def mkEffect (fl v c : Expr) (k : EffKind) (forall_ : List Var) : Option Effect :=
  let fvs := freeVars fl ++ freeVars v ++ freeVars c
  let kept := dedupVars (forall_.filter (fun x => fvs.contains x))
  if fvs.all (fun x => kept.contains x) then
    some { fluent := fl, value := v, cond := c, kind := k, forall_ := kept }
  else none

/-- `create_effect_with_given_subs` (utils.py:141): `.ok none` = condition simplified to FALSE -/
def createEffect (W : World) (σ : Subst) (e : Effect) : Except EvalErr (Option Effect) :=
  let f0 := substE σ e.fluent
  let f1 := match f0 with
    | .app (.fluent f) as => .app (.fluent f) (as.map W.simp)
    | x => x
  let v := W.simp (substE σ e.value)
  let c := W.simp (substE σ e.cond)
  if c = Expr.ff then .ok none
  else match mkEffect f1 v c e.kind e.forall_ with
    | some e' => .ok (some e')
    | none => .error .other

def fluentIsBool : Expr → Bool
  | .app (.fluent f) _ => f.ty == .bool
  | _ => false

/-- `action._fluents_assigned`, `action._fluents_inc_dec` -/
structure StaticAcc where
  assigned : List (Expr × Expr)
  incdec : List Expr

/-- values that `check_conflicting_effects` accepts as "the same" -/
def compatVal (a b : Expr) : Bool :=
  a == b || (match constVal? a, constVal? b with
    | some x, some y => x == y
    | _, _ => false)

/-- `check_conflicting_effects` (effect.py:377) without simulated effects;
    `none` = `UPConflictingEffectsException` -/
def staticStep (acc : StaticAcc) (e : Effect) : Option StaticAcc :=
  if e.isConditional || fluentIsBool e.fluent then some acc
  else match e.kind with
    | .assign =>
      if acc.incdec.contains e.fluent then none
      else match acc.assigned.lookup e.fluent with
        | some av => if compatVal av e.value then some acc else none
        | none => some { acc with assigned := (e.fluent, e.value) :: acc.assigned }
    | _ =>
      if (acc.assigned.lookup e.fluent).isSome then none
      else some { acc with incdec := e.fluent :: acc.incdec }

/-- the loop of `create_action_with_given_subs` over the old effects: `.ok none` = conflict -/
def groundEffects (W : World) (σ : Subst) : List Effect → StaticAcc → List Effect → Except EvalErr (Option (List Effect))
  | [], _, out => .ok (some out)
  | e :: es, acc, out =>
    match createEffect W σ e with
    | .error x => .error x
    | .ok none => groundEffects W σ es acc out
    | .ok (some e') =>
      match staticStep acc e' with
      | none => .ok none
      | some acc' => groundEffects W σ es acc' (out ++ [e'])

/-- `check_and_simplify_preconditions` (utils.py:105): `none` = simplified to FALSE -/
def simplifyPre (W : World) (pre : List Expr) : Option (List Expr) :=
  if pre.isEmpty then some []
  else
    let ps := W.simp (mkAnd pre)
    match ps with
    | .leaf (.boolC b) => if b then some [] else none
    | .app .and as => some as
    | e => some [e]

def paramSubst (P : Problem) (a : Action) (args : List String) : Subst :=
  (a.params.zip args).map (fun pa => (.leaf (.param pa.1.1 pa.1.2), objExpr P pa.2))

/-- `GrounderHelper.ground_action` → `create_action_with_given_subs`; `.ok none` = the grounder's
    `None` (conflicting effects or contradictory preconditions) -/
def ground (W : World) (a : Action) (args : List String) : Except EvalErr (Option GAction) :=
  let σ := paramSubst W.P a args
  let pre := a.pre.map (substE σ)
  match groundEffects W σ a.effs ⟨[], []⟩ [] with
  | .error x => .error x
  | .ok none => .ok none
  | .ok (some effs) =>
    match simplifyPre W pre with
    | none => .ok none
    | some pre' => .ok (some { pre := pre', effs := effs })

/-- `Effect.expand_effect` (effect.py:242) -/
def expandEffect (P : Problem) (e : Effect) : List Effect :=
  if e.forall_.isEmpty then [e]
  else (cartesian (e.forall_.map (fun v => tyDomain P v.ty))).map (fun objs =>
    let σ : Subst := (e.forall_.zip objs).map (fun vo => (.leaf (.var vo.1), objExpr P vo.2))
    { fluent := substE σ e.fluent, value := substE σ e.value, cond := substE σ e.cond,
      kind := e.kind, forall_ := [] })

/-- all expanded effects of a grounded action, in the order `_evaluate_effects` visits them -/
def expandAll (P : Problem) (g : GAction) : List Effect := g.effs.flatMap (expandEffect P)

/-! ### evaluation of effects: `_evaluate_effect` / `_evaluate_effects` -/

/-- a ground effect that fires, with everything evaluated in the pre-state -/
inductive Fired where
  /-- assignment to a Boolean fluent -/
  | setB (k : GKey) (b : Bool)
  /-- assignment to a numeric / object fluent -/
  | setV (k : GKey) (v : Val)
  /-- increase by `d` (a decrease is an increase by `-d`) -/
  | delta (k : GKey) (d : Rat)
  deriving DecidableEq, Repr

def Fired.key : Fired → GKey
  | .setB k _ => k
  | .setV k _ => k
  | .delta k _ => k

/-- `map(evaluate, effect.fluent.args)`: one `evaluate` per argument, left to right -/
def evalArgs (c : EvalCtx) : List Expr → Except EvalErr (List Val)
  | [] => .ok []
  | a :: as =>
    match eval c [] a with
    | .error x => .error x
    | .ok v =>
      match evalArgs c as with
      | .error x => .error x
      | .ok vs => .ok (v :: vs)

/-- first half of `_evaluate_effect` (sequential_simulator.py:382-385): target, condition and value
    are evaluated in the PRE-state; `.ok none` = the condition is not TRUE.
    The value/fluent type agreement that `add_effect` enforces at construction (transition.py:269)
    is assumed: a value of the wrong sort is answered `other`. -/
def evalEff (c : EvalCtx) (e : Effect) : Except EvalErr (Option Fired) :=
  match e.fluent with
  | .app (.fluent f) args =>
    match evalArgs c args with
    | .error x => .error x
    | .ok vs =>
      let k : GKey := (f, vs)
      let fires : Except EvalErr Bool :=
        if e.isConditional then
          match eval c [] e.cond with
          | .error x => .error x
          | .ok v => .ok (v == .b true)         -- `.is_true()`
        else .ok true
      match fires with
      | .error x => .error x
      | .ok false => .ok none
      | .ok true =>
        match eval c [] e.value with
        | .error x => .error x
        | .ok v =>
          match e.kind with
          | .assign =>
            if f.ty == .bool then
              match v with
              | .b b => .ok (some (.setB k b))
              | _ => .error .other
            else .ok (some (.setV k v))
          | .increase => (match v with
            | .n d => .ok (some (.delta k d))
            | _ => .error .other)
          | .decrease => (match v with
            | .n d => .ok (some (.delta k (-d)))
            | _ => .error .other)
  | _ => .error .other

/-- why `_evaluate_effects` / `apply_unsafe` stop -/
inductive Fail where
  /-- `UPConflictingEffectsException` -/
  | conflict
  /-- `UPInvalidActionError` (state invariants / bounded types violated, or ungroundable) -/
  | invalid
  | eval (e : EvalErr)
  deriving DecidableEq, Repr

/-- `(updated_values, assigned_fluent)` -/
structure Acc where
  upd : List (GKey × Val)
  assigned : List GKey
  deriving Repr

def Acc.empty : Acc := ⟨[], []⟩

/-- assignment to a Boolean fluent (sequential_simulator.py:386-407, `fluent.type.is_bool_type()`) -/
def stepB (acc : Acc) (k : GKey) (b : Bool) : Except Fail Acc :=
  match acc.upd.lookup k with
  | none => .ok { upd := (k, .b b) :: acc.upd, assigned := k :: acc.assigned }
  | some old =>
    if old ≠ .b b then
      -- add-after-delete
      match old with
      | .b false => .ok { acc with upd := (k, .b b) :: acc.upd }
      | .b true => .ok acc
      | _ => .error (.eval .other)
    else if !acc.assigned.contains k then .error .conflict
    else .ok { upd := (k, .b b) :: acc.upd, assigned := k :: acc.assigned }

/-- assignment to a numeric / object fluent -/
def stepV (acc : Acc) (k : GKey) (v : Val) : Except Fail Acc :=
  match acc.upd.lookup k with
  | none => .ok { upd := (k, v) :: acc.upd, assigned := k :: acc.assigned }
  | some old =>
    if old ≠ v then .error .conflict
    else if !acc.assigned.contains k then .error .conflict
    else .ok { upd := (k, v) :: acc.upd, assigned := k :: acc.assigned }

/-- increase / decrease (sequential_simulator.py:408-431); `cur` is the pre-state -/
def stepD (cur : GKey → Option Val) (acc : Acc) (k : GKey) (d : Rat) : Except Fail Acc :=
  if acc.assigned.contains k then .error .conflict
  else
    -- `updated_values.get(fluent, evaluate(fluent))`: the default is evaluated eagerly
    match cur k with
    | none => .error (.eval .missing)
    | some c0 =>
      match (acc.upd.lookup k).getD c0 with
      | .n q => .ok { acc with upd := (k, .n (q + d)) :: acc.upd }
      | _ => .error (.eval .other)

/-- second half of `_evaluate_effect` (sequential_simulator.py:386-431) followed by
    `updated_values[fluent] = value` -/
def step (cur : GKey → Option Val) (acc : Acc) : Fired → Except Fail Acc
  | .setB k b => stepB acc k b
  | .setV k v => stepV acc k v
  | .delta k d => stepD cur acc k d

/-- the loop of `_evaluate_effects` over the expanded effects -/
def foldEffects (c : EvalCtx) : List Effect → Acc → Except Fail Acc
  | [], acc => .ok acc
  | e :: es, acc =>
    match evalEff c e with
    | .error x => .error (.eval x)
    | .ok none => foldEffects c es acc
    | .ok (some f) =>
      match step c.get acc f with
      | .error x => .error x
      | .ok acc' => foldEffects c es acc'

/-! ### state invariants -/

mutual
/-- `ExpressionQuantifiersRemover.remove_quantifiers` (expression_quantifiers_remover.py) -/
def removeQuantifiers (P : Problem) : Expr → Expr
  | .leaf l => .leaf l
  | .app op args => rebuild op (removeQuantifiersList P args)
  | .quant q vs b =>
    let b' := removeQuantifiers P b
    let insts := (cartesian (vs.map (fun v => tyDomain P v.ty))).map (fun objs =>
      -- `dict(zip(vars, objs))`: a later duplicate variable wins
      let σ : Subst := ((vs.zip objs).map (fun vo => (Expr.leaf (.var vo.1), objExpr P vo.2))).reverse
      substE σ b')
    match q with
    | .ex => mkOr insts
    | .all => mkAnd insts
def removeQuantifiersList (P : Problem) : List Expr → List Expr
  | [] => []
  | e :: es => removeQuantifiers P e :: removeQuantifiersList P es
end

/-- `Problem.state_invariants` (problem.py:700) -/
def stateInvariants (P : Problem) : List Expr :=
  P.traj.flatMap (fun tc => match tc with
    | .app .always [b] => [b]
    | .app .and as => as.filterMap (fun a => match a with
      | .app .always [b] => some b
      | _ => none)
    | .quant .all vs (.app .always [b]) => [.quant .all vs b]
    | _ => [])

/-- `get_all_fluent_exp` (fluent.py:270): the FIRST parameter varies fastest -/
def allFluentExps (P : Problem) (f : FluentRef) : List Expr :=
  ((cartesian (f.sig.reverse.map (fun t => tyDomain P t))).map
    (fun objs => mkFluent f (objs.reverse.map (objExpr P))))

def boundsOf : Ty → Option Expr × Option Expr
  | .int lb ub => (lb.map Expr.int, ub.map Expr.int)
  | .real lb ub => (lb.map Expr.real, ub.map Expr.real)
  | _ => (none, none)

/-- `self._state_invariants` as built by the constructor (sequential_simulator.py:123-153) -/
def invariants (W : World) : List Expr :=
  (stateInvariants W.P).map (fun si => W.simp (removeQuantifiers W.P si)) ++
  W.P.fluents.flatMap (fun d =>
    let (lb, ub) := boundsOf d.ref.ty
    (match lb with
      | some l => (allFluentExps W.P d.ref).map (fun fe => mkLE l fe)
      | none => []) ++
    (match ub with
      | some u => (allFluentExps W.P d.ref).map (fun fe => mkLE fe u)
      | none => []))

/-- the invariant loop of `apply_unsafe`: `.ok false` = some invariant evaluates to FALSE -/
def checkInvariants (c : EvalCtx) : List Expr → Except EvalErr Bool
  | [] => .ok true
  | si :: sis =>
    match evalBool c si with
    | .error x => .error x
    | .ok false => .ok false
    | .ok true => checkInvariants c sis

/-! ### the simulator's methods -/

/-- `_get_initial_state` (sequential_simulator.py:181): `.ok none` = `UPProblemDefinitionError`
    (initial state violates the invariants, or is not a map of constants) -/
def getInitialState (W : World) : Except EvalErr (Option SimState) :=
  match initialState? W.P with
  | none => .ok none
  | some s0 =>
    let rec go : List Expr → Except EvalErr (Option SimState)
      | [] => .ok (some s0)
      | si :: sis =>
        match evalBool (ctx W s0) si with
        | .error .missing => .ok none
        | .error x => .error x
        | .ok false => .ok none
        | .ok true => go sis
    go (invariants W)

/-- the precondition loop of `get_unsatisfied_conditions` with `early_termination=True`:
    `.ok false` = some precondition does not evaluate to TRUE -/
def checkPre (c : EvalCtx) : List Expr → Except EvalErr Bool
  | [] => .ok true
  | p :: ps =>
    match eval c [] p with
    | .error x => .error x
    | .ok (.b true) => checkPre c ps
    | .ok _ => .ok false

/-- `apply_unsafe` on a grounded action (sequential_simulator.py:266) -/
def applyUnsafe (W : World) (s : SimState) (g : GAction) : Except Fail SimState :=
  match foldEffects (ctx W s) (expandAll W.P g) Acc.empty with
  | .error x => .error x
  | .ok acc =>
    let s' := s.child acc.upd
    match checkInvariants (ctx W s') (invariants W) with
    | .error x => .error (.eval x)
    | .ok false => .error .invalid
    | .ok true => .ok s'

/-- the `except (UPInvalidActionError, UPConflictingEffectsException, UPStateMissingFluentError)`
    clauses of `_apply` / `_is_applicable`: everything else escapes -/
def catchFail {α : Type} (dflt : α) : Except Fail α → Except EvalErr α
  | .ok x => .ok x
  | .error .conflict => .ok dflt
  | .error .invalid => .ok dflt
  | .error (.eval .missing) => .ok dflt
  | .error (.eval x) => .error x

def liftEval {α : Type} : Except EvalErr α → Except Fail α
  | .ok x => .ok x
  | .error x => .error (.eval x)

/-- `_apply` once the action is grounded: preconditions (early termination), then `apply_unsafe` -/
def applyGround (W : World) (s : SimState) (g : GAction) : Except Fail (Option SimState) :=
  match checkPre (ctx W s) g.pre with
  | .error x => .error (.eval x)
  | .ok false => .ok none
  | .ok true =>
    match applyUnsafe W s g with
    | .error x => .error x
    | .ok s' => .ok (some s')

/-- body of `_apply` before the `except` clause -/
def applyRaw (W : World) (s : SimState) (a : Action) (args : List String) : Except Fail (Option SimState) :=
  match ground W a args with
  | .error x => .error (.eval x)
  | .ok none => .error .invalid
  | .ok (some g) => applyGround W s g

/-- `SequentialSimulator.apply` (sequential_simulator.py:233): `.ok none` = Python `None`,
    `.error` = an exception other than the three caught ones escapes -/
def apply (W : World) (s : SimState) (a : Action) (args : List String) : Except EvalErr (Option SimState) :=
  catchFail none (applyRaw W s a args)

inductive Reason where
  | violatesConditions | conflictingEffects | violatesStateInvariants
  deriving DecidableEq, Repr

/-- the precondition loop of `get_unsatisfied_conditions` in general: indices of unsatisfied ones -/
def unsatPre (c : EvalCtx) (early : Bool) : List Expr → Nat → Except EvalErr (List Nat)
  | [], _ => .ok []
  | p :: ps, i =>
    match eval c [] p with
    | .error x => .error x
    | .ok (.b true) => unsatPre c early ps (i + 1)
    | .ok _ =>
      if early then .ok [i]
      else match unsatPre c early ps (i + 1) with
        | .error x => .error x
        | .ok r => .ok (i :: r)

def unsatInv (c : EvalCtx) (early : Bool) : List Expr → Nat → Except EvalErr (List Nat)
  | [], _ => .ok []
  | si :: sis, i =>
    match evalBool c si with
    | .error x => .error x
    | .ok true => unsatInv c early sis (i + 1)
    | .ok false =>
      if early then .ok [i]
      else match unsatInv c early sis (i + 1) with
        | .error x => .error x
        | .ok r => .ok (i :: r)

/-- `get_unsatisfied_conditions(state, action, params, early_termination, full_check)` (repaired):
    unsatisfied preconditions (by index in the grounded action), unsatisfied invariants (by index in
    `invariants W`), and the reason -/
def unsatisfiedConditions (W : World) (s : SimState) (a : Action) (args : List String)
    (early full : Bool) : Except Fail (List Nat × List Nat × Option Reason) :=
  match ground W a args with
  | .error x => .error (.eval x)
  | .ok none => .error .invalid
  | .ok (some g) =>
    match unsatPre (ctx W s) early g.pre 0 with
    | .error x => .error (.eval x)
    | .ok up =>
      let r0 : Option Reason := if up.isEmpty then none else some .violatesConditions
      if early && !up.isEmpty then .ok (up, [], r0)
      else if !full then .ok (up, [], r0)
      else
        match foldEffects (ctx W s) (expandAll W.P g) Acc.empty with
        | .error .conflict => .ok (up, [], some .conflictingEffects)
        | .error x => .error x
        | .ok acc =>
          match unsatInv (ctx W (s.child acc.upd)) early (invariants W) 0 with
          | .error x => .error (.eval x)
          | .ok ui =>
            .ok (up, ui, if ui.isEmpty then r0 else match r0 with
              | none => some .violatesStateInvariants
              | some r => some r)

/-- `_is_applicable` (sequential_simulator.py:207): full check with early termination, reason is None -/
def isApplicable (W : World) (s : SimState) (a : Action) (args : List String) : Except EvalErr Bool :=
  catchFail false (match unsatisfiedConditions W s a args true true with
    | .error x => .error x
    | .ok r => .ok (r.2.2.isNone))

/-- `_get_applicable_actions`: the grounded instances for which `_is_applicable` holds, in order -/
def applicableActions (W : World) (s : SimState) : Except EvalErr (List (Action × List String)) :=
  let rec go : List (Action × List String) → Except EvalErr (List (Action × List String))
    | [] => .ok []
    | ai :: rest =>
      match isApplicable W s ai.1 ai.2 with
      | .error x => .error x
      | .ok b =>
        match go rest with
        | .error x => .error x
        | .ok r => .ok (if b then ai :: r else r)
  go (allInstances W.P)

/-- `get_unsatisfied_goals(state, early_termination)`: indices of the goals evaluating to FALSE;
    a fluent without value raises -/
def unsatisfiedGoals (W : World) (s : SimState) (early : Bool) : Except EvalErr (List Nat) :=
  unsatInv (ctx W s) early W.P.goals 0

/-- `_is_goal`: no unsatisfied goal (early termination); a missing fluent means "not a goal" -/
def isGoal (W : World) (s : SimState) : Except EvalErr Bool :=
  match unsatisfiedGoals W s true with
  | .ok l => .ok l.isEmpty
  | .error .missing => .ok false
  | .error x => .error x

end UPVerif.Sim
