import UPVerif.Core.Expr
import UPVerif.Core.Walkers.Substitute
/-
"Every referenced fluent, object and type is declared" as an executable predicate on the expression IR,
and the grounding substitution of `create_action_with_given_subs` (utils.py:164: every expression of the
action goes through `substitute(subs)` with `subs = {parameter ↦ object constant}`).

`Decls` are the declarations of a problem: user types (`Problem.user_types`), objects
(`Problem.all_objects`), fluents (`Problem.fluents`, compared as whole `Fluent` objects: name, type,
signature — `Fluent.__eq__`).
-/
namespace UPVerif.Declared
open UPVerif UPVerif.Expr

structure Decls where
  types : List String
  objects : List (String × String)      -- (name, user type)
  fluents : List FluentRef

def tyDeclared (D : Decls) : Ty → Bool
  | .user n => D.types.contains n
  | _ => true

def leafDeclared (D : Decls) : Leaf → Bool
  | .obj n t => D.objects.contains (n, t) && D.types.contains t
  | .param _ ty => tyDeclared D ty
  | .var v => tyDeclared D v.ty
  | _ => true

def opDeclared (D : Decls) : Op → Bool
  | .fluent f => D.fluents.contains f
  | _ => true

mutual
/-- every fluent, object and user type occurring in the expression is declared in `D` -/
def declared (D : Decls) : Expr → Bool
  | .leaf l => leafDeclared D l
  | .app op args => opDeclared D op && declaredList D args
  | .quant _ vs b => vs.all (fun v => tyDeclared D v.ty) && declared D b
def declaredList (D : Decls) : List Expr → Bool
  | [] => true
  | e :: es => declared D e && declaredList D es
end

/-- `subs` of one ground instance: formal parameters ↦ object constants -/
def groundSubst (params : List (String × Ty)) (objs : List (String × String)) : Subst :=
  (params.zip objs).map (fun po => (.leaf (.param po.1.1 po.1.2), .leaf (.obj po.2.1 po.2.2)))

end UPVerif.Declared
