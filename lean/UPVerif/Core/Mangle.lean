/-
Model of the name mangling of the two writers:

* `unified_planning/io/pddl_writer.py`: `_get_pddl_name` (l.1129), `PDDLWriter._get_mangled_name`
  (l.968), `get_item_named` (l.1010), `get_pddl_name` (l.1028); the keyword SELECTION of
  `PDDLWriter.__init__` (l.382-402) is modelled in `Core/MangleSelect.lean` (`initKeywords`, conditions
  regenerated from the source); `pddlKeywords` below is its older form with the four choices given as flags;
* `unified_planning/io/anml_writer.py`: `_is_valid_anml_name` (l.457), `_get_anml_valid_name`
  (l.466), `_get_anml_name` (l.494), the pre-registration loops and the name-relevant skeleton of
  `ANMLWriter._write_problem` (l.239).

Names are ASCII strings, modelled as `List Char` (`str.lower()` is `Char.toLower`, which is the
identity outside `A..Z`; Python lower-cases non-ASCII letters too — outside the modelled domain).
Python `dict`s are association lists in insertion order (`dictSet` = `d[k] = v`).
The keyword sets, `INITIAL_LETTER` maps and the character classes of the regular expressions are NOT
written here: they are regenerated from /repo on every run into `UPVerif/Gen/Keywords.lean` as a value
of type `Tables`.

The two `while` loops of the code are modelled with fuel; `Lemmas/MangleLemmas.lean` proves that the
fuel used here always suffices (`escapeKw_not_mem`, `fresh_not_taken`), i.e. the model never leaves a
loop because the fuel ran out.
-/
namespace UPVerif.Mangle

abbrev Name := List Char

structure Tables where
  /-- `GENERAL_PDDL_KEYWORDS`, `PDDL_PLUS_KEYWORDS`, `PDDL3_KEYWORDS`, `TEMPORAL_PDDL_KEYWORDS`,
      `CONTINGENT_PDDL_KEYWORDS`, `HDDL_KEYWORDS` -/
  pddlGeneral : List Name
  pddlPlus : List Name
  pddl3 : List Name
  pddlTemporal : List Name
  pddlContingent : List Name
  pddlHddl : List Name
  /-- pddl_writer `INITIAL_LETTER` (class name ↦ letter) and the default of its `.get` -/
  pddlInitial : List (Name × Char)
  pddlDefault : Char
  /-- the class `C` of `^[C]+.*` in `_get_pddl_name` -/
  pddlStart : List Char
  /-- the class `C` of `re.sub("[^C]", "_", name)` in `_get_pddl_name` -/
  pddlKeep : List Char
  anmlKw : List Name
  anmlInitial : List (Name × Char)
  anmlDefault : Char
  /-- the class `C` of `^[C]+.*` in `_get_anml_valid_name` -/
  anmlStart : List Char
  /-- the class `C` of `re.sub("[^C]", "_", name)` in `_get_anml_valid_name` -/
  anmlKeep : List Char
  /-- the classes `C1`, `C2` of the full match `[C1][C2]*` in `_is_valid_anml_name` -/
  anmlFirst : List Char
  anmlRest : List Char
  deriving Repr

/-- a model element that gets a name: `cls` is `type(item).__name__`, `uid` separates elements that
    are different dictionary keys although class and name agree (e.g. parameters of different type) -/
structure Item where
  cls : Name
  name : Name
  uid : Nat
  deriving DecidableEq, Repr

/-- `isinstance(item, up.model.Type)` (only user types are ever passed) -/
def Item.isType (it : Item) : Bool := it.cls == ['_', 'U', 's', 'e', 'r', 'T', 'y', 'p', 'e']
/-- `isinstance(item, up.model.Parameter) or isinstance(item, up.model.Variable)` -/
def Item.isVar (it : Item) : Bool :=
  it.cls == ['P', 'a', 'r', 'a', 'm', 'e', 't', 'e', 'r'] || it.cls == ['V', 'a', 'r', 'i', 'a', 'b', 'l', 'e']

/-! ### Python dictionaries -/

/-- `d[k] = v` -/
def dictSet {α β} [BEq α] (k : α) (v : β) : List (α × β) → List (α × β)
  | [] => [(k, v)]
  | (k', v') :: r => if k' == k then (k', v) :: r else (k', v') :: dictSet k v r

def dictKeys {α β} (d : List (α × β)) : List α := d.map (·.1)
def dictValues {α β} (d : List (α × β)) : List β := d.map (·.2)

/-! ### shared pieces of `_get_pddl_name` / `_get_anml_valid_name` -/

/-- `re.match(r"^[C]+.*", name) is not None` -/
def startsIn (cls : List Char) : Name → Bool
  | [] => false
  | c :: _ => cls.contains c

/-- `INITIAL_LETTER.get(type(item), default)` -/
def initialLetter (tbl : List (Name × Char)) (dflt : Char) (cls : Name) : Char :=
  match tbl.lookup cls with
  | some c => c
  | none => dflt

/-- `re.sub("[^C]", "_", name)` -/
def subst (keep : List Char) (n : Name) : Name := n.map (fun c => if keep.contains c then c else '_')

def maxLen (kw : List Name) : Nat := kw.foldl (fun m k => max m k.length) 0

/-- `while name in keywords: name = f"{name}_"` with fuel -/
def escapeKw (kw : List Name) : Nat → Name → Name
  | 0, n => n
  | f + 1, n => if kw.contains n then escapeKw kw f (n ++ ['_']) else n

/-- the fuel that always suffices: every iteration makes the name longer, keywords are bounded -/
def escapeFuel (kw : List Name) : Nat := maxLen kw + 1

/-- `new = tmp; count = 0; while taken(new): new = f"{tmp}_{count}"; count += 1` with fuel;
    arguments: remaining fuel, `count`, current candidate -/
def fresh (taken : List Name) (tmp : Name) : Nat → Nat → Name → Name
  | 0, _, cur => cur
  | f + 1, count, cur =>
    if taken.contains cur then fresh taken tmp f (count + 1) (tmp ++ '_' :: Nat.toDigits 10 count) else cur

/-- the fuel that always suffices: the candidates are pairwise different, `taken` is finite -/
def freshFuel (taken : List Name) : Nat := taken.length + 1

/-! ### PDDL -/

/-- the keyword set of one writer when the four optional tables are chosen by flags (see `initKeywords` in
    `Core/MangleSelect.lean` for `PDDLWriter.__init__` deciding them from the problem) -/
def pddlKeywords (T : Tables) (plus pddl3 temporal contingent : Bool) : List Name :=
  T.pddlGeneral ++ (if plus then T.pddlPlus else []) ++ (if pddl3 then T.pddl3 else [])
    ++ (if temporal then T.pddlTemporal else []) ++ (if contingent then T.pddlContingent else [])

/-- what a writer knows besides its two maps -/
structure PddlEnv where
  /-- `self.pddl_keywords` -/
  kw : List Name
  /-- "a user type named `object` must be renamed": `problem_kind.has_hierarchical_typing() or len(problem.user_types) > 1` -/
  hier : Bool
  /-- the names `n` with `self.problem.has_name(n)` -/
  names : List Name
  deriving Repr

structure PddlState where
  otn : List (Item × Name) := []
  nto : List (Name × Item) := []
  deriving Repr

/-- `_get_pddl_name(item, pddl_keywords)` -/
def pddlName (T : Tables) (kw : List Name) (it : Item) : Name :=
  let n := it.name.map Char.toLower
  let n := if startsIn T.pddlStart n then n
           else initialLetter T.pddlInitial T.pddlDefault it.cls :: '_' :: n
  let n := subst T.pddlKeep n
  let n := escapeKw kw (escapeFuel kw) n
  if it.isVar then '?' :: n else n

def objectName : Name := ['o', 'b', 'j', 'e', 'c', 't']

/-- the candidate `tmp_name` of `_get_mangled_name` -/
def pddlTmp (T : Tables) (env : PddlEnv) (it : Item) : Name :=
  let tmp := pddlName T env.kw it
  if it.isType && env.hier && tmp == objectName then tmp ++ ['_'] else tmp

/-- `PDDLWriter._get_mangled_name(item)`: the returned name and the updated maps -/
def getMangledName (T : Tables) (env : PddlEnv) (st : PddlState) (it : Item) : Name × PddlState :=
  match st.otn.lookup it with
  | some n => (n, st)
  | none =>
    let tmp := pddlTmp T env it
    let new :=
      if tmp == it.name && !(dictKeys st.nto).contains tmp then tmp
      else
        let taken := env.names ++ dictKeys st.nto
        fresh taken tmp (freshFuel taken) 0 tmp
    (new, { otn := dictSet it new st.otn, nto := dictSet new it st.nto })

/-- the condition of the `assert` in `_get_mangled_name` (proved never to fail, `C38.pddl_assert_holds`) -/
def assertOk (st : PddlState) (new : Name) : Bool :=
  !(dictKeys st.nto).contains new && !(dictValues st.otn).contains new

/-- `get_item_named(name)` (`none` = `UPException`) -/
def getItemNamed (st : PddlState) (n : Name) : Option Item := st.nto.lookup n
/-- `get_pddl_name(item)` (`none` = `UPException`) -/
def getPddlName (st : PddlState) (it : Item) : Option Name := st.otn.lookup it

/-- any sequence of `_get_mangled_name` calls on a new writer -/
def pddlRun (T : Tables) (env : PddlEnv) (calls : List Item) : PddlState :=
  calls.foldl (fun st it => (getMangledName T env st it).2) {}

/-! ### ANML -/

/-- `_is_valid_anml_name(name)` -/
def anmlIsValid (T : Tables) (n : Name) : Bool :=
  (match n with
   | [] => false
   | c :: cs => T.anmlFirst.contains c && cs.all T.anmlRest.contains)
  && !T.anmlKw.contains n

/-- `_get_anml_valid_name(item)` -/
def anmlValidName (T : Tables) (it : Item) : Name :=
  let n := it.name
  let n := if startsIn T.anmlStart n then n
           else initialLetter T.anmlInitial T.anmlDefault it.cls :: '_' :: n
  let n := subst T.anmlKeep n
  escapeKw T.anmlKw (escapeFuel T.anmlKw) n

abbrev AnmlMap := List (Item × Name)

/-- `_get_anml_name(item, names_mapping)` for items that are not numeric types -/
def getAnmlName (T : Tables) (m : AnmlMap) (it : Item) : Name × AnmlMap :=
  match m.lookup it with
  | some n => (n, m)
  | none =>
    let new := anmlValidName T it
    let taken := dictValues m
    let test := fresh taken new (freshFuel taken) 0 new
    (test, dictSet it test m)

def builtinCls : Name := ['b', 'u', 'i', 'l', 't', 'i', 'n']
def boolKey : Item := { cls := builtinCls, name := ['b', 'o', 'o', 'l'], uid := 0 }
def intKey : Item := { cls := builtinCls, name := ['i', 'n', 't'], uid := 0 }
def realKey : Item := { cls := builtinCls, name := ['r', 'e', 'a', 'l'], uid := 0 }
def Item.isBuiltin (it : Item) : Bool := it.cls == builtinCls

/-- the three entries `_write_problem` starts with -/
def anmlBuiltins : AnmlMap :=
  [(boolKey, ['b', 'o', 'o', 'l', 'e', 'a', 'n']), (intKey, ['i', 'n', 't', 'e', 'g', 'e', 'r']),
   (realKey, ['f', 'l', 'o', 'a', 't'])]

/-- one step of the pre-registration loops: a valid name that is still free is kept -/
def anmlKeep (T : Tables) (m : AnmlMap) (it : Item) : AnmlMap :=
  if anmlIsValid T it.name && !(dictValues m).contains it.name then dictSet it it.name m else m

/-- the pre-registration loops over `user_types`, `actions`, `fluents`, `all_objects` (given in that order) -/
def anmlInit (T : Tables) (declared : List Item) : AnmlMap :=
  declared.foldl (anmlKeep T) anmlBuiltins

/-- any sequence of `_get_anml_name` calls after the pre-registration -/
def anmlRun (T : Tables) (declared calls : List Item) : AnmlMap :=
  calls.foldl (fun m it => (getAnmlName T m it).2) (anmlInit T declared)

/-- the part of a problem that `_write_problem` asks names for (no quantified expressions) -/
structure AnmlProblem where
  /-- `user_types` in problem order -/
  types : List Item
  /-- fluents: the fluent, its type, its signature as (parameter, parameter type) -/
  fluents : List (Item × Item × List (Item × Item))
  /-- actions: the action and its parameters as (parameter, parameter type) -/
  actions : List (Item × List (Item × Item))
  /-- `all_objects` as (object, its type) -/
  objects : List (Item × Item)
  deriving Repr

def AnmlProblem.declared (p : AnmlProblem) : List Item :=
  p.types ++ p.actions.map (·.1) ++ p.fluents.map (·.1) ++ p.objects.map (·.1)

/-- the `_get_anml_name` calls of `_write_problem`, in the order they are made -/
def AnmlProblem.calls (p : AnmlProblem) : List Item :=
  let paramCalls (ps : List (Item × Item)) : List Item := ps.flatMap (fun (q : Item × Item) => [q.2, q.1])
  p.types
  ++ p.fluents.flatMap (fun f => paramCalls f.2.2 ++ [f.2.1, f.1])
  ++ p.actions.flatMap (fun a => paramCalls a.2 ++ [a.1])
  ++ p.types.flatMap (fun t =>
      let os := (p.objects.filter (fun o => o.2 == t)).map (·.1)
      if os.isEmpty then [] else os ++ [t])

/-- the final `names_mapping` of `ANMLWriter._write_problem` -/
def anmlWrite (T : Tables) (p : AnmlProblem) : AnmlMap := anmlRun T p.declared p.calls

end UPVerif.Mangle
