import UPVerif.Core.Compile.Common
import UPVerif.Core.Fresh
/-
`Grounder` / `GrounderHelper` (unified_planning/engines/compilers/grounder.py) with `grounding_actions_map = None`,
`prune_actions` both `False` and `True` (the default), instantaneous actions, user-typed parameters.

* `Grounder._compile` (grounder.py:446): the problem is cloned (fluents, objects, initial values, goals, trajectory
  constraints are kept), renamed `grounder_<name>`, its actions are replaced by the non-`None` results of
  `GrounderHelper.get_grounded_actions()` in iteration order, `trace_back_map[new_action] = (old_action, parameters)`;
  the map-back is `lift_action_instance` (utils.py:391): ground action ↦ `ActionInstance(old_action, parameters)`.
  `MinimizeActionCosts` metrics are rewritten by `ground_minimize_action_costs_metric` — OUTSIDE the model (the model
  answers `none` for such a problem); every other metric is kept.
* `get_grounded_actions` (grounder.py:172): `for old_action in problem.actions: for params in get_possible_parameters(old_action)`.
* `get_possible_parameters` (grounder.py:192): no parameters → the empty tuple; otherwise
  `itertools.product(*items_list)` where `items_list[i]` = the objects of the i-th parameter's type
  (`domain_item(problem, type, j) for j in range(domain_size)`; user types: `problem.objects(type)` in order), and, when
  `prune_actions`, `items_list` first goes through `_purge_items_list` with the conditions
  `[c for c in split_all_ands(action.preconditions) if c.is_fluent_exp() and c.fluent().type.is_bool_type()
    and c.fluent() in problem.get_static_fluents()]`.
  So the pruning looks ONLY at the top-level conjuncts of the preconditions AS WRITTEN (nothing is simplified or
  substituted first, negative literals, disjunctions, quantifiers are ignored) that are applications of a Boolean fluent
  which is "static" = not the target fluent of any effect of any action of the problem (`get_static_fluents`,
  problem.py:438 → `_get_static_and_unused_fluents`, problem.py:332; timed effects, events, processes: outside the model).
* `_purge_items_list` (grounder.py:279): for every parameter (by position) and every such condition `f(a₁…aₙ)`: the first
  argument position `sp` with `aₛₚ == ParameterExp(param)` (if any); the objects kept are those in
  `_bool_static_fluent_valid_parameters(f(…), sp)` (grounder.py:311) = `{key.args[sp] | key ↦ TRUE, key.fluent() == f}` over
  `problem.explicit_initial_values` when the default of `f` is FALSE, over `problem.initial_values` (explicit values, then
  every ground fluent expression of `get_all_fluent_exp` that has a value: initial_state.py:98) otherwise.  The OTHER
  arguments of the condition are not looked at.
* `ground_action` (grounder.py:114) → `create_action_with_given_subs` (utils.py:166) is `Sim.ground` (Core/Sim.lean:
  parameter substitution; every effect's target arguments, value and condition simplified; an effect whose condition
  simplifies to FALSE dropped; static conflict check of `_add_effect_instance` → `None`;
  `check_and_simplify_preconditions`: the conjunction of the substituted preconditions simplified, FALSE → `None`,
  TRUE → no preconditions, AND → its arguments, anything else → itself).  Quantifiers, conditional effects, forall effects
  get no treatment of their own: they are substituted and simplified like everything else (a forall effect keeps the
  bound variables that still occur, `Sim.mkEffect`).  The simplifier is `Simplifier(env, problem)` when `prune_actions`
  (it also replaces static fluents on constant arguments by their initial values) and `env.simplifier` otherwise: a
  PARAMETER here (property C11 owns its model).  The cache `_grounded_actions` (keyed by action name and parameters;
  action names are unique in a problem) is not modelled.
* naming (utils.py:197, REPAIRED by notes/patches/C08-*: `used_names`): an action without parameters keeps its name, every
  other instance is named `get_fresh_name(problem, name, [str(o) …], used_names = names of the ground actions created so
  far)` = `Fresh.instName` (Core/Fresh.lean); a `None` instance registers no name.
-/
namespace UPVerif.Compile.Ground
open UPVerif UPVerif.Compile UPVerif.Expr UPVerif.Sim

/-- the result of `Grounder._compile`: the ground problem and `trace_back_map` by position: for every ground action the
    position of the original action and the arguments it was grounded with -/
structure GroundCompiled where
  prob : Problem
  back : List (Nat × List String)
  deriving Repr

/-- `effect.fluent.fluent()` -/
def effTarget? (e : Effect) : Option FluentRef :=
  match e.fluent with
  | .app (.fluent f) _ => some f
  | _ => none

/-- is `f` written by some effect of some action: `static_fluents.discard(e.fluent.fluent())` (problem.py:364) -/
def isWritten (P : Problem) (f : FluentRef) : Bool :=
  P.actions.any (fun a => a.effs.any (fun e => effTarget? e == some f))

/-- `Problem.get_static_fluents()` (problem.py:438) -/
def staticFluents (P : Problem) : List FluentRef :=
  (P.fluents.map (·.ref)).filter (fun f => !isWritten P f)

def isAndNode : Expr → Bool
  | .app .and _ => true
  | _ => false

def andArgs : Expr → List Expr
  | .app .and as => as
  | _ => []

/-- the `while len(start_list) > 0` loop of `split_all_ands` (utils.py:662): per round the non-AND elements go to
    `end_list` in order, the arguments of the AND elements form the next `start_list`.  Fuel: the total size of the list
    strictly decreases per round (`Lemmas/CompileGround.lean: splitAllAnds_fuel`). -/
def splitAllAndsFuel : Nat → List Expr → List Expr
  | 0, _ => []
  | n + 1, l =>
    if l.isEmpty then []
    else l.filter (fun e => !isAndNode e) ++ splitAllAndsFuel n (l.flatMap andArgs)

/-- `split_all_ands(exp_list)` -/
def splitAllAnds (l : List Expr) : List Expr := splitAllAndsFuel (Expr.sizeList l + 1) l

/-- `c.is_fluent_exp() and c.fluent().type.is_bool_type() and c.fluent() in problem_static_fluents` -/
def isBoolStaticCond (P : Problem) : Expr → Bool
  | .app (.fluent f) _ => f.ty == .bool && (staticFluents P).contains f
  | _ => false

/-- `bool_conditions` of `get_possible_parameters` (grounder.py:238-246) -/
def boolStaticConds (P : Problem) (a : Action) : List Expr :=
  (splitAllAnds a.pre).filter (isBoolStaticCond P)

/-- `problem.fluents_defaults.get(f)` -/
def defaultExpr? (P : Problem) (f : FluentRef) : Option Expr :=
  (P.fluents.find? (fun d => d.ref == f)).bind (·.default)

/-- `Problem.initial_value(fluent_exp)` (initial_state.py:75): explicit value, else the fluent's default, else `None` -/
def initialValue? (P : Problem) (fe : Expr) : Option Expr :=
  match P.init.lookup fe with
  | some v => some v
  | none =>
    match fe with
    | .app (.fluent f) _ => defaultExpr? P f
    | _ => none

/-- `Problem.initial_values` (initial_state.py:98) as an association list (only membership is used) -/
def initialValues (P : Problem) : List (Expr × Expr) :=
  P.init ++ P.fluents.flatMap (fun d =>
    (allFluentExps P d.ref).filterMap (fun fe => (initialValue? P fe).map (fun v => (fe, v))))

/-- `_bool_static_fluent_valid_parameters(sf, sp)` (grounder.py:311) as a list used as a set -/
def validParams (P : Problem) (f : FluentRef) (sp : Nat) : List Expr :=
  let src := if (defaultExpr? P f).any Expr.isFalse then P.init else initialValues P
  src.filterMap (fun kv =>
    match kv.1 with
    | .app (.fluent g) as => if g == f && kv.2.isTrue then as[sp]? else none
    | _ => none)

/-- the loop `for i, fp in enumerate(static_fluent.args): if fp == ParameterExp(param): sig_pos = i; break` -/
def sigPos (p : String × Ty) : Expr → Option Nat
  | .app (.fluent _) as =>
    let i := as.findIdx (fun x => x == Expr.leaf (.param p.1 p.2))
    if i < as.length then some i else none
  | _ => none

/-- one condition applied to the candidate objects of one parameter (grounder.py:294-307) -/
def purgeStep (P : Problem) (p : String × Ty) (tmp : List String) (c : Expr) : List String :=
  match c, sigPos p c with
  | .app (.fluent f) _, some sp => tmp.filter (fun o => (validParams P f sp).contains (objExpr P o))
  | _, _ => tmp

/-- `_purge_items_list` (grounder.py:279) -/
def purgeItems (P : Problem) (params : List (String × Ty)) (items : List (List String)) (conds : List Expr) :
    List (List String) :=
  (params.zip items).map (fun pi => conds.foldl (purgeStep P pi.1) pi.2)

/-- `items_list` before pruning -/
def paramDomains (P : Problem) (a : Action) : List (List String) := a.params.map (fun p => tyDomain P p.2)

/-- `GrounderHelper.get_possible_parameters(action)` (grounder.py:192), `grounding_actions_map = None` -/
def possibleParameters (P : Problem) (prune : Bool) (a : Action) : List (List String) :=
  if a.params.isEmpty then [[]]
  else
    let items := paramDomains P a
    cartesian (if prune then purgeItems P a.params items (boolStaticConds P a) else items)

/-- `Problem.has_name` (problem.py:287): actions, fluents, objects, user types -/
def problemNames (P : Problem) : List String :=
  P.actions.map (·.name) ++ P.fluents.map (·.ref.name) ++ P.objects.map (·.1) ++ P.types.fathers.map (·.1)

/-- the simplifier is the only part of the world `create_action_with_given_subs` uses -/
def groundWorld (simp : Expr → Expr) (P : Problem) : World := { P := P, simp := simp, fn := fun _ _ => none }

/-- `GrounderHelper.ground_action` → `create_action_with_given_subs` (utils.py:166) including the name;
    `used` = `_grounded_actions_names`; `.error` = the call raises, `.ok none` = `None` -/
def groundAction (simp : Expr → Expr) (P : Problem) (used : List String) (a : Action) (args : List String) :
    Except EvalErr (Option Action) :=
  match Sim.ground (groundWorld simp P) a args with
  | .error x => .error x
  | .ok none => .ok none
  | .ok (some g) =>
    .ok (some { name := Fresh.instName (problemNames P) used a.name ⟨true, args⟩, params := [],
                pre := g.pre, effs := g.effs })

/-- `get_grounded_actions`: (position of the action, action, parameters) in iteration order -/
def groundInstances (P : Problem) (prune : Bool) : List (Nat × Action × List String) :=
  ((List.range P.actions.length).zip P.actions).flatMap (fun ia =>
    (possibleParameters P prune ia.2).map (fun args => (ia.1, ia.2, args)))

/-- the loop of `Grounder._compile` over `get_grounded_actions()`: the ground actions that are not `None`, with their
    `trace_back_map` entry; `used` = names registered so far -/
def groundLoop (simp : Expr → Expr) (P : Problem) :
    List (Nat × Action × List String) → List String → Except EvalErr (List (Action × Nat × List String))
  | [], _ => .ok []
  | (i, a, args) :: rest, used =>
    match groundAction simp P used a args with
    | .error x => .error x
    | .ok none => groundLoop simp P rest used
    | .ok (some ga) =>
      match groundLoop simp P rest (ga.name :: used) with
      | .error x => .error x
      | .ok out => .ok ((ga, i, args) :: out)

def isUserTy : Ty → Bool
  | .user _ => true
  | _ => false

def isActionCosts : Metric → Bool
  | .minActionCosts _ _ => true
  | _ => false

/-- the fragment of the model: user-typed action parameters, no action-cost metric -/
def groundable (P : Problem) : Bool :=
  P.actions.all (fun a => a.params.all (fun p => isUserTy p.2)) && !P.metrics.any isActionCosts

/-- `Grounder(prune_actions = prune)._compile(problem)`; `none` = outside the fragment, or the real compiler raises
    (`UPUnboundedVariablesError` of `Effect.__init__`) -/
def grounderCompile (simp : Expr → Expr) (prune : Bool) (P : Problem) : Option GroundCompiled :=
  if groundable P then
    match groundLoop simp P (groundInstances P prune) [] with
    | .error _ => none
    | .ok out =>
      some { prob := { P with name := "grounder_" ++ P.name, actions := out.map (·.1) }, back := out.map (·.2) }
  else none

/-- `lift_action_instance` (utils.py:391) by position -/
def groundBack (c : GroundCompiled) : Nat → Option (Nat × List String) := fun i => c.back[i]?

end UPVerif.Compile.Ground
