import UPVerif.Core.Problem
import UPVerif.Core.Sim
import UPVerif.Spec.Successor
/-
Shared definitions of the compiler models (properties C06 / C07).

* States are the maps `GKey → Option Val` that C01's specification produces (`Spec.succGet`), so the
  transition system of a problem is closed under its own steps.
* `succOf` is `Spec.successorOf` (Spec/Successor.lean, the documented successor semantics that C01
  proves `UPSequentialSimulator.apply` computes) re-stated on such a map: `successorOf_eq_succOf` is `rfl`.
* `tsOf W` is the transition system of the PARAMETERLESS actions of a problem: action `i` (its position
  in `problem.actions`) applied in state `g` gives `succOf W g a.pre (expandAll a.effs)`; actions with
  parameters have no transition here (the theorems of C06/C07 are stated for this fragment; instantiation
  of parameters is the Grounder's lemma).  The grounder's own pre-processing of an instance
  (`Sim.ground`: simplification, rejection of statically conflicting instances) is NOT part of this
  semantics — it is the plain documented semantics of the action as written.
* a compilation result is the compiled problem plus, for every compiled action, the position of the
  original action it maps back to (`none` = `map_back_action_instance` returns `None`).
-/
namespace UPVerif.Compile
open UPVerif UPVerif.Expr UPVerif.Sim UPVerif.Spec

abbrev St := GKey → Option Val

def ctxOf (W : World) (g : St) : EvalCtx := { get := g, objs := W.P.objectsOf, fn := W.fn }

/-- `Spec.successorOf` on a state given as a map -/
def succOf (W : World) (g : St) (pre : List Expr) (E : List Effect) : Option St :=
  let c := ctxOf W g
  if preOK c pre then
    match fired c E with
    | none => none
    | some F =>
      if Cons g F ∧ invOK W (ctxOf W (succGet g F)) = true then some (succGet g F) else none
  else none

/-- the effects of an action as the simulator visits them (forall effects expanded) -/
def expandEffs (P : Problem) (effs : List Effect) : List Effect := effs.flatMap (expandEffect P)

/-- one step of a parameterless action -/
def stepAct (W : World) (g : St) (a : Action) : Option St :=
  if a.params.isEmpty then succOf W g a.pre (expandEffs W.P a.effs) else none

def holdsG (W : World) (g : St) (e : Expr) : Bool := isTrueB (evalBool (ctxOf W g) e)

def goalOK (W : World) (g : St) : Bool := W.P.goals.all (holdsG W g)

/-- `_get_initial_state`: the explicit initial values over the defaults, rejected when the invariants
    (bounded types included) do not hold -/
def initOf (W : World) : Option St :=
  match initialState? W.P with
  | none => none
  | some s0 =>
    let g : St := s0.get W.P
    if invOK W (ctxOf W g) = true then some g else none

/-- the result of a compilation: compiled problem + origin of every compiled action -/
structure Compiled where
  prob : Problem
  back : List (Option Nat)
  deriving Repr

/-- `check_and_simplify_preconditions` (engines/compilers/utils.py:106): `none` = simplified to FALSE -/
def simplifyPreWith (simp : Expr → Expr) (pre : List Expr) : Option (List Expr) :=
  if pre.isEmpty then some []
  else
    match simp (mkAnd pre) with
    | .leaf (.boolC b) => if b then some [] else none
    | .app .and as => some as
    | e => some [e]

/-- `Transition.add_precondition` (model/transition.py:170): TRUE is skipped, duplicates are skipped -/
def addPre (pre : List Expr) (e : Expr) : List Expr :=
  if e = Expr.tt then pre else if pre.contains e then pre else pre ++ [e]

/-- `Problem.add_goal` skips TRUE -/
def addGoal (gs : List Expr) (e : Expr) : List Expr := if e = Expr.tt then gs else gs ++ [e]

/-- the split `cond.is_false() → drop | cond.is_and() → its arguments | else [cond]` that the compilers
    apply to a simplified condition before `add_precondition` / `add_goal` -/
def splitAnd (e : Expr) : List Expr :=
  match e with
  | .app .and as => as
  | e => [e]

/-! ### lifted actions (used only to STATE the full properties) -/

/-- the instance of an action for the arguments `args`: parameters replaced by the objects, nothing simplified -/
def instAct (P : Problem) (a : Action) (args : List String) : Action :=
  let σ := paramSubst P a args
  { name := a.name, params := [], pre := a.pre.map (substE σ),
    effs := a.effs.map (fun e =>
      ({ fluent := substE σ e.fluent, value := substE σ e.value, cond := substE σ e.cond, kind := e.kind,
         forall_ := e.forall_ } : Effect)) }

/-- one step of the instance `(a, args)`: the arguments must be objects of the parameter types -/
def stepInst (W : World) (g : St) (a : Action) (args : List String) : Option St :=
  if (instancesOf W.P a).contains args then stepAct W g (instAct W.P a args) else none

end UPVerif.Compile
