import UPVerif.Core.Compile.Common
import UPVerif.Core.Walkers.Nnf
import UPVerif.Core.Fresh
/-
`NegativeConditionsRemover` (unified_planning/engines/compilers/negative_conditions_remover.py), instantaneous
actions, classical fragment (no durative actions, timed effects or timed goals), WITH the repairs of
* notes/patches/C07-ncr-inequality-object-types.patch: in `not (l == r)` over user types each side ranges over
  the objects of ITS OWN type (the code as found took the type of the left operand for both sides, BEFORE swapping
  a constant to the left: `not (s1 == at)` with `s1 : S`, `at : T ⊋ S` lost the disjunct `at == t1`);
* notes/patches/C06-ncr-action-costs.patch: the `MinimizeActionCosts` metric is rebuilt once `new_to_old` is filled
  (as found it was built from the still empty map: every cost was lost).  Metrics do not influence C06/C07.

Function by function:

* `NegativeFluentRemover` (l.48): an `IdentityDagWalker` (children first, LAST child first, `rebuild` through the
  manager) with the mutable dict `_fluent_mapping` (`NMap`, insertion ordered) threaded through every call;
  `walk_not` (l.62) = `nfrNot`: `not f(args)` becomes `nf(args)` for the complementary fluent `nf` of `f`, created
  on first use with the fresh name `not_<f>` (`get_fresh_name` against the ORIGINAL problem and the names handed out
  so far: `Core/Fresh.lean`), the type and the signature of `f`; `not (a == b)` becomes `a > b or a < b` on numbers
  and the disjunction over the pairs of distinct objects on user types (`nfrNotEq`; `UPUsageError` when a side has no
  object); `not (a <= b)` becomes `a > b`, `not (a < b)` becomes `a >= b`; everything else under a `not` raises
  `UPExpressionDefinitionError` (a conjunction / disjunction / iff: "is not NNF" — reachable inside quantifiers and
  trajectory constraints, which `Nnf` does not enter; a quantifier, a Boolean parameter, …: "Unable to remove").
* `remove_negative_fluents` (l.56) = `nfrRemove`: `walk(simplify(nnf(e)))`; `Nnf` is property C12's model
  (`Expr.nnf`, Core/Walkers/Nnf.lean; `C12.nnf_machine_computes` ties it to the explicit stack machine).
* `_compile` (l.266) = `ncrCompile`: first loop over the actions (`ncrAction1`: preconditions in order through
  `add_precondition`, then the conditions of the conditional effects in order, `set_condition`), goals
  (`add_goal`), trajectory constraints (`add_trajectory_constraint`: shape assertion, `simplify()`), quality
  metrics (oversubscription goals go through the walker and therefore extend the mapping); then, with the FINAL
  mapping: fluents (every fluent followed by its complementary fluent; the new problem has NO defaults), initial
  values (`problem.initial_values`: the explicit ones, then every other ground instance that has a default; a
  complementary fluent gets the negated Boolean constant), second loop over the actions (`ncrAction2`: for every
  effect on a fluent with a complementary fluent the mirrored effect `nf(args) := simplify(not v)` with the same
  condition, kind and forall variables, through `Effect.__init__` = `Sim.mkEffect`, appended after the existing
  effects; `check_conflicting_effects` never objects to a Boolean fluent).
* map-back: `replace_action` on `new_to_old`, every compiled action maps back to the action at its position.
* action names are not modelled (compiled actions are identified by position: `get_fresh_name(new_problem, a.name)`
  returns `a.name`, the new problem containing only objects at that point).

The simplifier is a parameter (property C11 owns its model).
-/
namespace UPVerif.Compile
open UPVerif UPVerif.Expr UPVerif.Sim

/-- `NegativeFluentRemover._fluent_mapping`: fluent ↦ complementary fluent, in insertion order -/
abbrev NMap := List (FluentRef × FluentRef)

/-- `Problem.has_name` (problem.py:287): actions, fluents, objects, user types -/
def problemNames (P : Problem) : List String :=
  P.actions.map (·.name) ++ P.fluents.map (·.ref.name) ++ P.objects.map (·.1) ++ P.types.fathers.map (·.1)

/-- run a stateful partial step over a list, left to right -/
def mapAccum {σ α β : Type} (f : σ → α → Option (β × σ)) : σ → List α → Option (List β × σ)
  | s, [] => some ([], s)
  | s, x :: xs =>
    match f s x with
    | none => none
    | some (y, s1) =>
      match mapAccum f s1 xs with
      | none => none
      | some (ys, s2) => some (y :: ys, s2)

/-- `[f(x) for x in l]` where `f` may raise -/
def mapOpt {α β : Type} (f : α → Option β) : List α → Option (List β)
  | [] => some []
  | x :: xs =>
    match f x, mapOpt f xs with
    | some y, some ys => some (y :: ys)
    | _, _ => none

/-- `walk_not`, the fluent case (l.64-91): the complementary fluent of `f`, created on first use.  The branch
    `f in self._fluent_mapping.values()` is kept as written; it is dead on the expressions of the original problem
    (a created fluent has a name the problem does not have). -/
def nfrFluent (P : Problem) (m : NMap) (f : FluentRef) : FluentRef × NMap :=
  match m.lookup f with
  | some nf => (nf, m)
  | none =>
    match m.find? (fun kv => kv.2 == f) with
    | some kv => (kv.1, m ++ [(f, kv.1)])
    | none =>
      let nf : FluentRef :=
        { name := Fresh.getFreshName (problemNames P ++ m.map (·.2.name)) ("not_" ++ f.name), ty := f.ty, sig := f.sig }
      (nf, m ++ [(f, nf)])

/-- `FNode.type` when it is a user type -/
def userTy? : Expr → Option String
  | .leaf (.obj _ t) => some t
  | .leaf (.param _ (.user t)) => some t
  | .leaf (.var ⟨_, .user t⟩) => some t
  | .app (.fluent f) _ => (match f.ty with | .user t => some t | _ => none)
  | .app (.ifun g) _ => (match g.ty with | .user t => some t | _ => none)
  | _ => none

def constObj? : Expr → Option String
  | .leaf (.obj n _) => some n
  | _ => none

/-- `walk_not`, the equality case (l.92-138, repaired: see header); `none` = the walker raises -/
def nfrNotEq (P : Problem) (l0 r0 : Expr) : Option Expr :=
  match userTy? l0 with
  | none => some (mkOr [mkGT l0 r0, mkLT l0 r0])
  | some _ =>
    let l := if r0.isConstant then r0 else l0
    let r := if r0.isConstant then l0 else r0
    let ll : Option (List String) := if l.isConstant then (constObj? l).map (fun o => [o]) else (userTy? l).map P.objectsOf
    match ll, (userTy? r).map P.objectsOf with
    | some ll, some rl =>
      if ll.isEmpty || rl.isEmpty then none
      else if ll.length == 1 && ll == rl then some Expr.ff
      else
        some (mkOr (ll.flatMap (fun lo => rl.filterMap (fun ro =>
          if lo == ro then none
          else if ll.length == 1 then some (mkEq r (objExpr P ro))
          else some (mkAnd [mkEq l (objExpr P lo), mkEq r (objExpr P ro)])))))
    | _, _ => none

/-- `NegativeFluentRemover.walk_not` (l.62) on the walked children; `none` = raises -/
def nfrNot (P : Problem) (m : NMap) : List Expr → Option (Expr × NMap)
  | [.app (.fluent f) as] => some (.app (.fluent (nfrFluent P m f).1) as, (nfrFluent P m f).2)
  | [.app .eq [l, r]] => (nfrNotEq P l r).map (fun e => (e, m))
  | [.app .le [a, b]] => some (mkGT a b, m)
  | [.app .lt [a, b]] => some (mkGE a b, m)
  | _ => none

mutual
/-- `NegativeFluentRemover.walk` -/
def nfrWalk (P : Problem) (m : NMap) : Expr → Option (Expr × NMap)
  | .leaf l => some (.leaf l, m)
  | .app op args =>
    match nfrWalkList P m args with
    | none => none
    | some (args', m') => if op = .not then nfrNot P m' args' else some (rebuild op args', m')
  | .quant q vs b =>
    match nfrWalk P m b with
    | none => none
    | some (b', m') => some (.quant q vs b', m')
/-- the children of one node: the LAST child is walked first (`DagWalker._process_stack`) -/
def nfrWalkList (P : Problem) (m : NMap) : List Expr → Option (List Expr × NMap)
  | [] => some ([], m)
  | e :: es =>
    match nfrWalkList P m es with
    | none => none
    | some (es', m1) =>
      match nfrWalk P m1 e with
      | none => none
      | some (e', m2) => some (e' :: es', m2)
end

/-- `remove_negative_fluents` (l.56) -/
def nfrRemove (simp : Expr → Expr) (P : Problem) (m : NMap) (e : Expr) : Option (Expr × NMap) :=
  nfrWalk P m (simp (nnf true e))

/-- one conditional effect of the first loop: `ce.set_condition(remove_negative_fluents(ce.condition))` -/
def ncrEffCond (simp : Expr → Expr) (P : Problem) (m : NMap) (e : Effect) : Option (Effect × NMap) :=
  if e.isConditional then
    match nfrRemove simp P m e.cond with
    | none => none
    | some (c, m') => some ({ e with cond := c }, m')
  else some (e, m)

/-- the first loop over the actions (l.297-310) -/
def ncrAction1 (simp : Expr → Expr) (P : Problem) (m : NMap) (a : Action) : Option (Action × NMap) :=
  match mapAccum (nfrRemove simp P) m a.pre with
  | none => none
  | some (pres, m1) =>
    match mapAccum (ncrEffCond simp P) m1 a.effs with
    | none => none
    | some (effs, m2) => some ({ a with pre := pres.foldl addPre [], effs := effs }, m2)

/-- the assertion of `add_trajectory_constraint` (problem.py:688) -/
def trajShapeOK (e : Expr) : Bool :=
  let temporal : Expr → Bool := fun x => match x with
    | .app .always _ | .app .sometime _ | .app .sometimeBefore _ | .app .sometimeAfter _ | .app .atMostOnce _ => true
    | _ => false
  match e with
  | .leaf (.boolC _) => true      -- a stored constant (fix 7938d75: `constraint.is_bool_constant()` is accepted)
  | .app .and as => as.all temporal
  | .quant .all _ b => temporal b
  | e => temporal e

/-- one trajectory constraint: `add_trajectory_constraint(remove_negative_fluents(tc))` -/
def ncrTraj (simp : Expr → Expr) (P : Problem) (m : NMap) (tc : Expr) : Option (Expr × NMap) :=
  match nfrRemove simp P m tc with
  | none => none
  | some (tc', m') => if trajShapeOK tc' then some (simp tc', m') else none

/-- a Python dict built from pairs: a repeated key keeps its first position and takes the last value -/
def dictOfPairs {β : Type} : List (Expr × β) → List (Expr × β)
  | [] => []
  | kv :: rest =>
    let d := dictOfPairs rest
    -- built right to left: the head pair comes first unless a later pair has the same key
    match d.lookup kv.1 with
    | some v => (kv.1, v) :: d.filter (fun x => !(x.1 == kv.1))
    | none => kv :: d

/-- one quality metric in the loop l.350: the goals of an `Oversubscription` go through the walker -/
def ncrMetric1 (simp : Expr → Expr) (P : Problem) (m : NMap) (q : Metric) : Option (Metric × NMap) :=
  match q with
  | .oversub goals =>
    match mapAccum (fun m (gw : Expr × Rat) => (nfrRemove simp P m gw.1).map (fun r => ((r.1, gw.2), r.2))) m goals with
    | none => none
    | some (gs, m') => some (.oversub (dictOfPairs gs), m')
  | q => some (q, m)

/-- `updated_minimize_action_costs` (utils.py:613) on the filled `new_to_old` (repaired): every action with a cost
    (explicit or default) is listed, the default is gone -/
def ncrMetric2 (acts : List Action) : Metric → Metric
  | .minActionCosts costs dflt =>
    .minActionCosts (acts.filterMap (fun a => (match costs.lookup a.name with
      | some c => some c
      | none => dflt).map (fun c => (a.name, c)))) none
  | q => q

/-- `Problem.initial_values` (mixins/initial_state.py:98): the explicit values, then every other ground instance
    of every fluent that has a default -/
def ncrInitialValues (P : Problem) : List (Expr × Expr) :=
  P.init ++ P.fluents.flatMap (fun d => (allFluentExps P d.ref).filterMap (fun fe =>
    if (P.init.lookup fe).isSome then none else d.default.map (fun v => (fe, v))))

/-- the initial values of the compiled problem (l.392-405); `none` = an assertion fails -/
def ncrInit (M : NMap) : List (Expr × Expr) → Option (List (Expr × Expr))
  | [] => some []
  | (fl, v) :: rest =>
    match ncrInit M rest with
    | none => none
    | some out =>
      match fl with
      | .app (.fluent f) args =>
        match M.lookup f with
        | none => some ((fl, v) :: out)
        | some nf =>
          match v with
          | .leaf (.boolC b) => some ((fl, v) :: (.app (.fluent nf) args, Expr.bool (!b)) :: out)
          | _ => none
      | _ => none

/-- the mirrored effect of one effect (l.412-427): `some none` = the fluent has no complementary fluent,
    `none` = `Effect.__init__` raises -/
def ncrMirror (simp : Expr → Expr) (M : NMap) (e : Effect) : Option (Option Effect) :=
  match e.fluent with
  | .app (.fluent f) args =>
    match M.lookup f with
    | none => some none
    | some nf =>
      match mkEffect (.app (.fluent nf) args) (simp (mkNot e.value)) e.cond e.kind e.forall_ with
      | none => none
      | some e' => some (some e')
  | _ => none

/-- the second loop over the actions (l.407-431) -/
def ncrAction2 (simp : Expr → Expr) (M : NMap) (a : Action) : Option Action :=
  match mapOpt (ncrMirror simp M) a.effs with
  | none => none
  | some ms => some { a with effs := a.effs ++ ms.filterMap id }

/-- the fluents of the compiled problem (l.386-390): no defaults -/
def ncrFluents (M : NMap) (fl : List FluentDecl) : List FluentDecl :=
  fl.flatMap (fun d => ⟨d.ref, none⟩ :: (match M.lookup d.ref with
    | some nf => [⟨nf, none⟩]
    | none => []))

/-- everything `_compile` computes before the mapping is final: rewritten actions, goals, constraints, metrics -/
structure NcrPass1 where
  acts : List Action
  goals : List Expr
  traj : List Expr
  metrics : List Metric
  map : NMap

def ncrPass1 (simp : Expr → Expr) (P : Problem) : Option NcrPass1 :=
  match mapAccum (ncrAction1 simp P) [] P.actions with
  | none => none
  | some (acts, m1) =>
    match mapAccum (nfrRemove simp P) m1 P.goals with
    | none => none
    | some (goals, m2) =>
      match mapAccum (ncrTraj simp P) m2 P.traj with
      | none => none
      | some (traj, m3) =>
        match mapAccum (ncrMetric1 simp P) m3 P.metrics with
        | none => none
        | some (metrics, M) => some { acts := acts, goals := goals, traj := traj, metrics := metrics, map := M }

/-- `NegativeConditionsRemover._compile`; `none` = the compiler raises -/
def ncrCompile (simp : Expr → Expr) (P : Problem) : Option Compiled :=
  match ncrPass1 simp P with
  | none => none
  | some p1 =>
    match ncrInit p1.map (ncrInitialValues P) with
    | none => none
    | some init =>
      match mapOpt (ncrAction2 simp p1.map) p1.acts with
      | none => none
      | some acts =>
        some { prob :=
                 { name := "ncrm_" ++ P.name, types := P.types, objects := P.objects,
                   fluents := ncrFluents p1.map P.fluents, init := init, actions := acts,
                   goals := p1.goals.foldl addGoal [], traj := p1.traj,
                   metrics := p1.metrics.map (ncrMetric2 acts) },
               back := (List.range P.actions.length).map some }

end UPVerif.Compile
