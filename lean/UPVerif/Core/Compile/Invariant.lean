import UPVerif.Core.Compile.Common
/-
`add_invariant_condition_apply_function_to_problem_expressions` (engines/compilers/utils.py:424) and the
two compilers built on it, classical fragment (instantaneous actions, no timed effects/goals, no metrics):

* `StateInvariantsRemover._compile` (state_invariants_remover.py:84): condition =
  `And(problem.state_invariants).simplify()`, function = identity; afterwards the `Always` trajectory
  constraints are removed (the others stay);
* `BoundedTypesRemover._compile` (bounded_types_remover.py:88): every bounded int/real fluent is replaced by
  an unbounded fluent of the same name and signature (`FluentsSubstituter`), condition = the conjunction
  (NOT simplified) of `lb <= f(ō)` / `f(ō) <= ub` over all ground instances, per instance lower bound first.

The helper adds `function(pre₁) ∧ … ∧ function(preₙ) ∧ condition`, simplified, to every action (an action
whose condition simplifies to FALSE is not added) and `function(goal₁) ∧ … ∧ condition`, simplified, as goals.
The compiled problem's explicit initial values are the original's (extensionally: the real code lists
`problem.initial_values`, i.e. defaults expanded; the correspondence compares the initial STATES).
-/
namespace UPVerif.Compile
open UPVerif UPVerif.Expr UPVerif.Sim

/-- `_apply_function_to_effect` (utils.py:599) through `Effect.__init__` -/
def applyFnEffect (fn : Expr → Expr) (e : Effect) : Option Effect :=
  mkEffect (fn e.fluent) (fn e.value) (fn e.cond) e.kind e.forall_

/-- the per-action part of the helper: `none` = the action is dropped (`continue`);
    `some none` = an effect cannot be rebuilt (the real constructor raises) -/
def invAction (simp : Expr → Expr) (fn : Expr → Expr) (cond : Expr) (a : Action) : Option (Option Action) :=
  let nc := simp (mkAnd (a.pre.map fn ++ [cond]))
  if nc.isFalse then none
  else
    let pre := (splitAnd nc).foldl addPre []
    match a.effs.mapM (applyFnEffect fn) with
    | none => some none
    | some effs => some (some { a with pre := pre, effs := effs })

def invGoals (simp : Expr → Expr) (fn : Expr → Expr) (cond : Expr) (goals : List Expr) : List Expr :=
  (splitAnd (simp (mkAnd (goals.map fn ++ [cond])))).foldl addGoal []

/-- the helper on actions / goals / trajectory constraints; `none` = raises -/
def addInvariantCondition (simp : Expr → Expr) (fn : Expr → Expr) (cond : Expr) (P : Problem) :
    Option (List (Action × Option Nat) × List Expr × List Expr) :=
  let idx := (List.range P.actions.length).zip P.actions
  let acts := idx.filterMap (fun ia => (invAction simp fn cond ia.2).map (fun r => (r, ia.1)))
  if acts.any (fun r => r.1.isNone) then none
  else
    some (acts.filterMap (fun r => r.1.map (fun a => (a, some r.2))),
          invGoals simp fn cond P.goals,
          P.traj.map (fun tc => simp (fn tc)))

/-- the filter of `StateInvariantsRemover._compile` (l.129-141) followed by `add_trajectory_constraint`
    (which simplifies) -/
def sirTraj (simp : Expr → Expr) (traj : List Expr) : List Expr :=
  (traj.flatMap (fun tc => match tc with
    | .app .and as => as.filter (fun a => match a with | .app .always _ => false | _ => true)
    | .quant .all vs b => (match b with | .app .always _ => [] | _ => [.quant .all vs b])
    | .app .always _ => []
    | tc => [tc])).map simp

def sirCompile (simp : Expr → Expr) (P : Problem) : Option Compiled :=
  let cond := simp (mkAnd (stateInvariants P))
  match addInvariantCondition simp id cond P with
  | none => none
  | some (acts, goals, traj) =>
    some { prob := { P with actions := acts.map (·.1), goals := goals, traj := sirTraj simp traj },
           back := acts.map (·.2) }

/-! ### BoundedTypesRemover -/

def unboundTy : Ty → Ty
  | .int _ _ => .int none none
  | .real _ _ => .real none none
  | t => t

def unboundRef (f : FluentRef) : FluentRef := { f with ty := unboundTy f.ty }

mutual
/-- `FluentsSubstituter.substitute_fluents` (an `IdentityDagWalker`: every node is rebuilt through the manager) -/
def retype : Expr → Expr
  | .leaf l => .leaf l
  | .app (.fluent f) args => .app (.fluent (unboundRef f)) (retypeList args)
  | .app op args => rebuild op (retypeList args)
  | .quant q vs b => .quant q vs (retype b)
def retypeList : List Expr → List Expr
  | [] => []
  | e :: es => retype e :: retypeList es
end

/-- `auto_promote` of a `Fraction` bound: an integral fraction becomes an Int constant -/
def ratConst (q : Rat) : Expr := if q.den = 1 then Expr.int q.num else Expr.real q

/-- the bounds of a type as the constants `em.LE(bound, …)` builds -/
def boundConsts : Ty → Option Expr × Option Expr
  | .int lb ub => (lb.map Expr.int, ub.map Expr.int)
  | .real lb ub => (lb.map ratConst, ub.map ratConst)
  | _ => (none, none)

/-- the `conditions` list of `BoundedTypesRemover._compile` (l.108-150) -/
def btrConditions (P : Problem) : List Expr :=
  P.fluents.flatMap (fun d =>
    let (lb, ub) := boundConsts d.ref.ty
    if lb.isNone && ub.isNone then []
    else (allFluentExps P (unboundRef d.ref)).flatMap (fun fe =>
      (match lb with | some l => [mkLE l fe] | none => []) ++
      (match ub with | some u => [mkLE fe u] | none => [])))

def btrCompile (simp : Expr → Expr) (P : Problem) : Option Compiled :=
  let cond := mkAnd (btrConditions P)
  match addInvariantCondition simp retype cond P with
  | none => none
  | some (acts, goals, traj) =>
    some { prob := { P with fluents := P.fluents.map (fun d => { d with ref := unboundRef d.ref }),
                            init := P.init.map (fun kv => (retype kv.1, retype kv.2)),
                            actions := acts.map (·.1), goals := goals, traj := traj },
           back := acts.map (·.2) }

end UPVerif.Compile
