import UPVerif.Core.Compile.Invariant
import UPVerif.Core.Compile.QR
/-
The DECIDABLE hypotheses of the BoundedTypesRemover / QuantifiersRemover theorems (Props/C06BTQR.lean,
Props/C07BTQR.lean) as executable checks, clause by clause, so that the driver can evaluate them on every problem the
correspondence check generates (how much of the generated domain the theorems cover is measured, not guessed; and the
claim "every real FNode is in the expression manager's normal form" is tested on every case).
`Lemmas/CompileHyps.lean` proves that the clauses imply the hypotheses of the theorems.
-/
namespace UPVerif.Compile
open UPVerif UPVerif.Expr UPVerif.Sim

/-! ### manager-normal expressions -/

def isNot : Expr → Bool
  | .app .not [_] => true
  | _ => false

/-- the node `op(args)` is what the expression manager's constructor returns for these arguments
    (`And`/`Or`/`Plus`/`Times` collapse 0/1 arguments, `Not` collapses a double negation) -/
def shapeOK : Op → List Expr → Bool
  | .and, as => decide (2 ≤ as.length)
  | .or, as => decide (2 ≤ as.length)
  | .plus, as => decide (2 ≤ as.length)
  | .times, as => decide (2 ≤ as.length)
  | .not, [x] => !isNot x
  | _, _ => true

mutual
/-- every node of the expression is in the manager's normal form -/
def normal : Expr → Bool
  | .leaf _ => true
  | .app op args => shapeOK op args && normalList args
  | .quant _ _ b => normal b
def normalList : List Expr → Bool
  | [] => true
  | e :: es => normal e && normalList es
end

/-! ### declared fluents -/

/-- the declared fluents of a problem -/
def declared (P : Problem) : List FluentRef := P.fluents.map (·.ref)

mutual
/-- every fluent symbol applied in the expression is one of `D` -/
def refsIn (D : List FluentRef) : Expr → Bool
  | .leaf _ => true
  | .app op args => (match op with | .fluent f => D.contains f | _ => true) && refsInList D args
  | .quant _ _ b => refsIn D b
def refsInList (D : List FluentRef) : List Expr → Bool
  | [] => true
  | e :: es => refsIn D e && refsInList D es
end

/-- all three expressions of an effect use declared fluents only -/
def effRefsIn (D : List FluentRef) (e : Effect) : Bool :=
  refsIn D e.fluent && refsIn D e.value && refsIn D e.cond

/-- the renaming of BoundedTypesRemover is injective on the fluents `D` -/
def Inj (D : List FluentRef) : Prop := ∀ f ∈ D, ∀ f' ∈ D, unboundRef f = unboundRef f' → f = f'

instance (D : List FluentRef) : Decidable (Inj D) := by unfold Inj; infer_instance

/-! ### quantifiers -/

mutual
/-- no quantifier binds the same variable twice (`Exists(x, x). …`) -/
def qNodup : Expr → Bool
  | .leaf _ => true
  | .app _ args => qNodupList args
  | .quant _ vs b => decide vs.Nodup && qNodup b
def qNodupList : List Expr → Bool
  | [] => true
  | e :: es => qNodup e && qNodupList es
end

/-! ### the typed (ADL + numeric) fragment -/

/-- an object constant or a variable bound by an enclosing quantifier -/
def objTerm (B : List Var) : Expr → Bool
  | .leaf (.obj _ _) => true
  | .leaf (.var v) => B.contains v
  | _ => false

def isNumTy : Ty → Bool
  | .int _ _ => true
  | .real _ _ => true
  | _ => false

mutual
/-- numeric terms over the numeric fluents of `D`: constants, fluent applications on objects / bound variables,
    `+`, `-`, `*` (no division: its definedness depends on the state) -/
def nfrag (D : List FluentRef) (B : List Var) : Expr → Bool
  | .leaf (.intC _) => true
  | .leaf (.realC _) => true
  | .leaf _ => false
  | .app op args =>
    match op with
    | .fluent f => D.contains f && isNumTy f.ty && args.all (objTerm B)
    | .plus => nfragList D B args
    | .times => nfragList D B args
    | .minus => args.length == 2 && nfragList D B args
    | _ => false
  | .quant _ _ _ => false
def nfragList (D : List FluentRef) (B : List Var) : List Expr → Bool
  | [] => true
  | e :: es => nfrag D B e && nfragList D B es
end

mutual
/-- Boolean expressions over the fluents `D`, with the variables `B` bound: Boolean constants and fluents, comparisons
    of numeric terms, object equalities, `and / or / not / implies / iff`, quantifiers -/
def bfrag (D : List FluentRef) : List Var → Expr → Bool
  | _, .leaf (.boolC _) => true
  | _, .leaf _ => false
  | B, .app op args =>
    match op with
    | .fluent f => D.contains f && f.ty == .bool && args.all (objTerm B)
    | .and => bfragList D B args
    | .or => bfragList D B args
    | .not => args.length == 1 && bfragList D B args
    | .implies => args.length == 2 && bfragList D B args
    | .iff => args.length == 2 && bfragList D B args
    | .le => args.length == 2 && nfragList D B args
    | .lt => args.length == 2 && nfragList D B args
    | .eq => args.length == 2 && (args.all (objTerm B) || nfragList D B args)
    | _ => false
  | B, .quant _ vs b => bfrag D (vs ++ B) b
def bfragList (D : List FluentRef) : List Var → List Expr → Bool
  | _, [] => true
  | B, e :: es => bfrag D B e && bfragList D B es
end

/-- an explicit initial value of the sort of its fluent -/
def initSorted (fv : Expr × Expr) : Bool :=
  match keyOf? fv.1 with
  | some k => (k.1.ty == .bool && (boolConst? fv.2).isSome) || (isNumTy k.1.ty && (num? fv.2).isSome)
  | none => false

/-- an effect instance with a ground target and a value expression of the target's sort -/
def effSorted (D : List FluentRef) (x : Effect) : Bool :=
  match keyOf? x.fluent with
  | some k => (k.1.ty == .bool && bfrag D [] x.value) || (isNumTy k.1.ty && nfrag D [] x.value)
  | none => false

/-! ### the clauses -/

/-- decidable hypotheses of the BoundedTypesRemover theorems (`BtrOK` without those on the simplifiers) -/
def btrClauses (simp : Expr → Expr) (P : Problem) (c : Compiled) : List (String × Bool) :=
  [ ("distinct-fluents", decide (Inj (declared P))),
    ("pre", decide (∀ a ∈ P.actions, ∀ p ∈ a.pre, normal p = true ∧ refsIn (declared P) p = true)),
    ("effs-normal", decide (∀ a ∈ P.actions, ∀ e ∈ a.effs,
      normal e.fluent = true ∧ normal e.value = true ∧ normal e.cond = true)),
    ("effs-declared", decide (∀ a ∈ P.actions, ∀ e ∈ a.effs, effRefsIn (declared P) e = true)),
    ("effs-wellformed", decide (∀ a ∈ P.actions, ∀ e ∈ a.effs, applyFnEffect id e = some e)),
    ("goals", decide (∀ g ∈ P.goals, normal g = true ∧ refsIn (declared P) g = true)),
    ("init", decide (∀ fv ∈ P.init, normal fv.1 = true ∧ normal fv.2 = true ∧ refsIn (declared P) fv.1 = true)),
    ("always-qfree", decide (∀ si ∈ stateInvariants P, removeQuantifiers P si = si ∧ normal si = true ∧
      refsIn (declared P) si = true)),
    ("always-kept", decide (stateInvariants c.prob = (stateInvariants P).map (fun si => simp (retype si)))),
    ("always-compiled-qfree", decide (∀ si ∈ stateInvariants c.prob, removeQuantifiers c.prob si = si)) ]

/-- decidable hypotheses of the QuantifiersRemover theorems other than strict definedness -/
def qrClauses (P : Problem) (c : Compiled) : List (String × Bool) :=
  [ ("nodup-pre", decide (∀ a ∈ P.actions, ∀ p ∈ a.pre, qNodup p = true)),
    ("nodup-effs", decide (∀ a ∈ P.actions, ∀ x ∈ expandEffs P a.effs, qNodup x.cond = true ∧ qNodup x.value = true)),
    ("nodup-goals", decide (∀ e ∈ P.goals, qNodup e = true)),
    ("no-always", decide (stateInvariants P = [])),
    ("no-always-compiled", decide (stateInvariants c.prob = [])) ]

/-- the typed (ADL + numeric, division-free) problems, for which strict definedness is a theorem -/
def typedClauses (P : Problem) : List (String × Bool) :=
  [ ("typed-fluents", decide (∀ d ∈ P.fluents,
      (d.ref.ty = .bool ∧ (d.default.bind boolConst?).isSome = true) ∨
      (isNumTy d.ref.ty = true ∧ (d.default.bind num?).isSome = true))),
    ("typed-init", decide (∀ fv ∈ P.init, initSorted fv = true)),
    ("typed-pre", decide (∀ a ∈ P.actions, ∀ p ∈ a.pre, bfrag (declared P) [] p = true)),
    ("typed-effs", decide (∀ a ∈ P.actions, ∀ x ∈ expandEffs P a.effs,
      bfrag (declared P) [] x.cond = true ∧ effSorted (declared P) x = true)),
    ("typed-goals", decide (∀ e ∈ P.goals, bfrag (declared P) [] e = true)) ]

/-- the theorems are stated for the parameterless actions of a problem -/
def paramsFree (P : Problem) : Bool := P.actions.all (fun a => a.params.isEmpty)

def failing (cl : List (String × Bool)) : List String := (cl.filter (fun x => !x.2)).map (·.1)

end UPVerif.Compile
