import UPVerif.Core.Expr
import UPVerif.Core.Problem
import UPVerif.Core.Sim
import UPVerif.Core.Fresh
import UPVerif.Core.MAProblem
import UPVerif.Core.Compile.MACond
/-
`MADisjunctiveConditionsRemover._compile` and `_ma_goals_without_disjunctions_adding_new_elements`
(engines/compilers/ma_disjunctive_conditions_remover.py:90-206) with the helpers inherited from
`DisjunctiveConditionsRemover`: `_create_non_disjunctive_actions` and
`_create_new_action_with_given_precond` (disjunctive_conditions_remover.py:367-424, instantaneous
branch).

This is the builder of C37's OWN copy of the per-action DNF split (the single-agent model of
C06/C07 had not landed when this was written).

Parameters: the simplifier `simp` (`FNode.simplify()`, property C11's) and `dnfOf`
(`Dnf.get_dnf_expression`, property C12's; the driver instantiates it with `Expr.dnf simp`).

Mirrors the REPAIRED multi-agent code (notes/patches/C37-ma-dcrm-fake-goal-fluents.patch): the
fluent that stands for a disjunctive shared goal is added to the MA ENVIRONMENT.  The code as found
added it to the agent being processed, while the goal that mentions it is shared and every other
agent's actions reset it: both read, under every other agent, a fluent that does not exist.

Kept as found (shared helpers, owned by C06/C07): an action all of whose effects vanish is dropped
(l.400-401; finding D-C37-effectless-variant); a conditional increase/decrease whose condition has several
DNF disjuncts is split into one effect per disjunct (l.388-393; finding D-C37-overlapping-disjuncts).
-/
namespace UPVerif.MA
open UPVerif UPVerif.Expr UPVerif.Sim

/-- `FNode.is_or()` -/
def isOr : Expr → Bool
  | .app .or _ => true
  | _ => false

/-- the operands of `new_precond` when `new_precond.is_or()`, else the expression itself -/
def disjuncts : Expr → List Expr
  | .app .or ds => ds
  | e => [e]

/-- preconditions of `_create_new_action_with_given_precond` (lines 364-372): `none` = the disjunct
    simplifies to FALSE -/
def splitPre (simp : Expr → Expr) (d : Expr) : Option (List Expr) :=
  let s := simp d
  if s.isFalse then none
  else match s with
    | .app .and as => some (as.foldl addPre [])
    | e => some (addPre [] e)

/-- what `_create_new_action_with_given_precond` (lines 374-387) adds for ONE effect of the original
    action: a conditional effect is replaced by one copy per disjunct of the simplified DNF of its
    condition (nothing when that is FALSE), an unconditional one is kept -/
def splitEffect (simp dnfOf : Expr → Expr) (e : Effect) : List Effect :=
  if e.isConditional then
    match simp (dnfOf e.cond) with
    | .app .or ds => ds.map (fun d => { e with cond := d })
    | c => if c.isFalse then [] else [{ e with cond := c }]
  else [e]

/-- the loop over the effects; every new effect goes through `_add_effect_instance`: `none` =
    `UPConflictingEffectsException` (possible when a condition simplifies to TRUE and the effect
    becomes unconditional) -/
def splitEffects (simp dnfOf : Expr → Expr) : List Effect → StaticAcc → List Effect → Option (List Effect)
  | [], _, out => some out
  | e :: es, acc, out =>
    match staticAdd (splitEffect simp dnfOf e) acc with
    | none => none
    | some acc' => splitEffects simp dnfOf es acc' (out ++ splitEffect simp dnfOf e)

/-- `_create_new_action_with_given_precond(new_problem, precond, original_action, dnf)`:
    outer `none` = exception, inner `none` = Python `None` -/
def newActionWithPrecond (simp dnfOf : Expr → Expr) (effs : List Effect) (d : Expr) : Option (Option Body) :=
  match splitPre simp d with
  | none => some none
  | some pre =>
    match splitEffects simp dnfOf effs ⟨[], []⟩ [] with
    | none => none
    | some E => if E.isEmpty then some none else some (some { pre := pre, effs := E })

/-- `_create_non_disjunctive_actions(action, new_problem, dnf)`, instantaneous branch -/
def disjBodies (simp dnfOf : Expr → Expr) (pre : List Expr) (effs : List Effect) : Option (List Body) :=
  collect ((disjuncts (dnfOf (mkAnd pre))).map (newActionWithPrecond simp dnfOf effs))

/-- all split actions of one agent, in order -/
def disjProtos (simp dnfOf : Expr → Expr) : List Action → Option (List Proto)
  | [] => some []
  | a :: as =>
    match disjBodies simp dnfOf a.pre a.effs, disjProtos simp dnfOf as with
    | some bs, some rest =>
      some (bs.map (fun b => { base := a.name, keepName := false, origin := some a.name, params := a.params, body := b }) ++ rest)
    | _, _ => none

def fakeFluentBase : String := "ma_dcrm_fake_goal"
def fakeActionBase : String := "ma_dcrm_fake_action"

/-- the fluent standing for a disjunctive goal -/
def fakeRef (n : String) : FluentRef := { name := n, ty := .bool, sig := [] }
def fakeExp (n : String) : Expr := mkFluent (fakeRef n) []

/-- `fake_action.add_effect(fake_fluent, True)` -/
def fakeEffect (n : String) : Effect :=
  { fluent := fakeExp n, value := tt, cond := tt, kind := .assign, forall_ := [] }

/-- `Effect(FluentExp(f), FALSE, TRUE)`: what every meaningful action does to a fake fluent -/
def resetEffect (f : FluentRef) : Effect :=
  { fluent := mkFluent f [], value := ff, cond := tt, kind := .assign, forall_ := [] }

/-- state of the goal loop for the agent under construction -/
structure GoalAcc where
  /-- actions of the agent under construction -/
  acts : List CAction
  /-- environment fluents (the fake ones are appended) -/
  env : List FluentDecl
  /-- goals of the new problem -/
  goals : List Expr
  /-- `new_fluents` -/
  fakes : List FluentRef

/-- `_ma_goals_without_disjunctions_adding_new_elements`: the loop `for new_goal in goals`;
    `static env` = names of the problem under construction except the actions of this agent -/
def goalLoop (simp dnfOf : Expr → Expr) (static : List FluentDecl → List String) :
    List Expr → GoalAcc → Option GoalAcc
  | [], st => some st
  | γ :: γs, st =>
    let d := dnfOf (mkAnd [γ])
    if isOr d then
      let names := static st.env ++ st.acts.map (·.act.name)
      let fname := Fresh.getFreshName names fakeFluentBase
      match collect ((disjuncts d).map (newActionWithPrecond simp dnfOf [fakeEffect fname])) with
      | none => none
      | some bodies =>
        let protos : List Proto := bodies.map (fun b =>
          { base := fakeActionBase, keepName := false, origin := none, params := [], body := b })
        let acts := assignNames (static st.env) protos st.acts
        let goal := fakeExp fname
        goalLoop simp dnfOf static γs
          { acts := acts,
            env := st.env ++ [{ ref := fakeRef fname, default := some ff }],
            goals := if st.goals.contains goal then st.goals else st.goals ++ [goal],
            fakes := st.fakes ++ [fakeRef fname] }
    else
      goalLoop simp dnfOf static γs
        { st with goals := if st.goals.contains d || d == tt then st.goals else st.goals ++ [d] }

structure DisjAcc where
  done : List CAgent
  env : List FluentDecl
  goals : List Expr
  fakes : List FluentRef

/-- the loop `for ag in problem.agents` (lines 106-128) -/
def disjAgents (simp dnfOf : Expr → Expr) (agentNames : List String) (goals : List Expr) :
    DisjAcc → List Agent → Option DisjAcc
  | st, [] => some st
  | st, ag :: todo =>
    match disjProtos simp dnfOf ag.actions with
    | none => none
    | some ps =>
      let static := fun env => staticNames agentNames env st.done ag todo
      let acts := assignNames (static st.env) ps []
      match goalLoop simp dnfOf static goals { acts := acts, env := st.env, goals := st.goals, fakes := st.fakes } with
      | none => none
      | some r =>
        disjAgents simp dnfOf agentNames goals
          { done := st.done ++ [{ name := ag.name, fluents := ag.fluents, actions := r.acts }],
            env := r.env, goals := r.goals, fakes := r.fakes } todo

/-- lines 129-148: every meaningful action (one that maps back to an action) resets every fake fluent -/
def addResets (fakes : List FluentRef) (c : CAction) : CAction :=
  match c.origin with
  | none => c
  | some _ => { c with act := { c.act with effs := c.act.effs ++ fakes.map resetEffect } }

/-- `MADisjunctiveConditionsRemover._compile`; `none` = `UPConflictingEffectsException` escapes -/
def compileDisj (simp dnfOf : Expr → Expr) (P : MAProblem) : Option Compiled :=
  (disjAgents simp dnfOf (P.agents.map (·.name)) P.goals
      { done := [], env := P.env, goals := [], fakes := [] } P.agents).map (fun r =>
    { name := "ma_dcrm_" ++ P.name, env := r.env,
      agents := r.done.map (fun a => { a with actions := a.actions.map (addResets r.fakes) }),
      goals := r.goals })

end UPVerif.MA
