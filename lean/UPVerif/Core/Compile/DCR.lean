import UPVerif.Core.Compile.Common
import UPVerif.Core.Compile.CER
import UPVerif.Core.Walkers.Dnf
/-
`DisjunctiveConditionsRemover` (unified_planning/engines/compilers/disjunctive_conditions_remover.py),
instantaneous actions, classical fragment (no timed goals/effects, no metrics), AS FOUND:

* `_create_non_disjunctive_actions` (l.392): DNF of the conjunction of the preconditions, one action per disjunct;
* `_create_new_action_with_given_precond` (l.355): the disjunct is simplified (FALSE: no action; AND: its
  arguments); every conditional effect gets the simplified DNF of its condition and is split into one effect
  per disjunct (finding D-C06b: overlapping disjuncts of an increase/decrease fire more than once); an action
  left without effects is dropped (finding D-C07);
* `_goals_without_disjunctions_adding_new_elements` (l.284): when the DNF of the goals is a disjunction, a
  fresh Boolean fluent `dcrm_fake_goal` (default false) becomes the goal, one action per disjunct (mapping
  back to nothing) sets it, and every other action resets it.

The DNF walker and the simplifier are parameters (`Expr.dnf simp` is C12's model).  Names are not modelled
(compiled actions are identified by position; the fake fluent is called `dcrm_fake_goal`).
-/
namespace UPVerif.Compile
open UPVerif UPVerif.Expr UPVerif.Sim

/-- the effects of `_create_new_action_with_given_precond` before the conflict check -/
def dcrEffects (simp dnfE : Expr → Expr) (effs : List Effect) : List Effect :=
  effs.flatMap (fun e =>
    if e.isConditional then
      let nc := simp (dnfE e.cond)
      match nc with
      | .app .or args => args.map (fun a => { e with cond := a })
      | nc => if nc.isFalse then [] else [{ e with cond := nc }]
    else [e])

/-- `_create_new_action_with_given_precond`: `none` = `UPConflictingEffectsException` escapes,
    `some none` = no action -/
def dcrNewAction (simp dnfE : Expr → Expr) (precond : Expr) (a : Action) : Option (Option Action) :=
  let p := simp precond
  if p.isFalse then some none
  else
    let pre := (splitAnd p).foldl addPre []
    let effs := dcrEffects simp dnfE a.effs
    match staticAll ⟨[], []⟩ effs with
    | none => none
    | some _ => if effs.isEmpty then some none else some (some { a with pre := pre, effs := effs })

def disjuncts (e : Expr) : List Expr :=
  match e with
  | .app .or args => args
  | e => [e]

/-- `_create_non_disjunctive_actions` -/
def dcrActions (simp dnfE : Expr → Expr) (a : Action) : List (Option (Option Action)) :=
  (disjuncts (dnfE (mkAnd a.pre))).map (fun d => dcrNewAction simp dnfE d a)

def fakeFluent : FluentRef := ⟨"dcrm_fake_goal", .bool, []⟩
def fakeAction : Action :=
  { name := "dcrm_fake_action", params := [], pre := [],
    effs := [({ fluent := mkFluent fakeFluent [], value := Expr.tt, cond := Expr.tt, kind := .assign, forall_ := [] } : Effect)] }

/-- `DisjunctiveConditionsRemover._compile`; `none` = the compiler raises -/
def dcrCompile (simp dnfE : Expr → Expr) (P : Problem) : Option Compiled :=
  let idx := (List.range P.actions.length).zip P.actions
  let raw := idx.flatMap (fun ia => (dcrActions simp dnfE ia.2).map (fun r => (r, ia.1)))
  if raw.any (fun r => r.1.isNone) then none
  else
    let meaningful : List (Action × Option Nat) :=
      raw.filterMap (fun r => r.1.join.map (fun a => (a, some r.2)))
    let ng := dnfE (mkAnd P.goals)
    match ng with
    | .app .or args =>
      let fakes := args.map (fun d => dcrNewAction simp dnfE d fakeAction)
      if fakes.any (fun r => r.isNone) then none
      else
        let reset : Effect := { fluent := mkFluent fakeFluent [], value := Expr.ff, cond := Expr.tt, kind := .assign, forall_ := [] }
        let acts := meaningful.map (fun ab => ({ ab.1 with effs := ab.1.effs ++ [reset] }, ab.2)) ++
                    fakes.filterMap (fun r => r.join.map (fun a => (a, none)))
        some { prob := { P with actions := acts.map (·.1), goals := [mkFluent fakeFluent []],
                                fluents := P.fluents ++ [⟨fakeFluent, some Expr.ff⟩] },
               back := acts.map (·.2) }
    | ng =>
      some { prob := { P with actions := meaningful.map (·.1), goals := addGoal [] ng },
             back := meaningful.map (·.2) }

end UPVerif.Compile
