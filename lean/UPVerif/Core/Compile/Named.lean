import UPVerif.Core.Fresh
import UPVerif.Core.WellFormed
import UPVerif.Core.Compile.CER
import UPVerif.Core.Compile.DCR
import UPVerif.Core.Compile.Invariant
import UPVerif.Core.Compile.QR
/-
The NAMES the five modelled compilers give to the actions (and to the one fluent) they create — the part the
models of C06/C07 (`Core/Compile/*.lean`) leave out ("compiled actions are identified by position; property C08
owns the naming").  With it the compiled problem of a model is a complete problem whose well-formedness can be
judged (`Core/WellFormed.lean`) and compared with the real compiled problem name by name.

How the real compilers name things (all through `utils.get_fresh_name(new_problem, name)`, utils.py:343, i.e.
against the problem UNDER CONSTRUCTION: its user types, objects, fluents and the actions added so far):

* ConditionalEffectsRemover (`_compile`, conditional_effects_remover.py:186-196): `new_problem` is a clone whose
  actions were cleared; the unconditional actions are cloned first and KEEP their names; every variant that is
  yielded gets `get_fresh_name(new_problem, action.name)` (l.233) and is added before the next one is named
  (the generator is resumed only after `add_action`); a variant that is not yielded registers nothing.
* DisjunctiveConditionsRemover (`_compile`, l.172-185): actions cleared; EVERY action created by
  `_create_new_action_with_given_precond` is named `get_fresh_name(new_problem, original_action.name)` (l.363);
  for a disjunctive goal (`_goals_without_disjunctions_adding_new_elements`, l.296-318) the fake fluent is named
  `get_fresh_name(new_problem, "dcrm_fake_goal")` BEFORE the fake actions exist, the fake actions are named
  `get_fresh_name(new_problem, "dcrm_fake_action")` one after the other, and only then is the fluent added.
* StateInvariantsRemover / BoundedTypesRemover (`add_invariant_condition_apply_function_to_problem_expressions`,
  utils.py:466): `InstantaneousAction(original_action.name, …)` — names kept.
* QuantifiersRemover (`_compile`, quantifiers_remover.py): `action.clone()` — names kept.
-/
namespace UPVerif.Compile
open UPVerif UPVerif.Expr UPVerif.Sim UPVerif.Fresh UPVerif.WF

/-- the actions in the order the compiler adds them to `new_problem`, each with the flag "named by
    `get_fresh_name`" (`false`: a clone that keeps its name); `cur` = the names `new_problem.has_name` answers for -/
def assignNames : List String → List (Action × Bool) → List Action
  | _, [] => []
  | cur, (a, fresh) :: rest =>
    let n := if fresh then getFreshName cur a.name else a.name
    { a with name := n } :: assignNames (n :: cur) rest

/-- the name set after `assignNames` -/
def namesAfter : List String → List (Action × Bool) → List String
  | cur, [] => cur
  | cur, (a, fresh) :: rest =>
    let n := if fresh then getFreshName cur a.name else a.name
    namesAfter (n :: cur) rest

/-! ### ConditionalEffectsRemover -/

/-- is the compiled action at a position with origin `b` one of the variants (named afresh)? -/
def cerFresh (P : Problem) (b : Option Nat) : Bool :=
  match b with
  | some i => match P.actions[i]? with
    | some a => Action.isConditional a
    | none => false
  | none => false

def cerCompileN (simp : Expr → Expr) (P : Problem) : Option Compiled :=
  match cerCompile simp P with
  | none => none
  | some c =>
    some { prob := { c.prob with actions := assignNames (otherNames P) (c.prob.actions.zip (c.back.map (cerFresh P))) },
           back := c.back }

/-! ### StateInvariantsRemover, BoundedTypesRemover, QuantifiersRemover: names kept -/

def sirCompileN (simp : Expr → Expr) (P : Problem) : Option Compiled := sirCompile simp P
def btrCompileN (simp : Expr → Expr) (P : Problem) : Option Compiled := btrCompile simp P
def qrCompileN (simp : Expr → Expr) (P : Problem) : Option Compiled := qrCompile simp P

/-! ### DisjunctiveConditionsRemover

The fake fluent's NAME is part of expressions of the compiled problem, so the naming cannot be a pass over the
result of `dcrCompile` (whose fake fluent is the constant `fakeFluent`): `dcrCompileN` follows `_compile` with the
names in place (`dcrMeaningful` = the first loop, l.182-185; the disjunctive-goal part = l.296-318 followed by
l.213-229).  It is tied to the real compiler by the differential check of property C08 (compiled problem in C06's
canonical view AND the names, in order). -/

/-- `for a in problem.actions: for na in _create_non_disjunctive_actions(...)`; `none` = the compiler raises -/
def dcrMeaningful (simp dnfE : Expr → Expr) (P : Problem) : Option (List (Action × Option Nat)) :=
  let idx := (List.range P.actions.length).zip P.actions
  let raw := idx.flatMap (fun ia => (dcrActions simp dnfE ia.2).map (fun r => (r, ia.1)))
  if raw.any (fun r => r.1.isNone) then none
  else some (raw.filterMap (fun r => r.1.join.map (fun a => (a, some r.2))))

def fakeActionOf (fake : FluentRef) : Action :=
  { name := "dcrm_fake_action", params := [], pre := [],
    effs := [({ fluent := mkFluent fake [], value := Expr.tt, cond := Expr.tt, kind := .assign, forall_ := [] } : Effect)] }

def resetOf (fake : FluentRef) : Effect :=
  { fluent := mkFluent fake [], value := Expr.ff, cond := Expr.tt, kind := .assign, forall_ := [] }

/-- every meaningful action is named by `get_fresh_name` -/
def dcrFlagged (meaningful : List (Action × Option Nat)) : List (Action × Bool) := meaningful.map (fun ab => (ab.1, true))
/-- the meaningful actions under their names -/
def dcrNamed (P : Problem) (meaningful : List (Action × Option Nat)) : List Action :=
  assignNames (otherNames P) (dcrFlagged meaningful)
/-- the names of `new_problem` once the meaningful actions are added -/
def dcrCur (P : Problem) (meaningful : List (Action × Option Nat)) : List String :=
  namesAfter (otherNames P) (dcrFlagged meaningful)
/-- `Fluent(get_fresh_name(new_problem, "dcrm_fake_goal"))` (l.299) -/
def dcrFake (P : Problem) (meaningful : List (Action × Option Nat)) : FluentRef :=
  ⟨getFreshName (dcrCur P meaningful) "dcrm_fake_goal", .bool, []⟩
/-- the loop over the disjuncts of the goal (l.303-309), before naming -/
def dcrFakes (simp dnfE : Expr → Expr) (fake : FluentRef) (args : List Expr) : List (Option (Option Action)) :=
  args.map (fun d => dcrNewAction simp dnfE d (fakeActionOf fake))

/-- the compiled problem for a disjunctive goal: the meaningful actions reset the fake fluent, the fake actions are
    named against the problem holding the meaningful ones, the fake fluent is declared last -/
def dcrOrResult (P : Problem) (meaningful : List (Action × Option Nat)) (fakeActs : List Action) : Compiled :=
  { prob := { P with
      actions := (dcrNamed P meaningful).map (fun a => { a with effs := a.effs ++ [resetOf (dcrFake P meaningful)] }) ++
                 assignNames (dcrCur P meaningful) (fakeActs.map (fun a => (a, true))),
      goals := [mkFluent (dcrFake P meaningful) []],
      fluents := P.fluents ++ [⟨dcrFake P meaningful, some Expr.ff⟩] },
    back := meaningful.map (·.2) ++ fakeActs.map (fun _ => none) }

def dcrCompileN (simp dnfE : Expr → Expr) (P : Problem) : Option Compiled :=
  match dcrMeaningful simp dnfE P with
  | none => none
  | some meaningful =>
    match dnfE (mkAnd P.goals) with
    | .app .or args =>
      if (dcrFakes simp dnfE (dcrFake P meaningful) args).any (fun r => r.isNone) then none
      else some (dcrOrResult P meaningful ((dcrFakes simp dnfE (dcrFake P meaningful) args).filterMap (fun r => r.join)))
    | ng =>
      some { prob := { P with actions := dcrNamed P meaningful, goals := addGoal [] ng },
             back := meaningful.map (·.2) }

/-! ### pipelines -/

/-- the origin of compiled action `i` of the second stage in the problem the first stage was given -/
def composeBack (back₁ back₂ : List (Option Nat)) : List (Option Nat) :=
  back₂.map (fun b => match b with
    | none => none
    | some j => (back₁[j]?).join)

/-- `CompilersPipeline.compile`: the second compiler runs on the first one's problem; the map-backs compose -/
def pipeCompile (c₁ c₂ : Problem → Option Compiled) (P : Problem) : Option Compiled :=
  match c₁ P with
  | none => none
  | some r₁ =>
    match c₂ r₁.prob with
    | none => none
    | some r₂ => some { prob := r₂.prob, back := composeBack r₁.back r₂.back }

end UPVerif.Compile
