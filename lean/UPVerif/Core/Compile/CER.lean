import UPVerif.Core.Compile.Common
/-
`ConditionalEffectsRemover` (unified_planning/engines/compilers/conditional_effects_remover.py),
instantaneous actions, WITH the repairs of
* notes/patches/C06-cer-conflicting-variant.patch: a combination of fired conditional effects one of which
  statically conflicts with the effects already in the variant is not added to the problem at all (the code as
  found dropped only the conflicting effect and kept the variant: defect D-C06a);
* notes/patches/C06-cer-forall-conditional-effect.patch: a conditional FORALL effect whose condition mentions
  the bound variable (`forall x. when p(x): q(x)`) is replaced by its instances first (the code as found made
  the open condition a precondition and raised `UPUnboundedVariablesError`).

* `_compile` (l.153): the unconditional actions are cloned first, then every conditional action is
  replaced by the variants of `_create_unconditional_actions`; every variant maps back to its action.
* `_create_unconditional_actions` (l.218): for every subset `p` of the positions of the conditional
  effects, in the order of `utils.powerset` (by size, then lexicographic): unconditional effects first,
  then for every conditional effect in order — position in `p`: its condition becomes a precondition and
  the effect is re-created unconditional; otherwise the negated condition becomes a precondition.
  Variants without effects are not yielded (documented pruning; finding D-C07); the preconditions go
  through `check_and_simplify_preconditions`, a variant whose preconditions simplify to FALSE is dropped.
* action names (`get_fresh_name`) are not modelled: compiled actions are identified by position
  (property C08 owns the naming).  Timed effects, durative actions, metrics: outside the fragment.
-/
namespace UPVerif.Compile
open UPVerif UPVerif.Expr UPVerif.Sim

/-- `itertools.combinations(l, r)` -/
def combos {α : Type} : List α → Nat → List (List α)
  | _, 0 => [[]]
  | [], _ + 1 => []
  | x :: xs, r + 1 => (combos xs r).map (x :: ·) ++ combos xs (r + 1)

/-- `unified_planning.utils.powerset(range(n))` -/
def powerset (n : Nat) : List (List Nat) :=
  (List.range (n + 1)).flatMap (fun r => combos (List.range n) r)

/-- `_add_effect_instance` of a list of effects on `(_fluents_assigned, _fluents_inc_dec)` -/
def staticAll : StaticAcc → List Effect → Option StaticAcc
  | acc, [] => some acc
  | acc, e :: es => match staticStep acc e with
    | none => none
    | some acc' => staticAll acc' es

/-- the loop over `enumerate(cond_effects)`; `none` = `UPConflictingEffectsException` (variant skipped) -/
def cerLoop (p : List Nat) : List Effect → Nat → List Expr → List Effect → StaticAcc → Option (List Expr × List Effect)
  | [], _, pre, effs, _ => some (pre, effs)
  | e :: es, i, pre, effs, acc =>
    if p.contains i then
      let ne : Effect := { e with cond := Expr.tt }
      match staticStep acc ne with
      | none => none
      | some acc' => cerLoop p es (i + 1) (addPre pre e.cond) (effs ++ [ne]) acc'
    else cerLoop p es (i + 1) (addPre pre (mkNot e.cond)) effs acc

/-- one iteration of `for p in powerset(...)`: `none` = nothing yielded -/
def cerVariant (simp : Expr → Expr) (a : Action) (p : List Nat) : Option Action :=
  let U := a.effs.filter (fun e => !e.isConditional)
  let C := a.effs.filter (fun e => e.isConditional)
  match staticAll ⟨[], []⟩ U with
  | none => none
  | some acc0 =>
    match cerLoop p C 0 a.pre U acc0 with
    | none => none
    | some (pre, effs) =>
      if effs.isEmpty then none
      else match simplifyPreWith simp pre with
        | none => none
        | some pre' => some { a with pre := pre', effs := effs }

/-- `_create_unconditional_actions` -/
def cerVariants (simp : Expr → Expr) (a : Action) : List Action :=
  (powerset (a.effs.filter (fun e => e.isConditional)).length).filterMap (cerVariant simp a)

def Action.isConditional (a : Action) : Bool := a.effs.any (fun e => e.isConditional)

/-- `_instances_of_conditional_effect`: a conditional forall effect whose condition mentions a bound variable is
    replaced by its instances -/
def cerInstances (P : Problem) (e : Effect) : List Effect :=
  if e.isConditional && !e.forall_.isEmpty && !(freeVars e.cond).isEmpty then expandEffect P e else [e]

/-- the action `_create_unconditional_actions` works on: unconditional effects as they are, conditional ones
    through `cerInstances` -/
def cerExpand (P : Problem) (a : Action) : Action := { a with effs := a.effs.flatMap (cerInstances P) }

/-- `ConditionalEffectsRemover._compile` -/
def cerCompile (simp : Expr → Expr) (P : Problem) : Option Compiled :=
  let idx := (List.range P.actions.length).zip P.actions
  let unc := idx.filter (fun ia => !Action.isConditional ia.2)
  let cnd := idx.filter (fun ia => Action.isConditional ia.2)
  let out := unc.map (fun ia => (ia.2, some ia.1)) ++
             cnd.flatMap (fun ia => (cerVariants simp (cerExpand P ia.2)).map (fun v => (v, some ia.1)))
  some { prob := { P with actions := out.map (·.1) }, back := out.map (·.2) }

end UPVerif.Compile
