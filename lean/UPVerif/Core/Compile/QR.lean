import UPVerif.Core.Compile.Common
import UPVerif.Core.Compile.CER
/-
`QuantifiersRemover` (unified_planning/engines/compilers/quantifiers_remover.py), instantaneous actions,
classical fragment: every precondition, goal and trajectory constraint goes through
`ExpressionQuantifiersRemover.remove_quantifiers` (`Sim.removeQuantifiers`: Exists / Forall replaced by the
disjunction / conjunction of the body's instances over the problem's objects); every effect is replaced by
its instances (`Effect.expand_effect`), whose conditions are quantifier-expanded and simplified and whose
values are quantifier-expanded; an instance whose condition became FALSE is dropped.
-/
namespace UPVerif.Compile
open UPVerif UPVerif.Expr UPVerif.Sim

def qrEffects (simp : Expr → Expr) (P : Problem) (effs : List Effect) : List Effect :=
  (effs.flatMap (expandEffect P)).filterMap (fun x =>
    let c := if x.isConditional then simp (removeQuantifiers P x.cond) else x.cond
    if c.isFalse then none else some { x with cond := c, value := removeQuantifiers P x.value })

/-- `none` = `_add_effect_instance` raises `UPConflictingEffectsException` -/
def qrAction (simp : Expr → Expr) (P : Problem) (a : Action) : Option Action :=
  let effs := qrEffects simp P a.effs
  match staticAll ⟨[], []⟩ effs with
  | none => none
  | some _ => some { a with pre := (a.pre.map (removeQuantifiers P)).foldl addPre [], effs := effs }

def qrCompile (simp : Expr → Expr) (P : Problem) : Option Compiled :=
  match P.actions.mapM (qrAction simp P) with
  | none => none
  | some acts =>
    some { prob := { P with actions := acts,
                            goals := (P.goals.map (removeQuantifiers P)).foldl addGoal [],
                            -- `clear_trajectory_constraints()` (l.184, fix 41342eb), then the expanded ones (l.269-275)
                            traj := (P.traj.flatMap (fun tc => splitAnd (removeQuantifiers P tc))).map simp },
           back := (List.range acts.length).map some }

end UPVerif.Compile
