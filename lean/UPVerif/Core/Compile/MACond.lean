import UPVerif.Core.Expr
import UPVerif.Core.Problem
import UPVerif.Core.Sim
import UPVerif.Core.Fresh
import UPVerif.Core.MAProblem
import UPVerif.Core.Compile.CER
/-
`MAConditionalEffectsRemover._compile` (engines/compilers/ma_conditional_effects_remover.py:75-115)
with the helper it inherits, `ConditionalEffectsRemover._create_unconditional_actions`
(conditional_effects_remover.py:237-295, instantaneous branch) as it is after the repairs d88a7f6
("drops a variant whose fired effects conflict") and eacfe5f (`_instances_of_conditional_effect`,
l.223-235), and what that helper calls:
`powerset` (utils.py:20), `InstantaneousAction.add_precondition` (transition.py:170),
`_add_effect_instance` → `check_conflicting_effects` (effect.py:385; `Sim.staticStep` is its model),
`check_and_simplify_preconditions` (compilers/utils.py:106), `get_fresh_name` (utils.py:343;
`Fresh.getFreshName`).

This is the builder of C37's OWN copy of the per-action powerset split (the single-agent model of
C06/C07, `Core/Compile/CER.lean`, mirrors the same repaired helper for `Problem`s; the two are proved
to yield the same variants in `Props/C37Fix.lean`).

The simplifier is a PARAMETER (`simp`, property C11's).  When adding the unconditional copy of a
selected conditional effect raises `UPConflictingEffectsException` the code sets
`conflicting_effects`, leaves the loop (`break`, l.275-277) and yields nothing for this subset
(`continue`, l.283-284): the WHOLE variant is dropped.  (Before d88a7f6 only the conflicting effect
was dropped and the variant kept — the former finding D-C37-conflicting-variant.)

`_instances_of_conditional_effect` (l.223-235): a conditional FORALL effect whose condition mentions a
variable is replaced by its instances over the objects of the (multi-agent) problem before the subsets
are enumerated.  This is the same code the single-agent compiler runs and its model is SHARED:
`Compile.cerInstances` / `Compile.cerExpand` (`Core/Compile/CER.lean`, with `Sim.expandEffect` = the model
of `Effect.expand_effect`), applied to `MAProblem.objProblem` (the objects of the multi-agent problem).
The per-action machinery below (`condBodies` …) works on the action AFTER that step.
-/
namespace UPVerif.MA
open UPVerif UPVerif.Expr UPVerif.Sim

/-- body of a compiled action before it is given a name -/
structure Body where
  pre : List Expr
  effs : List Effect
  deriving Repr, Inhabited, DecidableEq

/-- `add_precondition` (transition.py:188-198): TRUE is not stored, a duplicate is not stored -/
def addPre (pre : List Expr) (e : Expr) : List Expr :=
  if e = tt then pre else if pre.contains e then pre else pre ++ [e]

/-- how `check_and_simplify_preconditions` (utils.py:129-137) reads the simplified conjunction back:
    FALSE = infeasible (`none`), TRUE = no precondition, an AND = its operands, else the expression -/
def readBack : Expr → Option (List Expr)
  | .leaf (.boolC b) => if b then some [] else none
  | .app .and as => some as
  | e => some [e]

/-- `check_and_simplify_preconditions` (utils.py:106): `none` = simplified to FALSE -/
def simplifyPre (simp : Expr → Expr) (pre : List Expr) : Option (List Expr) :=
  if pre.isEmpty then some [] else readBack (simp (mkAnd pre))

/-- `itertools.combinations(l, r)` -/
def combinations {α : Type} : List α → Nat → List (List α)
  | _, 0 => [[]]
  | [], _ + 1 => []
  | x :: xs, r + 1 => (combinations xs r).map (x :: ·) ++ combinations xs (r + 1)

/-- `powerset(l)` (utils.py:20): `chain.from_iterable(combinations(l, r) for r in range(len(l)+1))` -/
def powerset {α : Type} (l : List α) : List (List α) :=
  (List.range (l.length + 1)).flatMap (combinations l)

/-- the bookkeeping `_fluents_assigned` / `_fluents_inc_dec` after re-adding effects one by one;
    `none` = `UPConflictingEffectsException` -/
def staticAdd : List Effect → StaticAcc → Option StaticAcc
  | [], acc => some acc
  | e :: es, acc =>
    match staticStep acc e with
    | none => none
    | some acc' => staticAdd es acc'

/-- the unconditional copy `Effect(e.fluent, e.value, TRUE, e.kind, e.forall)` -/
def uncond (e : Effect) : Effect := { e with cond := tt }

/-- the loop `for i, e in enumerate(cond_effects)` (conditional_effects_remover.py:259-282) for the
    subset `p`; `none` = `conflicting_effects` (l.276: the loop is left, l.283-284: nothing is yielded) -/
def variantLoop (p : List Nat) :
    List (Nat × Effect) → List Expr → StaticAcc → List Effect → Option (List Expr × List Effect)
  | [], pre, _, effs => some (pre, effs)
  | (i, e) :: rest, pre, acc, effs =>
    if p.contains i then
      let pre' := addPre pre e.cond
      match staticStep acc (uncond e) with
      | some acc' => variantLoop p rest pre' acc' (effs ++ [uncond e])
      | none => none
    else variantLoop p rest (addPre pre (mkNot e.cond)) acc effs

/-- `enumerate` -/
def enumFrom {α : Type} : Nat → List α → List (Nat × α)
  | _, [] => []
  | n, x :: xs => (n, x) :: enumFrom (n + 1) xs

/-- `cond_effects` (l.249-251) of an action whose conditional effects have already been through
    `_instances_of_conditional_effect` (`Compile.cerExpand`); `action.conditional_effects` keeps the order -/
def condEffects (a : Action) : List Effect := a.effs.filter (·.isConditional)
def uncondEffects (a : Action) : List Effect := a.effs.filter (fun e => !e.isConditional)

/-- one iteration of `for p in powerset(range(len(cond_effects)))`: outer `none` = an unconditional
    effect of the action itself is rejected when re-added (impossible for an action the library
    accepted; the exception would escape from `compile`), inner `none` = no action is yielded -/
def condVariant (simp : Expr → Expr) (a : Action) (p : List Nat) : Option (Option Body) :=
  match staticAdd (uncondEffects a) ⟨[], []⟩ with
  | none => none
  | some acc0 =>
    match variantLoop p (enumFrom 0 (condEffects a)) a.pre acc0 (uncondEffects a) with
    | none => some none
    | some (pre, effs) =>
      if effs.isEmpty then some none
      else match simplifyPre simp pre with
        | none => some none
        | some pre' => some (some { pre := pre', effs := effs })

/-- sequencing of the iterations: the first escaping exception aborts, yielded bodies are collected
    in order -/
def collect {α : Type} : List (Option (Option α)) → Option (List α)
  | [] => some []
  | none :: _ => none
  | some none :: rest => collect rest
  | some (some b) :: rest => (collect rest).map (b :: ·)

/-- `_create_unconditional_actions(action, new_problem)`: the yielded bodies, in order -/
def condBodies (simp : Expr → Expr) (a : Action) : Option (List Body) :=
  collect ((powerset (List.range (condEffects a).length)).map (condVariant simp a))

/-- an action about to be added to the agent under construction -/
structure Proto where
  base : String
  /-- `true` = keeps `base` as its name (a cloned action); `false` = `get_fresh_name(new_problem, base)` -/
  keepName : Bool
  origin : Option String
  params : List (String × Ty)
  body : Body
  deriving Repr, Inhabited

/-- the actions of the compiled agent in the order they are added: clones of the unconditional
    actions first, then the variants of every conditional action (its conditional forall effects expanded
    over the objects `O` of the problem where their condition mentions a variable) -/
def condProtos (O : Problem) (simp : Expr → Expr) (ag : Agent) : Option (List Proto) :=
  let unc : List Proto := (ag.actions.filter (fun a => !Action.isConditional a)).map (fun a =>
    { base := a.name, keepName := true, origin := some a.name, params := a.params, body := ⟨a.pre, a.effs⟩ })
  let rec go : List Action → Option (List Proto)
    | [] => some []
    | a :: as =>
      match condBodies simp (Compile.cerExpand O a), go as with
      | some bs, some rest =>
        some (bs.map (fun b => { base := a.name, keepName := false, origin := some a.name, params := a.params, body := b }) ++ rest)
      | _, _ => none
  (go (ag.actions.filter Action.isConditional)).map (unc ++ ·)

/-- one action gets its name: a clone keeps it, anything else asks `get_fresh_name` against the names
    of the problem under construction (`static`: everything but the actions of the agent being
    rebuilt) and the actions already added to this agent (`acc`) -/
def nameProto (static : List String) (acc : List CAction) (p : Proto) : CAction :=
  { act := { name := if p.keepName then p.base else Fresh.getFreshName (static ++ acc.map (·.act.name)) p.base,
             params := p.params, pre := p.body.pre, effs := p.body.effs },
    origin := p.origin }

/-- naming: every action is added to the agent as soon as it is created, so each fresh name is
    chosen with the previous ones already in place -/
def assignNames (static : List String) : List Proto → List CAction → List CAction
  | [], acc => acc
  | p :: ps, acc => assignNames static ps (acc ++ [nameProto static acc p])

/-- names `MultiAgentProblem.has_name` answers for, apart from the actions of the agent under
    construction: agents, environment fluents, the agents already rebuilt, the agents not yet touched
    (they still carry their original actions), and the fluents of the agent itself -/
def staticNames (agentNames : List String) (env : List FluentDecl) (done : List CAgent) (cur : Agent)
    (todo : List Agent) : List String :=
  agentNames ++ env.map (·.ref.name) ++ done.flatMap CAgent.names ++ cur.fluents.map (·.ref.name) ++
    todo.flatMap Agent.names

/-- the loop `for ag in problem.agents` -/
def condAgents (O : Problem) (simp : Expr → Expr) (agentNames : List String) (env : List FluentDecl) :
    List CAgent → List Agent → Option (List CAgent)
  | done, [] => some done
  | done, ag :: todo =>
    match condProtos O simp ag with
    | none => none
    | some ps =>
      let acts := assignNames (staticNames agentNames env done ag todo) ps []
      condAgents O simp agentNames env (done ++ [{ name := ag.name, fluents := ag.fluents, actions := acts }]) todo

/-- `MAConditionalEffectsRemover._compile`; `none` = `UPConflictingEffectsException` escapes -/
def compileCond (simp : Expr → Expr) (P : MAProblem) : Option Compiled :=
  (condAgents P.objProblem simp (P.agents.map (·.name)) P.env [] P.agents).map (fun ags =>
    { name := "ma_cerm_" ++ P.name, env := P.env, agents := ags, goals := P.goals })

end UPVerif.MA
