import UPVerif.Core.Expr
import UPVerif.Core.Problem
import UPVerif.Core.Sim
import UPVerif.Core.Fresh
import UPVerif.Core.MAProblem
/-
`MAConditionalEffectsRemover._compile` (engines/compilers/ma_conditional_effects_remover.py:75-115)
with the helper it inherits, `ConditionalEffectsRemover._create_unconditional_actions`
(conditional_effects_remover.py:218-269, instantaneous branch), and what that helper calls:
`powerset` (utils.py:20), `InstantaneousAction.add_precondition` (transition.py:170),
`_add_effect_instance` → `check_conflicting_effects` (effect.py:385; `Sim.staticStep` is its model),
`check_and_simplify_preconditions` (compilers/utils.py:106), `get_fresh_name` (utils.py:343;
`Fresh.getFreshName`).

This is the builder of C37's OWN copy of the per-action powerset split (the single-agent model of
C06/C07 had not landed when this was written).

The simplifier is a PARAMETER (`simp`, property C11's).  What the code does when adding the
unconditional copy of a selected conditional effect raises `UPConflictingEffectsException` is a
two-valued switch: `asFound` = the `continue` of the code as found (the variant is kept WITHOUT the
conflicting effect: defect D-C06a, owned by C06/C07), `repaired` = the whole variant is skipped.
-/
namespace UPVerif.MA
open UPVerif UPVerif.Expr UPVerif.Sim

/-- body of a compiled action before it is given a name -/
structure Body where
  pre : List Expr
  effs : List Effect
  deriving Repr, Inhabited, DecidableEq

/-- `add_precondition` (transition.py:188-198): TRUE is not stored, a duplicate is not stored -/
def addPre (pre : List Expr) (e : Expr) : List Expr :=
  if e = tt then pre else if pre.contains e then pre else pre ++ [e]

/-- how `check_and_simplify_preconditions` (utils.py:129-137) reads the simplified conjunction back:
    FALSE = infeasible (`none`), TRUE = no precondition, an AND = its operands, else the expression -/
def readBack : Expr → Option (List Expr)
  | .leaf (.boolC b) => if b then some [] else none
  | .app .and as => some as
  | e => some [e]

/-- `check_and_simplify_preconditions` (utils.py:106): `none` = simplified to FALSE -/
def simplifyPre (simp : Expr → Expr) (pre : List Expr) : Option (List Expr) :=
  if pre.isEmpty then some [] else readBack (simp (mkAnd pre))

/-- `itertools.combinations(l, r)` -/
def combinations {α : Type} : List α → Nat → List (List α)
  | _, 0 => [[]]
  | [], _ + 1 => []
  | x :: xs, r + 1 => (combinations xs r).map (x :: ·) ++ combinations xs (r + 1)

/-- `powerset(l)` (utils.py:20): `chain.from_iterable(combinations(l, r) for r in range(len(l)+1))` -/
def powerset {α : Type} (l : List α) : List (List α) :=
  (List.range (l.length + 1)).flatMap (combinations l)

inductive ConflictMode where
  | asFound | repaired
  deriving DecidableEq, Repr

/-- the bookkeeping `_fluents_assigned` / `_fluents_inc_dec` after re-adding effects one by one;
    `none` = `UPConflictingEffectsException` -/
def staticAdd : List Effect → StaticAcc → Option StaticAcc
  | [], acc => some acc
  | e :: es, acc =>
    match staticStep acc e with
    | none => none
    | some acc' => staticAdd es acc'

/-- the unconditional copy `Effect(e.fluent, e.value, TRUE, e.kind, e.forall)` -/
def uncond (e : Effect) : Effect := { e with cond := tt }

/-- the loop `for i, e in enumerate(cond_effects)` (conditional_effects_remover.py:237-258) for the
    subset `p`; `none` = the variant is abandoned (mode `repaired` only) -/
def variantLoop (mode : ConflictMode) (p : List Nat) :
    List (Nat × Effect) → List Expr → StaticAcc → List Effect → Option (List Expr × List Effect)
  | [], pre, _, effs => some (pre, effs)
  | (i, e) :: rest, pre, acc, effs =>
    if p.contains i then
      let pre' := addPre pre e.cond
      match staticStep acc (uncond e) with
      | some acc' => variantLoop mode p rest pre' acc' (effs ++ [uncond e])
      | none =>
        match mode with
        | .asFound => variantLoop mode p rest pre' acc effs
        | .repaired => none
    else variantLoop mode p rest (addPre pre (mkNot e.cond)) acc effs

/-- `enumerate` -/
def enumFrom {α : Type} : Nat → List α → List (Nat × α)
  | _, [] => []
  | n, x :: xs => (n, x) :: enumFrom (n + 1) xs

def condEffects (a : Action) : List Effect := a.effs.filter (·.isConditional)
def uncondEffects (a : Action) : List Effect := a.effs.filter (fun e => !e.isConditional)

/-- one iteration of `for p in powerset(range(len(cond_effects)))`: outer `none` = an unconditional
    effect of the action itself is rejected when re-added (impossible for an action the library
    accepted; the exception would escape from `compile`), inner `none` = no action is yielded -/
def condVariant (mode : ConflictMode) (simp : Expr → Expr) (a : Action) (p : List Nat) : Option (Option Body) :=
  match staticAdd (uncondEffects a) ⟨[], []⟩ with
  | none => none
  | some acc0 =>
    match variantLoop mode p (enumFrom 0 (condEffects a)) a.pre acc0 (uncondEffects a) with
    | none => some none
    | some (pre, effs) =>
      if effs.isEmpty then some none
      else match simplifyPre simp pre with
        | none => some none
        | some pre' => some (some { pre := pre', effs := effs })

/-- sequencing of the iterations: the first escaping exception aborts, yielded bodies are collected
    in order -/
def collect {α : Type} : List (Option (Option α)) → Option (List α)
  | [] => some []
  | none :: _ => none
  | some none :: rest => collect rest
  | some (some b) :: rest => (collect rest).map (b :: ·)

/-- `_create_unconditional_actions(action, new_problem)`: the yielded bodies, in order -/
def condBodies (mode : ConflictMode) (simp : Expr → Expr) (a : Action) : Option (List Body) :=
  collect ((powerset (List.range (condEffects a).length)).map (condVariant mode simp a))

/-- an action about to be added to the agent under construction -/
structure Proto where
  base : String
  /-- `true` = keeps `base` as its name (a cloned action); `false` = `get_fresh_name(new_problem, base)` -/
  keepName : Bool
  origin : Option String
  params : List (String × Ty)
  body : Body
  deriving Repr, Inhabited

/-- the actions of the compiled agent in the order they are added: clones of the unconditional
    actions first, then the variants of every conditional action -/
def condProtos (mode : ConflictMode) (simp : Expr → Expr) (ag : Agent) : Option (List Proto) :=
  let unc : List Proto := (ag.actions.filter (fun a => !Action.isConditional a)).map (fun a =>
    { base := a.name, keepName := true, origin := some a.name, params := a.params, body := ⟨a.pre, a.effs⟩ })
  let rec go : List Action → Option (List Proto)
    | [] => some []
    | a :: as =>
      match condBodies mode simp a, go as with
      | some bs, some rest =>
        some (bs.map (fun b => { base := a.name, keepName := false, origin := some a.name, params := a.params, body := b }) ++ rest)
      | _, _ => none
  (go (ag.actions.filter Action.isConditional)).map (unc ++ ·)

/-- one action gets its name: a clone keeps it, anything else asks `get_fresh_name` against the names
    of the problem under construction (`static`: everything but the actions of the agent being
    rebuilt) and the actions already added to this agent (`acc`) -/
def nameProto (static : List String) (acc : List CAction) (p : Proto) : CAction :=
  { act := { name := if p.keepName then p.base else Fresh.getFreshName (static ++ acc.map (·.act.name)) p.base,
             params := p.params, pre := p.body.pre, effs := p.body.effs },
    origin := p.origin }

/-- naming: every action is added to the agent as soon as it is created, so each fresh name is
    chosen with the previous ones already in place -/
def assignNames (static : List String) : List Proto → List CAction → List CAction
  | [], acc => acc
  | p :: ps, acc => assignNames static ps (acc ++ [nameProto static acc p])

/-- names `MultiAgentProblem.has_name` answers for, apart from the actions of the agent under
    construction: agents, environment fluents, the agents already rebuilt, the agents not yet touched
    (they still carry their original actions), and the fluents of the agent itself -/
def staticNames (agentNames : List String) (env : List FluentDecl) (done : List CAgent) (cur : Agent)
    (todo : List Agent) : List String :=
  agentNames ++ env.map (·.ref.name) ++ done.flatMap CAgent.names ++ cur.fluents.map (·.ref.name) ++
    todo.flatMap Agent.names

/-- the loop `for ag in problem.agents` -/
def condAgents (mode : ConflictMode) (simp : Expr → Expr) (agentNames : List String) (env : List FluentDecl) :
    List CAgent → List Agent → Option (List CAgent)
  | done, [] => some done
  | done, ag :: todo =>
    match condProtos mode simp ag with
    | none => none
    | some ps =>
      let acts := assignNames (staticNames agentNames env done ag todo) ps []
      condAgents mode simp agentNames env (done ++ [{ name := ag.name, fluents := ag.fluents, actions := acts }]) todo

/-- `MAConditionalEffectsRemover._compile`; `none` = `UPConflictingEffectsException` escapes -/
def compileCond (mode : ConflictMode) (simp : Expr → Expr) (P : MAProblem) : Option Compiled :=
  (condAgents mode simp (P.agents.map (·.name)) P.env [] P.agents).map (fun ags =>
    { name := "ma_cerm_" ++ P.name, env := P.env, agents := ags, goals := P.goals })

end UPVerif.MA
