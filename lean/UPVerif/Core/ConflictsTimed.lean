import UPVerif.Core.Conflicts
/-
Model of HOW THE TIME POINT OF AN INSERTION IS DENOTED AND LOOKED UP in the effect-conflict
bookkeeping of the containers with several time points:

* `unified_planning/model/timing.py`      `Timepoint` (l.47), `Timing` (l.115), `Timing.__add__` (l.145),
                                           `Timing.from_time` (l.183): number -> `GlobalStartTiming() + number`,
                                           `Timepoint` -> `Timing(0, timepoint)`, `Timing` -> itself
* `unified_planning/model/mixins/timed_conds_effs.py` `_add_effect_instance` (l.348): canonicalises the time
                                           expression FIRST and then reads/writes FOUR dictionaries under that one key
                                           (`_fluents_assigned`, `_fluents_inc_dec`, `_simulated_effects`, `_effects`);
                                           `set_simulated_effect` (l.377, argument typed `Timing`, no canonicalisation)
                                           (DurativeAction, scheduling Chronicle / Activity, SchedulingProblem._base)
* `unified_planning/model/problem.py`     `_add_effect_instance` (l.626, argument typed `Timing`, no
                                           canonicalisation, never a simulated effect)

`Core/Conflicts.lean` keys its `Store` by an opaque name of the time point, i.e. it ASSUMES that every access
uses the canonical key.  Here the dictionaries are keyed by the RAW Python object handed in (a `Timing`, a
`Timepoint` or a number are three different kinds of dictionary key that never compare equal), so an access
that forgets to canonicalise — the seeded change C24-2 looked the simulated effect up under the raw time
expression — is a different function (`addEffectInstanceRawSimLookup` below, refuted in Props/C24Timed).

Delays are Python `int`/`Fraction` after `uniform_numeric_constant` (expression.py:59); `int`, `Fraction`
and `float` compare and hash by numeric value, so a delay is a `Rat` (modelled, not verified).
-/
namespace UPVerif.Conflicts

/-- `TimepointKind` (timing.py:30) -/
inductive TPKind where
  | globalStart | globalEnd | start | «end»
  deriving DecidableEq, Repr

/-- `Timepoint` (timing.py:47): `__eq__` compares kind and container -/
structure Timepoint where
  kind : TPKind
  container : Option String
  deriving DecidableEq, Repr

/-- `Timing` (timing.py:115): `__eq__` compares delay and timepoint -/
structure Timing where
  delay : Rat
  timepoint : Timepoint
  deriving DecidableEq, Repr

/-- `Timing.__add__` (timing.py:145) -/
def Timing.add (t : Timing) (d : Rat) : Timing := ⟨t.delay + d, t.timepoint⟩

/-- `GlobalStartTiming()` (timing.py:233) with the default delay 0 -/
def globalStartTiming : Timing := ⟨0, ⟨.globalStart, none⟩⟩

/-- a `TimeExpression` (expression.py:45) = any object accepted where a time is expected; also the key
    type of the Python dictionaries (objects of different classes are never equal) -/
inductive TimeExpr where
  | timing (t : Timing)
  | timepoint (p : Timepoint)
  | num (q : Rat)
  deriving DecidableEq, Repr

/-- `Timing.from_time` (timing.py:183) -/
def Timing.fromTime : TimeExpr → Timing
  | .num q => globalStartTiming.add q
  | .timepoint p => ⟨0, p⟩
  | .timing t => t

def TimeExpr.isTiming : TimeExpr → Bool
  | .timing _ => true
  | _ => false

/-- the four dictionaries of a `TimedCondsEffs` object (for a `Problem`: `_timed_effects`, no simulated
    effects, `_fluents_assigned`, `_fluents_inc_dec`); a missing key reads as the empty entry
    (`setdefault` / `get(key, empty)`) -/
structure Tables where
  effects : TimeExpr → List Eff
  sims : TimeExpr → Option (List String)
  assigned : TimeExpr → List (String × Val)
  incDec : TimeExpr → List String

def Tables.empty : Tables := ⟨fun _ => [], fun _ => none, fun _ => [], fun _ => []⟩

/-- `d[k] = v` -/
def upd {α : Type} (f : TimeExpr → α) (k : TimeExpr) (v : α) : TimeExpr → α :=
  fun u => if u = k then v else f u

/-- `TimedCondsEffs._add_effect_instance` (timed_conds_effs.py:348): `timing = Timing.from_time(timing)`, then
    every dictionary is accessed under `timing`; the check mutates the two bookkeeping entries in place
    (also when it raises); only if it did not raise the effect is appended. -/
def Tables.addEffectInstance (tb : Tables) (time : TimeExpr) (e : Eff) : Tables × Bool :=
  let timing := TimeExpr.timing (Timing.fromTime time)
  let r := checkConflictingEffects e (tb.sims timing) ⟨tb.assigned timing, tb.incDec timing⟩
  let tb' := { tb with assigned := upd tb.assigned timing r.1.assigned,
                       incDec := upd tb.incDec timing r.1.incDec }
  if r.2 then (tb', true)
  else ({ tb' with effects := upd tb.effects timing (tb.effects timing ++ [e]) }, false)

/-- `TimedCondsEffs.set_simulated_effect` (timed_conds_effs.py:377): the argument is a `Timing` and is used as
    the key as it is. -/
def Tables.setSimulatedEffect (tb : Tables) (timing : Timing) (fl : List String) : Tables × Bool :=
  let k := TimeExpr.timing timing
  if checkConflictingSimulated fl ⟨tb.assigned k, tb.incDec k⟩ then (tb, true)
  else ({ tb with sims := upd tb.sims k (some fl) }, false)

/-- `Problem._add_effect_instance` (problem.py:626): the argument is a `Timing` used as the key as it is;
    the simulated effect handed to the check is `None`. -/
def Tables.addTimedEffectInstance (tb : Tables) (timing : Timing) (e : Eff) : Tables × Bool :=
  let k := TimeExpr.timing timing
  let r := checkConflictingEffects e none ⟨tb.assigned k, tb.incDec k⟩
  let tb' := { tb with assigned := upd tb.assigned k r.1.assigned,
                       incDec := upd tb.incDec k r.1.incDec }
  if r.2 then (tb', true)
  else ({ tb' with effects := upd tb.effects k (tb.effects k ++ [e]) }, false)

/-- the variant of `_add_effect_instance` produced by the seeded change C24-2: the simulated effect is looked
    up under the time expression AS WRITTEN, before it is canonicalised.  Kept only for the refutation
    `C24.rawSimLookup_order_dependent`. -/
def Tables.addEffectInstanceRawSimLookup (tb : Tables) (time : TimeExpr) (e : Eff) : Tables × Bool :=
  let sim := tb.sims time
  let timing := TimeExpr.timing (Timing.fromTime time)
  let r := checkConflictingEffects e sim ⟨tb.assigned timing, tb.incDec timing⟩
  let tb' := { tb with assigned := upd tb.assigned timing r.1.assigned,
                       incDec := upd tb.incDec timing r.1.incDec }
  if r.2 then (tb', true)
  else ({ tb' with effects := upd tb.effects timing (tb.effects timing ++ [e]) }, false)

/-- one insertion attempt on a container with several time points, with the time written as the caller
    wrote it -/
inductive TOp where
  | eff (time : TimeExpr) (e : Eff)        -- add_effect / add_increase_effect / add_decrease_effect of a TimedCondsEffs
  | sim (timing : Timing) (fl : List String)   -- set_simulated_effect
  | peff (timing : Timing) (e : Eff)       -- Problem.add_timed_effect / add_increase_effect / add_decrease_effect
  deriving DecidableEq, Repr

def Tables.step (tb : Tables) : TOp → Tables × Bool
  | .eff time e => tb.addEffectInstance time e
  | .sim t fl => tb.setSimulatedEffect t fl
  | .peff t e => tb.addTimedEffectInstance t e

/-- a history of insertion attempts whose caller catches the exception and goes on -/
def Tables.run (tb : Tables) : List TOp → Tables × List Bool
  | [] => (tb, [])
  | x :: l =>
    let r := tb.step x
    let rest := Tables.run r.1 l
    (rest.1, r.2 :: rest.2)

def Tables.raises (tb : Tables) (l : List TOp) : Bool := (tb.run l).2.any id

/-- histories through the seeded variant (only for the refutation) -/
def Tables.stepRawSimLookup (tb : Tables) : TOp → Tables × Bool
  | .eff time e => tb.addEffectInstanceRawSimLookup time e
  | x => tb.step x

def Tables.runRawSimLookup (tb : Tables) : List TOp → Tables × List Bool
  | [] => (tb, [])
  | x :: l =>
    let r := tb.stepRawSimLookup x
    let rest := Tables.runRawSimLookup r.1 l
    (rest.1, r.2 :: rest.2)

/-- the insertion attempts that were accepted, in order -/
def acceptedT : List TOp → List Bool → List TOp
  | x :: l, r :: rs => if r then acceptedT l rs else x :: acceptedT l rs
  | _, _ => []

/-! ### reading of a history as insertions at canonical time points (specification side) -/

/-- the time point an insertion is made at -/
def TOp.point : TOp → Timing
  | .eff time _ => Timing.fromTime time
  | .sim t _ => t
  | .peff t _ => t

/-- the dictionary key of that time point -/
def TOp.key (x : TOp) : TimeExpr := .timing x.point

/-- the insertion without its time -/
def TOp.op : TOp → Op
  | .eff _ e => .eff e
  | .sim _ fl => .sim fl
  | .peff _ e => .eff e

def TOp.isPeff : TOp → Bool
  | .peff _ _ => true
  | _ => false

def TOp.isSim : TOp → Bool
  | .sim _ _ => true
  | _ => false

/-- the same insertion with its time point written as the canonical `Timing` -/
def TOp.canon : TOp → TOp
  | .eff time e => .eff (.timing (Timing.fromTime time)) e
  | x => x

/-- everything stored under one dictionary key -/
def Tables.slot (tb : Tables) (k : TimeExpr) : Slot :=
  ⟨tb.effects k, tb.sims k, ⟨tb.assigned k, tb.incDec k⟩⟩

/-- the insertions of a history made at time point `t`, however it was written -/
def atTime (t : Timing) (l : List TOp) : List Op :=
  (l.filter (fun x => x.point == t)).map TOp.op

/-- the object is a `TimedCondsEffs` (no `Problem` insertion occurs), or it is a `Problem` (no simulated effect
    is stored and none is set) -/
def Tables.WF (tb : Tables) (l : List TOp) : Prop :=
  (∀ x ∈ l, x.isPeff = false) ∨ ((∀ k, tb.sims k = none) ∧ ∀ x ∈ l, x.isSim = false)

/-- every dictionary holds content under canonical keys (`Timing` objects) only -/
def Tables.KeysCanonical (tb : Tables) : Prop :=
  ∀ k, k.isTiming = false → tb.slot k = Slot.empty

end UPVerif.Conflicts
