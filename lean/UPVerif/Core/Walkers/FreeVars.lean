import UPVerif.Core.Expr
/-
`FreeVarsOracle` (unified_planning/model/variable.py:174): free variables of an expression.
Python returns a frozenset; the model returns a list used as a set (only membership is observed,
plus — in `Simplifier.walk_exists` — an iteration order that the correspondence canonicalises).
Also `FreeVarsExtractor` (model/walkers/free_vars.py), which — despite its name — collects the
FLUENT expressions of an expression.
-/
namespace UPVerif.Expr

mutual
/-- `FreeVarsOracle.get_free_variables` -/
def freeVars : Expr → List Var
  | .leaf (.var v) => [v]
  | .leaf _ => []
  | .app _ args => freeVarsList args
  | .quant _ vs b => (freeVars b).filter (fun v => !vs.contains v)
def freeVarsList : List Expr → List Var
  | [] => []
  | e :: es => freeVars e ++ freeVarsList es
end

mutual
/-- `FreeVarsExtractor.get`: all fluent-application subexpressions (quantifier bodies included) -/
def fluentExps : Expr → List Expr
  | .leaf _ => []
  | .app (.fluent f) args => fluentExpsList args ++ [.app (.fluent f) args]
  | .app _ args => fluentExpsList args
  | .quant _ _ b => fluentExps b
def fluentExpsList : List Expr → List Expr
  | [] => []
  | e :: es => fluentExps e ++ fluentExpsList es
end

end UPVerif.Expr
