import UPVerif.Core.Expr
import UPVerif.Core.Walkers.Simplify
import UPVerif.Core.Walkers.TypeOf
/-
`LinearChecker` (unified_planning/model/walkers/linear_checker.py), AS REPAIRED by
notes/patches/C17-linear-checker-divisor-sign.patch:
  * `walk_div` takes the sign of the divisor from its inferred type bounds (`_sign`, the test
    `walk_times` already used for its fluent-free factors) instead of looking only at a *constant*
    negative divisor; a divisor whose sign is not known puts every fluent of the numerator in both
    sets (as `walk_times` does for a factor of unknown sign).
Line numbers below refer to the unpatched file.

`LinearChecker(problem).get_fluents(e)` (linear_checker.py:58) first simplifies `e` with
`Simplifier(env, problem)` (static fluents with constant arguments become their initial values;
`env.simplifier` without a problem), then walks the result bottom-up (`DagWalker`): every node
function receives the results `(is_linear, positive_fluents, negative_fluents)` of the children.
The two sets are Python `set`s of `FNode`s; the model keeps duplicate-free lists (membership is
structural equality, licensed by hash-consing, C16) and the correspondence compares them sorted.

The sign of a fluent-free factor / of a divisor is read off `TypeChecker.get_type` (`typeOf`,
Core/Walkers/TypeOf.lean — C15's model of the repaired type checker, exact rational bounds).

Failure: `get_type` raising / the `assert isinstance(t, _IntType) or isinstance(t, _RealType)` of
`_sign` (`LinErr.type`), the arity `assert`s of `walk_div`/`walk_minus` (`LinErr.arity`), and whatever
the simplifier raises (`LinErr.simp`).  Never a default result.

`_static_fluents` is stored by `__init__` but read by no `walk_*` method: a static fluent that the
simplifier does not replace (non-constant arguments, no initial value) is reported like any other.
-/
namespace UPVerif

/-- the triple `(is_linear, positive_fluents, negative_fluents)` -/
structure LinRes where
  lin : Bool
  pos : List Expr
  neg : List Expr
  deriving Repr, Inhabited

inductive LinErr where
  | simp (e : SimpErr)
  | type
  | arity
  deriving Repr, Inhabited

namespace Lin

/-- `a | b` on sets kept as duplicate-free lists -/
def union (a b : List Expr) : List Expr := a ++ b.filter (fun x => !a.contains x)

/-- `|=` over a list of sets -/
def unions : List (List Expr) → List Expr
  | [] => []
  | l :: ls => union l (unions ls)

/-- `walk_default` (linear_checker.py:79): every operator other than TIMES, DIV, MINUS, FLUENT_EXP
    (constants, parameters, PLUS, Boolean connectives, relations, quantifiers, interpreted
    functions, …) is transparent -/
def walkDefault (rs : List LinRes) : LinRes :=
  { lin := rs.all (·.lin), pos := unions (rs.map (·.pos)), neg := unions (rs.map (·.neg)) }

inductive Sign where
  | pos | neg | unknown
  deriving DecidableEq, Repr, Inhabited

/-- the test on `t = tc.get_type(arg)` of linear_checker.py:123-132 (`_sign` after the patch):
    `none` = the `assert isinstance(t, _IntType) or isinstance(t, _RealType)` fails -/
def signOfTy (t : Ty) : Option Sign :=
  if !t.isNum then none
  else match t.lb, t.ub with
    | some l, some u => if 0 < l then some .pos else if u < 0 then some .neg else some .unknown
    | _, _ => some .unknown

/-- `LinearChecker._sign(expression)` -/
def signOf (E : TypeEnv) (e : Expr) : Except LinErr Sign :=
  match typeOf E e with
  | none => .error .type
  | some t =>
    match signOfTy t with
    | none => .error .type
    | some s => .ok s

/-- the local variables of `walk_times` (linear_checker.py:104-109) -/
structure TimesSt where
  lin : Bool
  found : Bool          -- arg_with_fluents_found
  positivity : Bool
  unknown : Bool        -- positivity_unknown
  pos : List Expr
  neg : List Expr
  deriving Repr, Inhabited

def TimesSt.init : TimesSt :=
  { lin := true, found := false, positivity := true, unknown := false, pos := [], neg := [] }

/-- one iteration of `for i, (b, spf, snf) in enumerate(args)` (linear_checker.py:111-132) -/
def timesStep (E : TypeEnv) (st : TimesSt) (arg : Expr) (r : LinRes) : Except LinErr TimesSt :=
  let lin := st.lin && r.lin
  if !r.pos.isEmpty || !r.neg.isEmpty then
    .ok { st with lin := if st.found then false else lin, found := true,
                  pos := union st.pos r.pos, neg := union st.neg r.neg }
  else
    match signOf E arg with
    | .error err => .error err
    | .ok .pos => .ok { st with lin := lin }
    | .ok .neg => .ok { st with lin := lin, positivity := !st.positivity }
    | .ok .unknown => .ok { st with lin := lin, unknown := true }

/-- the loop of `walk_times` over the arguments and their results (equally long by construction) -/
def timesLoop (E : TypeEnv) : TimesSt → List Expr → List LinRes → Except LinErr TimesSt
  | st, a :: as, r :: rs =>
    match timesStep E st a r with
    | .error err => .error err
    | .ok st' => timesLoop E st' as rs
  | st, _, _ => .ok st

/-- the three `return`s shared by `walk_times` (linear_checker.py:133-141) and the repaired `walk_div` -/
def bySign (s : Sign) (pos neg : List Expr) : LinRes :=
  match s with
  | .unknown => let fl := union pos neg; { lin := true, pos := fl, neg := fl }
  | .pos => { lin := true, pos := pos, neg := neg }
  | .neg => { lin := true, pos := neg, neg := pos }

/-- `walk_times` (linear_checker.py:97) -/
def walkTimes (E : TypeEnv) (args : List Expr) (rs : List LinRes) : Except LinErr LinRes :=
  match timesLoop E TimesSt.init args rs with
  | .error err => .error err
  | .ok st =>
    if !st.lin then .ok { lin := false, pos := [], neg := [] }
    else if st.unknown then .ok (bySign .unknown st.pos st.neg)
    else if st.positivity then .ok (bySign .pos st.pos st.neg)
    else .ok (bySign .neg st.pos st.neg)

/-- `walk_div` (linear_checker.py:143), repaired: the sign of the divisor comes from its type -/
def walkDiv (E : TypeEnv) (args : List Expr) (rs : List LinRes) : Except LinErr LinRes :=
  match args, rs with
  | [_, d], [rn, rd] =>
    let lin := rn.lin && rd.lin && rd.pos.isEmpty && rd.neg.isEmpty
    if !lin then .ok { lin := false, pos := [], neg := [] }
    else
      match signOf E d with
      | .error err => .error err
      | .ok s => .ok (bySign s (union rn.pos rd.pos) (union rn.neg rd.neg))
  | _, _ => .error .arity

/-- `walk_minus` (linear_checker.py:188) -/
def walkMinus (rs : List LinRes) : Except LinErr LinRes :=
  match rs with
  | [a, b] =>
    if !(a.lin && b.lin) then .ok { lin := false, pos := [], neg := [] }
    else .ok { lin := true, pos := union a.pos b.neg, neg := union a.neg b.pos }
  | _ => .error .arity

/-- `walk_fluent_exp` (linear_checker.py:214) -/
def walkFluent (e : Expr) (rs : List LinRes) : LinRes :=
  { lin := rs.all (·.lin), pos := [e], neg := [] }

/-- dispatch on the node type (`DagWalker._compute_node_result`) -/
def walkOp (E : TypeEnv) (op : Op) (args : List Expr) (rs : List LinRes) : Except LinErr LinRes :=
  match op with
  | .times => walkTimes E args rs
  | .div => walkDiv E args rs
  | .minus => walkMinus rs
  | .fluent f => .ok (walkFluent (.app (.fluent f) args) rs)
  | _ => .ok (walkDefault rs)

end Lin

open Lin in
mutual
/-- `LinearChecker.walk` on an (already simplified) expression -/
def linWalk (E : TypeEnv) : Expr → Except LinErr LinRes
  | .leaf _ => .ok (walkDefault [])
  | .app op args =>
    match linWalkList E args with
    | .error err => .error err
    | .ok rs => walkOp E op args rs
  | .quant _ _ body =>
    match linWalk E body with
    | .error err => .error err
    | .ok r => .ok (walkDefault [r])
def linWalkList (E : TypeEnv) : List Expr → Except LinErr (List LinRes)
  | [] => .ok []
  | e :: es =>
    match linWalk E e, linWalkList E es with
    | .ok r, .ok rs => .ok (r :: rs)
    | .error err, _ => .error err
    | _, .error err => .error err
end

/-- `LinearChecker(problem).get_fluents(e)` for the environment/problem data `cfg` -/
def linear (cfg : SimpCfg) (e : Expr) : Except LinErr LinRes :=
  match simplify cfg e with
  | .error err => .error (.simp err)
  | .ok e' => linWalk cfg.tenv e'

end UPVerif
