import UPVerif.Core.Expr
/-
`Nnf.get_nnf_expression` (unified_planning/model/walkers/dnf.py:26-123).

The Python code is an explicit stack machine over triples (polarity, expression, expanded?) with a
second stack `solved`.  `nnf` below is the polarity-passing recursion that machine computes;
`NnfMachine` further down is the machine itself, and `Lemmas/NnfStack.lean` proves that running
the machine yields `nnf` (so the correspondence check exercises both).

Everything that is not AND/OR/NOT/IMPLIES/IFF (of the right arity) is an atom — in particular
quantified formulas are NOT descended into.
-/
namespace UPVerif.Expr

/-- the connective the manager is asked for when an AND (`isAnd = true`) or OR node is rebuilt
    under polarity `p` -/
def nnfJoin (p isAnd : Bool) (args : List Expr) : Expr :=
  if p == isAnd then mkAnd args else mkOr args

mutual
def nnf (p : Bool) : Expr → Expr
  | .app .not [x] => nnf (!p) x
  | .app .and args => nnfJoin p true (nnfList p args)
  | .app .or args => nnfJoin p false (nnfList p args)
  | .app .implies [a, b] => nnfJoin p false [nnf (!p) a, nnf p b]
  | .app .iff [a, b] =>
    nnfJoin p false [nnfJoin p true [nnf p a, nnf p b], nnfJoin p true [nnf (!p) a, nnf (!p) b]]
  | e => if p then e else mkNot e
def nnfList (p : Bool) : List Expr → List Expr
  | [] => []
  | e :: es => nnf p e :: nnfList p es
end

end UPVerif.Expr

/-! ### the explicit stack machine of `get_nnf_expression`

Python keeps `stack : List (polarity, expression, expanded?)` and `solved : List FNode`.  For an
expanded entry only `e.is_and()` / `e.is_or()` and `len(e.args)` are read, so a frame is either
`visit p e` or `build p isAnd n`.  List heads are stack tops. -/
namespace UPVerif.Expr

inductive NnfFrame where
  | visit (p : Bool) (e : Expr)
  | build (p : Bool) (isAnd : Bool) (n : Nat)
  deriving Repr

structure NnfState where
  stack : List NnfFrame
  solved : List Expr
  deriving Repr

/-- one iteration of the `while len(stack) > 0` loop (identity on an empty stack) -/
def nnfStep (s : NnfState) : NnfState :=
  match s.stack with
  | [] => s
  | .build p isAnd n :: rest =>
    { stack := rest, solved := nnfJoin p isAnd (s.solved.take n) :: s.solved.drop n }
  | .visit p e :: rest =>
    match e with
    | .app .not [x] => { s with stack := .visit (!p) x :: rest }
    | .app .and args =>
      { s with stack := (args.reverse.map (NnfFrame.visit p)) ++ .build p true args.length :: rest }
    | .app .or args =>
      { s with stack := (args.reverse.map (NnfFrame.visit p)) ++ .build p false args.length :: rest }
    | .app .implies [a, b] =>
      { s with stack := .visit p b :: .visit (!p) a :: .build p false 2 :: rest }
    | .app .iff [a, b] =>
      { s with stack := .visit (!p) b :: .visit (!p) a :: .build p true 2 ::
                        .visit p b :: .visit p a :: .build p true 2 :: .build p false 2 :: rest }
    | e => { stack := rest, solved := (if p then e else mkNot e) :: s.solved }

def nnfIter : Nat → NnfState → NnfState
  | 0, s => s
  | n + 1, s => nnfIter n (nnfStep s)

mutual
/-- exact number of loop iterations spent on `visit p e` (independent of `p`) -/
def nnfCost : Expr → Nat
  | .app .not [x] => 1 + nnfCost x
  | .app .and args => 2 + nnfCostList args
  | .app .or args => 2 + nnfCostList args
  | .app .implies [a, b] => 2 + nnfCost a + nnfCost b
  | .app .iff [a, b] => 4 + 2 * nnfCost a + 2 * nnfCost b
  | _ => 1
def nnfCostList : List Expr → Nat
  | [] => 0
  | e :: es => nnfCost e + nnfCostList es
end

/-- `Nnf.get_nnf_expression` as the code runs it: push, loop until the stack is empty, pop -/
def nnfMachine (e : Expr) : Option Expr :=
  let s := nnfIter (nnfCost e) { stack := [.visit true e], solved := [] }
  match s.stack, s.solved with
  | [], [r] => some r
  | _, _ => none

end UPVerif.Expr
