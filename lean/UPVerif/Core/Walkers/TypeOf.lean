import UPVerif.Core.Expr
import UPVerif.Core.Den
/-
`TypeChecker` (unified_planning/model/walkers/type_checker.py) and `is_compatible_type`
(unified_planning/model/types.py:307), as REPAIRED by notes/patches/C15-typechecker-exact-bounds.patch:

* interval bounds are exact rationals; an unbounded side is `none` and the two infinities are
  symbols (`Ext`) that are compared with numbers but never enter an arithmetic operation
  (the unrepaired code mixed `float('inf')` into int/Fraction arithmetic: rounding in `walk_div`,
  `OverflowError`/`nan` in `walk_plus`/`walk_times`);
* `walk_equals` treats its two operands symmetrically.

INTERFACE (reused by the substituter check, the linear checker, the model-building checks, the
simulator):

  `typeOf (E : TypeEnv) : Expr → Option Ty`   `none` = the real constructor raises (UPTypeError;
                                              ZeroDivisionError for a division by a [0,0]-typed
                                              divisor of a left operand with a finite bound)
  `isCompatible (E : TypeEnv) (tl tr : Ty) : Bool`   `tl.is_compatible(tr)`: equal, or user types with
                                              `tr` a descendant of `tl`, or numeric kinds
                                              int←int / real←real / real←int whose intervals OVERLAP
  `inTy (E) (objTy) : Val → Ty → Bool`         the value inhabits the type (ints are integral rationals
                                              inside the bounds; an object inhabits every ancestor of
                                              its declared type `objTy name`; nothing inhabits `time`)

The type of a node depends on the node only (the walker memoises per node), so a tree recursion is
faithful.  Types are compared structurally (`TypeManager` interns them per environment; user types
are identified by NAME — two user types of one name with different fathers are outside the model).
-/
namespace UPVerif

/-! ### extended bounds: a number or one of the two infinity symbols -/
inductive Ext where
  | ninf
  | fin (q : Rat)
  | pinf
  deriving DecidableEq, Repr, Inhabited

namespace Ext
/-- `a <= b` on numbers extended with the infinities -/
def le : Ext → Ext → Bool
  | .ninf, _ => true
  | _, .pinf => true
  | .fin a, .fin b => decide (a ≤ b)
  | _, _ => false
/-- `a < b` -/
def lt (a b : Ext) : Bool := !(le b a)
/-- `a > 0` -/
def pos : Ext → Bool
  | .pinf => true
  | .fin q => decide (0 < q)
  | .ninf => false
/-- `a == 0` -/
def isZero : Ext → Bool
  | .fin q => q == 0
  | _ => false
/-- `_ext_mul` (type_checker.py): exact product, `0 * inf = 0`, the infinities never multiplied -/
def mul (a b : Ext) : Ext :=
  if a.isZero || b.isZero then .fin 0
  else match a, b with
    | .fin x, .fin y => .fin (x * y)
    | _, _ => if a.pos == b.pos then .pinf else .ninf
/-- Python's `min` keeps the first of two equal items -/
def min (a b : Ext) : Ext := if lt b a then b else a
def max (a b : Ext) : Ext := if lt a b then b else a
def min4 (a b c d : Ext) : Ext := min (min (min a b) c) d
def max4 (a b c d : Ext) : Ext := max (max (max a b) c) d
/-- `NEG_INF if x.lower_bound is None else x.lower_bound` -/
def ofLower : Option Rat → Ext
  | none => .ninf
  | some q => .fin q
def ofUpper : Option Rat → Ext
  | none => .pinf
  | some q => .fin q
/-- `if lower == NEG_INF: lower = None`  (`pinf` is unreachable for a lower bound: a product of
    four corner values of intervals `[L,U]`,`[l,u]` with `L,l ≠ +inf`, `U,u ≠ -inf` cannot have all
    four corners `+inf`) -/
def toLower : Ext → Option Rat
  | .fin q => some q
  | _ => none
def toUpper : Ext → Option Rat
  | .fin q => some q
  | _ => none
end Ext

namespace Ty
def isNum : Ty → Bool
  | .int _ _ | .real _ _ => true
  | _ => false
def isReal : Ty → Bool
  | .real _ _ => true
  | _ => false
def isTime : Ty → Bool
  | .time => true
  | _ => false
def isBool : Ty → Bool
  | .bool => true
  | _ => false
def isUser : Ty → Bool
  | .user _ => true
  | _ => false
/-- `lower_bound` of a numeric type as an exact rational (`none` = unbounded / not numeric) -/
def lb : Ty → Option Rat
  | .int l _ => l.map (fun z => (z : Rat))
  | .real l _ => l
  | _ => none
def ub : Ty → Option Rat
  | .int _ u => u.map (fun z => (z : Rat))
  | .real _ u => u
  | _ => none
/-- `x.is_int_type() or x.is_real_type() or x.is_time_type()` -/
def isNumOrTime (t : Ty) : Bool := t.isNum || t.isTime
end Ty

namespace TypeEnv
/-- `_UserType.ancestors` (types.py:128): the type itself first, then its fathers; fuel = number of
    declared types (father chains are acyclic: a father exists before its child) -/
def ancestorsFuel (E : TypeEnv) : Nat → String → List String
  | 0, t => [t]
  | n + 1, t => t :: (match E.father t with
      | some f => ancestorsFuel E n f
      | none => [])
def ancestors (E : TypeEnv) (t : String) : List String := ancestorsFuel E E.fathers.length t
/-- `not all(a not in set(right.ancestors) for a in left.ancestors)` (walk_equals) -/
def commonAncestor (E : TypeEnv) (a b : String) : Bool :=
  (E.ancestors a).any (fun x => (E.ancestors b).contains x)
end TypeEnv

/-- `is_compatible_type(t_left, t_right)` (types.py:307).  NOT set inclusion: for numbers the
    intervals only have to overlap. -/
def isCompatible (E : TypeEnv) (tl tr : Ty) : Bool :=
  if tl == tr then true
  else match tl, tr with
    | .user a, .user b => E.isSubtype b a          -- `t_left in t_right.ancestors`
    | .int _ _, .int _ _ | .real _ _, .real _ _ | .real _ _, .int _ _ =>
      -- `if right_upper < left_lower or right_lower > left_upper: return False`
      !((Ext.ofUpper tr.ub).lt (Ext.ofLower tl.lb) || (Ext.ofUpper tl.ub).lt (Ext.ofLower tr.lb))
    | _, _ => false

namespace TypeOf

/-- `IntType(lower, upper)` asserts its bounds are `int`s -/
def toIntBound : Option Rat → Option (Option Int)
  | none => some none
  | some r => if r.den = 1 then some (some r.num) else none

/-- tail of walk_plus/minus/times: `RealType(lower, upper)` if some operand is real, else `IntType` -/
def mkNum (hasReal : Bool) (l u : Option Rat) : Option Ty :=
  if hasReal then some (.real l u)
  else match toIntBound l, toIntBound u with
    | some li, some ui => some (.int li ui)
    | _, _ => none

/-- `res += b`, `None` absorbing (`_sum_bounds`) -/
def addBound (acc b : Option Rat) : Option Rat :=
  match acc, b with
  | some a, some x => some (a + x)
  | _, _ => none
/-- `_sum_bounds` (type_checker.py) -/
def sumBounds (bs : List (Option Rat)) : Option Rat := bs.foldl addBound (some 0)

/-- `walk_plus` -/
def typePlus (ts : List Ty) : Option Ty :=
  if !(ts.all Ty.isNumOrTime) then none
  else if ts.any Ty.isTime then some .time
  else mkNum (ts.any Ty.isReal) (sumBounds (ts.map Ty.lb)) (sumBounds (ts.map Ty.ub))

def subBound (a b : Option Rat) : Option Rat :=
  match a, b with
  | some x, some y => some (x - y)
  | _, _ => none

/-- `walk_minus` -/
def typeMinus : List Ty → Option Ty
  | [l, r] =>
    if !([l, r].all Ty.isNumOrTime) then none
    else if [l, r].any Ty.isTime then some .time
    else mkNum ([l, r].any Ty.isReal) (subBound l.lb r.ub) (subBound l.ub r.lb)
  | _ => none

/-- one step of the loop of `walk_times`: the four corner products, then `min`/`max` -/
def mulInterval (acc x : Ext × Ext) : Ext × Ext :=
  let p1 := acc.1.mul x.1
  let p2 := acc.1.mul x.2
  let p3 := acc.2.mul x.1
  let p4 := acc.2.mul x.2
  (Ext.min4 p1 p2 p3 p4, Ext.max4 p1 p2 p3 p4)

def extInterval (t : Ty) : Ext × Ext := (Ext.ofLower t.lb, Ext.ofUpper t.ub)

/-- `walk_times` -/
def typeTimes (ts : List Ty) : Option Ty :=
  if !(ts.all Ty.isNum) then none
  else match ts.map extInterval with
    | [] => mkNum (ts.any Ty.isReal) none none
    | x :: xs =>
      let r := xs.foldl mulInterval x
      mkNum (ts.any Ty.isReal) r.1.toLower r.2.toUpper

/-- `walk_div`: always a real; bounds only for a constant divisor (a type `[d,d]`), divided exactly
    and swapped for a negative `d`.  `d = 0`: `Fraction(bound) / 0` raises `ZeroDivisionError` as
    soon as the left operand has a finite bound. -/
def typeDiv : List Ty → Option Ty
  | [l, r] =>
    if !(l.isNum && r.isNum) then none
    else match r.lb with
      | some d =>
        if r.ub == some d then
          if d == 0 then (if l.lb.isSome || l.ub.isSome then none else some (.real none none))
          else
            let lo := l.lb.map (· / d)
            let hi := l.ub.map (· / d)
            if d < 0 then some (.real hi lo) else some (.real lo hi)
        else some (.real none none)
      | none => some (.real none none)
  | _ => none

/-- `walk_math_relation` (LE, LT) -/
def typeRel (ts : List Ty) : Option Ty :=
  if ts.all Ty.isNumOrTime then some .bool else none

/-- `walk_equals` (repaired: symmetric in its operands) -/
def typeEquals (E : TypeEnv) : List Ty → Option Ty
  | [l, r] =>
    if l.isBool || r.isBool then none          -- raises UPTypeError ("Use Iff instead")
    else match l, r with
      | .user a, .user b =>
        if l != r && !isCompatible E l r && !isCompatible E r l then
          (if E.commonAncestor a b then some .bool else none)
        else some .bool
      | _, _ => if [l, r].all Ty.isNumOrTime then some .bool else none
  | _ => none

/-- `walk_bool_to_bool` (AND OR NOT IMPLIES IFF EXISTS FORALL; DOT is overridden by `walk_dot`) -/
def typeBoolToBool (ts : List Ty) : Option Ty :=
  if ts.all Ty.isBool then some .bool else none

/-- `walk_fluent_exp` / `walk_interpreted_function_exp` -/
def typeApply (E : TypeEnv) (sig : List Ty) (ret : Ty) (ts : List Ty) : Option Ty :=
  if sig.length != ts.length then none
  else if (sig.zip ts).all (fun p => isCompatible E p.1 p.2) then some ret
  else none

/-- `walk_always` / `walk_sometime` / `walk_at_most_once` -/
def typeUnaryTraj : List Ty → Option Ty
  | [t] => if t.isBool then some t else none
  | _ => none
/-- `walk_sometime_before` / `walk_sometime_after` -/
def typeBinaryTraj : List Ty → Option Ty
  | [a, b] => if a.isBool && b.isBool && a == b then some a else none
  | _ => none

/-- `walk_dot`: the type of the fluent expression it wraps -/
def typeDot : List Expr → List Ty → Option Ty
  | [.app (.fluent _) _], [t] => some t
  | _, _ => none

/-- leaves: `walk_identity_bool/int/real`, `walk_object_exp`, `walk_param_exp`,
    `walk_variable_exp`, `walk_timing_exp`, `walk_present_exp` -/
def typeLeaf : Leaf → Ty
  | .boolC _ => .bool
  | .intC z => .int (some z) (some z)
  | .realC r => .real (some r) (some r)
  | .obj _ t => .user t
  | .param _ t => t
  | .var v => v.ty
  | .timing _ => .time
  | .present _ => .bool

/-- dispatch on the node type (`DagWalker._compute_node_result`); `ts` are the children's types -/
def typeOp (E : TypeEnv) (op : Op) (args : List Expr) (ts : List Ty) : Option Ty :=
  match op with
  | .and | .or | .not | .implies | .iff => typeBoolToBool ts
  | .fluent f => typeApply E f.sig f.ty ts
  | .ifun g => typeApply E g.sig g.ty ts
  | .dot _ => typeDot args ts
  | .plus => typePlus ts
  | .minus => typeMinus ts
  | .times => typeTimes ts
  | .div => typeDiv ts
  | .le | .lt => typeRel ts
  | .eq => typeEquals E ts
  | .always | .sometime | .atMostOnce => typeUnaryTraj ts
  | .sometimeBefore | .sometimeAfter => typeBinaryTraj ts

end TypeOf

open TypeOf in
mutual
/-- `TypeChecker.get_type` as called by `ExpressionManager.create_node` on every node bottom-up:
    `none` as soon as one sub-expression is rejected -/
def typeOf (E : TypeEnv) : Expr → Option Ty
  | .leaf l => some (typeLeaf l)
  | .app op args =>
    match typeOfList E args with
    | some ts => typeOp E op args ts
    | none => none
  | .quant _ _ body =>
    match typeOf E body with
    | some t => typeBoolToBool [t]
    | none => none
def typeOfList (E : TypeEnv) : List Expr → Option (List Ty)
  | [] => some []
  | e :: es =>
    match typeOf E e, typeOfList E es with
    | some t, some ts => some (t :: ts)
    | _, _ => none
end

/-- the value `v` inhabits the type `t`; `objTy` gives the declared user type of an object name.
    (`Val` has no time values: timing expressions have no denotation in `den`.) -/
def inTy (E : TypeEnv) (objTy : String → Option String) : Val → Ty → Bool
  | .b _, .bool => true
  | .n q, .int l u =>
    q.den == 1
      && (match l with | some x => decide (x ≤ q.num) | none => true)
      && (match u with | some x => decide (q.num ≤ x) | none => true)
  | .n q, .real l u =>
    (match l with | some x => decide (x ≤ q) | none => true)
      && (match u with | some x => decide (q ≤ x) | none => true)
  | .o n, .user u =>
    (match objTy n with | some t => E.isSubtype t u | none => false)
  | _, _ => false

/-! ### what "each leaf ranges over its declared type" means (hypotheses of the C15 theorems) -/
namespace Expr
mutual
/-- the leaves of an expression (quantifier bodies included) -/
def leaves : Expr → List Leaf
  | .leaf l => [l]
  | .app _ args => leavesList args
  | .quant _ _ b => leaves b
def leavesList : List Expr → List Leaf
  | [] => []
  | e :: es => leaves e ++ leavesList es
end
end Expr

/-- fluents and interpreted functions only take values of their declared result type -/
structure InterpOK (E : TypeEnv) (objTy : String → Option String) (ι : Interp) : Prop where
  fl : ∀ f vs v, ι.fl f vs = some v → inTy E objTy v f.ty = true
  fn : ∀ g vs v, ι.fn g vs = some v → inTy E objTy v g.ty = true

/-- a parameter leaf takes values of the type written on it; an object leaf carries the object's
    declared type -/
def LeafOK (E : TypeEnv) (objTy : String → Option String) (ι : Interp) : Leaf → Prop
  | .param n t => ∀ v, ι.par n = some v → inTy E objTy v t = true
  | .obj n t => objTy n = some t
  | _ => True

/-- bound variables take values of their type -/
def VEnvOK (E : TypeEnv) (objTy : String → Option String) (ρ : VEnv) : Prop :=
  ∀ v x, ρ.get v = some x → inTy E objTy x v.ty = true

end UPVerif
