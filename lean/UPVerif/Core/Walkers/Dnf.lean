import UPVerif.Core.Walkers.Nnf
/-
`Dnf` (unified_planning/model/walkers/dnf.py:126-186): NNF first, then a bottom-up walk producing a
list (disjunction) of lists (conjunctions) of literals; `walk_and` takes the cartesian product of
the children's lists (order of `itertools.product`) and SIMPLIFIES every resulting conjunction
with the environment-independent `Simplifier`; `walk_or` concatenates; everything else is a
literal.  The simplifier is a parameter here (`simp`); C11 owns its model.

Mirrors the REPAIRED code: a conjunction that simplifies to TRUE makes the whole formula TRUE
(`return [[]]`); the code as found returned `[]`, i.e. FALSE (defect D-C12).
-/
namespace UPVerif.Expr

abbrev DnfL := List (List Expr)

/-- `itertools.product(*args)`: first argument outermost -/
def dnfProduct : List DnfL → List (List (List Expr))
  | [] => [[]]
  | d :: ds => d.flatMap (fun c => (dnfProduct ds).map (fun t => c :: t))

/-- the loop of `walk_and` over the product tuples; `acc` = `res` so far -/
def dnfAndGo (simp : Expr → Expr) : List (List (List Expr)) → DnfL → DnfL
  | [], acc => acc
  | t :: ts, acc =>
    let s := simp (mkAnd t.flatten)
    if s.isTrue then [[]]
    else if s.isFalse then dnfAndGo simp ts acc
    else match s with
      | .app .and as => dnfAndGo simp ts (acc ++ [as])
      | _ => dnfAndGo simp ts (acc ++ [[s]])

mutual
def dnfWalk (simp : Expr → Expr) : Expr → DnfL
  | .app .and args => dnfAndGo simp (dnfProduct (dnfWalkList simp args)) []
  | .app .or args => (dnfWalkList simp args).flatten
  | e => [[e]]
def dnfWalkList (simp : Expr → Expr) : List Expr → List DnfL
  | [] => []
  | e :: es => dnfWalk simp e :: dnfWalkList simp es
end

/-- `Dnf.get_dnf_expression` -/
def dnf (simp : Expr → Expr) (e : Expr) : Expr :=
  mkOr ((dnfWalk simp (nnf true e)).map mkAnd)

end UPVerif.Expr
