import UPVerif.Core.Expr
import UPVerif.Core.Den
import UPVerif.Core.Walkers.FreeVars
import UPVerif.Core.Walkers.Substitute
/-
`Simplifier` (unified_planning/model/walkers/simplifier.py), AS REPAIRED by
notes/patches/C11-simplifier-soundness.patch:
  * `walk_div` folds two integer constants with floor division (was `int(l / r)` through float);
  * `walk_minus` routes `e - (-c)` through `walk_plus` (so the sum is flattened and accumulated);
  * `walk_exists` eliminates `v == t` only when `v` is not free in `t`, the type of `t` is compatible
    with the type of `v` and no free variable of `t` is bound inside the remaining conjuncts; it
    re-simplifies the substituted body with a fresh simplifier and keeps the variables still free.
Line numbers below refer to the unpatched file.

`DagWalker` (walkers/dag.py) computes the children's results first (right-most child first — it
pops them off a stack — which only matters for WHICH exception surfaces), then applies the node
function `walk_<op>(expression, args = simplified children)`.  There is one Lean function per
`walk_*` method (`walk_and`/`walk_or` share `walkJunc`, `walk_le`/`walk_lt` share `walkCmp`,
`walk_always`/`walk_sometime` share `walkAlwaysLike`); all results are built through the
`ExpressionManager` constructors of `Core/Expr.lean` (`mkAnd`, `mkNot`, …) exactly where the Python
code calls the manager.  NOT modelled: the type check `create_node` performs on every rebuilt node
(`Core/Walkers/TypeOf.lean` is C15's model).

The problem-dependent inputs of the simplifier are a parameter (`SimpCfg`): the set of static
fluents, the explicit initial values and fluent defaults (`Problem.initial_value`), the tables of
the interpreted functions, and the user-type hierarchy (for `walk_equals` / `walk_exists`).

Failure.  The repaired code can still raise: `ZeroDivisionError`/`AssertionError` when a constant is
divided by the constant zero, whatever the user's interpreted function raises (modelled: a table
without entry), and `AssertionError` on arity violations.  So
`simplify : SimpCfg → Expr → Except SimpErr Expr`.

Fuel.  `walk_exists` calls a fresh simplifier on the substituted body, which is not a sub-term, so
the recursion is on a fuel argument that decreases at EVERY recursive call (children included): it
bounds the nesting depth of the recursion, never its breadth.  Running out of fuel is the distinct
error `SimpErr.fuel` (never a default result).  All theorems (Props/C11.lean) hold for every fuel;
`simpF_mono_le` (Lemmas/SimplifyBasic.lean) shows that a result other than `.fuel` is the same for
every larger fuel, and `simpF_of_NF` (Lemmas/SimplifyIdem.lean) that `depth e + 1` suffices for an
expression already in normal form.  `simplify` starts from `defaultFuel e = (size e + 1)²`, far above
the depth of any recursion observed (depth of `e` plus, per eliminated variable, the depth of the
substituted body); the driver reports `.fuel` as a distinct answer, which the check would flag.

How to reuse: `simplify cfg e` (or `Simp.simpF cfg n e` inside another fuel-indexed model); the
semantic facts are `C11.C11_sound_fuel`, `Simp.simpF_freeVars`, `Simp.simpF_NF`/`simpF_of_NF`,
`Simp.simpF_allB` (every leaf / bound variable of the result comes from the input or the tables).
-/
namespace UPVerif

inductive SimpErr where
  | zeroDiv          -- ZeroDivisionError / `assert right.constant_value() != 0`
  | ifunUndefined    -- the interpreted function's callable raised (no table entry)
  | malformed        -- arity / constant-kind assertion of a walk_* method
  | fuel
  deriving DecidableEq, Repr, Inhabited

/-- what `Simplifier(environment, problem)` reads from its environment and problem -/
structure SimpCfg where
  /-- user-type hierarchy of the environment -/
  tenv : TypeEnv
  /-- `problem.get_static_fluents()` (empty without a problem) -/
  statics : List FluentRef
  /-- `problem.explicit_initial_values` (keys: fluent applications on constants) -/
  init : List (Expr × Expr)
  /-- `problem.fluents_defaults` -/
  defaults : List (FluentRef × Expr)
  /-- interpreted functions as tables: (function, constant argument values, result constant) -/
  funs : List (FunRef × List Val × Expr)
  deriving Inhabited

namespace SimpCfg
/-- a simplifier without problem and without interpreted functions -/
def empty (E : TypeEnv) : SimpCfg := { tenv := E, statics := [], init := [], defaults := [], funs := [] }

/-- `Problem.initial_value(fluent_exp)` (mixins/initial_state.py:71): explicit value, else the
    fluent's default, else `None` -/
def initialValue (cfg : SimpCfg) (f : FluentRef) (args : List Expr) : Option Expr :=
  match cfg.init.lookup (.app (.fluent f) args) with
  | some v => some v
  | none => cfg.defaults.lookup f

def funLookup (cfg : SimpCfg) (g : FunRef) (vs : List Val) : Option Expr :=
  (cfg.funs.find? (fun e => e.1 == g && e.2.1 == vs)).map (·.2.2)
end SimpCfg

namespace Expr

/-- `e.type` when it is a user type, for the node kinds whose type is carried by the payload
    (objects, parameters, variables, fluent / interpreted-function applications, `Dot` of a fluent) -/
def userTypeOf? : Expr → Option String
  | .leaf (.obj _ t) => some t
  | .leaf (.param _ (.user t)) => some t
  | .leaf (.var ⟨_, .user t⟩) => some t
  | .app (.fluent ⟨_, .user t, _⟩) _ => some t
  | .app (.ifun ⟨_, .user t, _⟩) _ => some t
  | .app (.dot _) [.app (.fluent ⟨_, .user t, _⟩) _] => some t
  | _ => none

/-- constant payload as a value (`constant_value()`; objects by name) -/
def constVal? : Expr → Option Val
  | .leaf (.boolC b) => some (.b b)
  | .leaf (.intC z) => some (.n z)
  | .leaf (.realC r) => some (.n r)
  | .leaf (.obj n _) => some (.o n)
  | _ => none

def constVals? : List Expr → Option (List Val)
  | [] => some []
  | e :: es =>
    match constVal? e, constVals? es with
    | some v, some vs => some (v :: vs)
    | _, _ => none

end Expr

namespace Simp
open Expr

/-! ### Boolean connectives -/

/-- `walk_not` (simplifier.py:122) on the simplified child -/
def walkNot (c : Expr) : Expr :=
  match c with
  | .leaf (.boolC b) => Expr.bool (!b)
  | .app .not [x] => x
  | c => mkNot c

/-- one insertion into the `OrderedDict` of `walk_and`/`walk_or`:
    `if self.walk_not(self.manager.Not(s), [s]) in new_args: return <absorbing>`; `new_args[s] = True`.
    `none` = the early return -/
def addLit (acc : List Expr) (s : Expr) : Option (List Expr) :=
  if acc.contains (walkNot s) then none
  else if acc.contains s then some acc
  else some (acc ++ [s])

def addLits : List Expr → List Expr → Option (List Expr)
  | acc, [] => some acc
  | acc, s :: ss =>
    match addLit acc s with
    | none => none
    | some acc' => addLits acc' ss

/-- arguments of a node of the same connective (`a.is_and()` / `a.is_or()` + `a.args`) -/
def sameJunc? (isAnd : Bool) : Expr → Option (List Expr)
  | .app .and ss => if isAnd then some ss else none
  | .app .or ss => if isAnd then none else some ss
  | _ => none

/-- the `for a in args` loop shared by `walk_and` (`isAnd = true`: skip `true`, stop at `false`,
    flatten one level of `And`) and `walk_or` (dually).  `none` = early return of the absorbing
    constant -/
def juncLoop (isAnd : Bool) : List Expr → List Expr → Option (List Expr)
  | acc, [] => some acc
  | acc, a :: rest =>
    if a.boolConst? = some isAnd then juncLoop isAnd acc rest
    else if a.boolConst? = some (!isAnd) then none
    else
      match sameJunc? isAnd a with
      | some ss =>
        match addLits acc ss with
        | none => none
        | some acc' => juncLoop isAnd acc' rest
      | none =>
        match addLit acc a with
        | none => none
        | some acc' => juncLoop isAnd acc' rest

def mkJunc (isAnd : Bool) (l : List Expr) : Expr := if isAnd then mkAnd l else mkOr l

/-- the part of `walk_and`/`walk_or` after the two-equal-arguments shortcut -/
def juncGeneral (isAnd : Bool) (args : List Expr) : Expr :=
  match juncLoop isAnd [] args with
  | none => Expr.bool (!isAnd)
  | some l => mkJunc isAnd l

def walkJunc (isAnd : Bool) (args : List Expr) : Expr :=
  match args with
  | [a, b] => if a = b then a else juncGeneral isAnd args
  | _ => juncGeneral isAnd args

/-- `walk_and` (simplifier.py:68) -/
def walkAnd (args : List Expr) : Expr := walkJunc true args
/-- `walk_or` (simplifier.py:95) -/
def walkOr (args : List Expr) : Expr := walkJunc false args

/-- `walk_iff` (simplifier.py:133) -/
def walkIff (sl sr : Expr) : Expr :=
  match sl.boolConst?, sr.boolConst? with
  | some l, some r => Expr.bool (l == r)
  | some l, none => if l then sr else mkNot sr
  | none, some r => if r then sl else mkNot sl
  | none, none => if sl = sr then tt else mkIff sl sr

/-- `walk_implies` (simplifier.py:158) -/
def walkImplies (sl sr : Expr) : Expr :=
  match sl.boolConst? with
  | some l => if l then sr else tt
  | none =>
    match sr.boolConst? with
    | some r => if r then tt else mkNot sl
    | none => if sl = sr then tt else mkImplies sl sr

/-! ### relations -/

/-- Python `l == r` on two `constant_value()`s (bool / int / Fraction / Object; an `Object` is equal
    to another one of the same name and type).  `True == 1` holds in Python; `Equals` between a
    Boolean and a number is rejected by the type checker, so that case is answered `false` here. -/
def constEq : Expr → Expr → Bool
  | .leaf (.boolC a), .leaf (.boolC b) => a == b
  | .leaf (.obj n t), .leaf (.obj m u) => n == m && t == u
  | a, b =>
    match a.num?, b.num? with
    | some x, some y => decide (x.toRat = y.toRat)
    | _, _ => false

/-- `walk_equals` (simplifier.py:278).  `slt.is_compatible(srt)` = `srt` is `slt` or a descendant -/
def walkEquals (cfg : SimpCfg) (sl sr : Expr) : Expr :=
  if sl.isConstant && sr.isConstant then Expr.bool (constEq sl sr)
  else if sl = sr then tt
  else
    match userTypeOf? sl, userTypeOf? sr with
    | some a, some b =>
      if !cfg.tenv.isSubtype b a && !cfg.tenv.isSubtype a b then ff else mkEq sl sr
    | _, _ => mkEq sl sr

/-- `walk_le` / `walk_lt` (simplifier.py:296, 308): fold two constants.  Two constants that are not
    both numbers cannot be compared in Python either (`TypeError` for objects) -/
def walkCmp (strict : Bool) (sl sr : Expr) : Except SimpErr Expr :=
  if sl.isConstant && sr.isConstant then
    match sl.num?, sr.num? with
    | some a, some b =>
      pure (Expr.bool (if strict then decide (a.toRat < b.toRat) else decide (a.toRat ≤ b.toRat)))
    | _, _ => throw .malformed
  else pure (if strict then mkLT sl sr else mkLE sl sr)

/-! ### fluents and interpreted functions -/

/-- `walk_fluent_exp` (simplifier.py:320) -/
def walkFluent (cfg : SimpCfg) (f : FluentRef) (args : List Expr) : Expr :=
  let newExp := mkFluent f args
  if !cfg.statics.contains f then newExp
  else if !args.all isConstant then newExp
  else
    match cfg.initialValue f args with
    | some v => v
    | none => newExp

/-- conversion of the callable's result by the declared return type (simplifier.py:349-358) -/
def convResult (ty : Ty) (r : Expr) : Except SimpErr Expr :=
  match ty, r with
  | .bool, .leaf (.boolC b) => pure (Expr.bool b)
  | .int _ _, .leaf (.intC z) => pure (Expr.int z)
  | .real _ _, .leaf (.intC z) => pure (Expr.real z)
  | .real _ _, .leaf (.realC q) => pure (Expr.real q)
  | .user _, .leaf (.obj n t) => pure (.leaf (.obj n t))
  | _, _ => throw .malformed

/-- `walk_interpreted_function_exp` (simplifier.py:335) -/
def walkIfun (cfg : SimpCfg) (g : FunRef) (args : List Expr) : Except SimpErr Expr :=
  match constVals? args with
  | none => pure (.app (.ifun g) args)
  | some vs =>
    match cfg.funLookup g vs with
    | none => throw .ifunUndefined
    | some r => convResult g.ty r

/-! ### arithmetic -/

/-- inner loop of `walk_plus` over the arguments of a nested `Plus` -/
def plusItem (st : Num × List Expr) (s : Expr) : Num × List Expr :=
  match s.num? with
  | some c => (st.1.add c, st.2)
  | none => (st.1, st.2 ++ [s])

/-- the `for a in args` loop of `walk_plus`: (accumulator, new_args_plus) -/
def plusLoop : Num × List Expr → List Expr → Num × List Expr
  | st, [] => st
  | st, a :: rest =>
    match a.num? with
    | some c => plusLoop (st.1.add c, st.2) rest
    | none =>
      match a with
      | .app .plus ss => plusLoop (ss.foldl plusItem st) rest
      | _ => plusLoop (st.1, st.2 ++ [a]) rest

/-- `walk_plus` (simplifier.py:364) -/
def walkPlus (args : List Expr) : Expr :=
  let st := plusLoop (.i 0, []) args
  if st.1.toRat ≠ 0 then mkPlus (st.2 ++ [st.1.toExpr])
  else if st.2.isEmpty then Expr.int 0
  else mkPlus st.2

/-- `walk_minus` (simplifier.py:392); the `e - (-c)` case goes through `walk_plus` (patch) -/
def walkMinus (l r : Expr) : Expr :=
  match l.num?, r.num? with
  | some a, some b => (a.sub b).toExpr
  | none, some b => if b.toRat < 0 then walkPlus [l, b.neg.toExpr] else mkMinus l r
  | _, none => mkMinus l r

/-- `none` = a zero constant was met (`return self.manager.Int(0)`) -/
def timesItem (st : Option (Num × List Expr)) (s : Expr) : Option (Num × List Expr) :=
  match st with
  | none => none
  | some st =>
    match s.num? with
    | some c => if c.toRat = 0 then none else some (st.1.mul c, st.2)
    | none => some (st.1, st.2 ++ [s])

def timesLoop : Num × List Expr → List Expr → Option (Num × List Expr)
  | st, [] => some st
  | st, a :: rest =>
    match a.num? with
    | some c => if c.toRat = 0 then none else timesLoop (st.1.mul c, st.2) rest
    | none =>
      match a with
      | .app .times ss =>
        match ss.foldl timesItem (some st) with
        | none => none
        | some st' => timesLoop st' rest
      | _ => timesLoop (st.1, st.2 ++ [a]) rest

/-- `walk_times` (simplifier.py:412) -/
def walkTimes (args : List Expr) : Expr :=
  match timesLoop (.i 1, []) args with
  | none => Expr.int 0
  | some st =>
    if st.1.toRat ≠ 1 then mkTimes (st.2 ++ [st.1.toExpr])
    else if st.2.isEmpty then Expr.int 1
    else mkTimes st.2

/-- `walk_div` (simplifier.py:444), with floor division (patch) -/
def walkDiv (l r : Expr) : Except SimpErr Expr :=
  match l.num?, r.num? with
  | some (.i a), some (.i b) =>
    if b = 0 then throw .zeroDiv
    else if a % b = 0 then pure (Expr.int (a / b))
    else pure (Expr.real ((a : Rat) / (b : Rat)))
  | some a, some b =>
    if b.toRat = 0 then throw .zeroDiv else pure (Expr.real (a.toRat / b.toRat))
  | _, _ => pure (mkDiv l r)

/-! ### temporal operators (trajectory constraints) and `Dot` -/

/-- `walk_always` / `walk_sometime` (simplifier.py:237, 251) -/
def walkAlwaysLike (op : Op) (a : Expr) : Expr :=
  if a.isTrue then tt else if a.isFalse then ff else .app op [a]

/-- `walk_at_most_once` (simplifier.py:245) -/
def walkAtMostOnce (a : Expr) : Expr :=
  if a.isTrue || a.isFalse then tt else .app .atMostOnce [a]

/-- `walk_sometime_before` (simplifier.py:259) -/
def walkSometimeBefore (a b : Expr) : Expr :=
  if a.isFalse then tt else if a.isTrue then ff else .app .sometimeBefore [a, b]

/-- `walk_sometime_after` (simplifier.py:267) -/
def walkSometimeAfter (a b : Expr) : Expr :=
  if a.isFalse then tt
  else if a.isTrue && b.isTrue then tt
  else if a.isTrue && b.isFalse then ff
  else .app .sometimeAfter [a, b]

/-- dispatch on the node type: `walk_<op>(expression, args)` with `args` the simplified children -/
def walkApp (cfg : SimpCfg) : Op → List Expr → Except SimpErr Expr
  | .and, as => pure (walkAnd as)
  | .or, as => pure (walkOr as)
  | .not, [a] => pure (walkNot a)
  | .iff, [a, b] => pure (walkIff a b)
  | .implies, [a, b] => pure (walkImplies a b)
  | .eq, [a, b] => pure (walkEquals cfg a b)
  | .le, [a, b] => walkCmp false a b
  | .lt, [a, b] => walkCmp true a b
  | .fluent f, as => pure (walkFluent cfg f as)
  | .ifun g, as => walkIfun cfg g as
  | .dot ag, [a] => pure (.app (.dot ag) [a])
  | .plus, as => pure (walkPlus as)
  | .minus, [a, b] => pure (walkMinus a b)
  | .times, as => pure (walkTimes as)
  | .div, [a, b] => walkDiv a b
  | .always, [a] => pure (walkAlwaysLike .always a)
  | .sometime, [a] => pure (walkAlwaysLike .sometime a)
  | .atMostOnce, [a] => pure (walkAtMostOnce a)
  | .sometimeBefore, [a, b] => pure (walkSometimeBefore a b)
  | .sometimeAfter, [a, b] => pure (walkSometimeAfter a b)
  | _, _ => throw .malformed

/-! ### quantifiers -/

/-- `walk_forall` (simplifier.py:227): keep the variables that are free in the simplified body -/
def walkForall (vs : List Var) (b : Expr) : Expr :=
  let vars := vs.filter (fun v => (freeVars b).contains v)
  if vars.isEmpty then b else .quant .all vars b

/-- `e.is_variable_exp() and e.variable() in vars` -/
def isVarIn (vars : List Var) : Expr → Option Var
  | .leaf (.var x) => if vars.contains x then some x else none
  | _ => none

/-- the `(variable, value)` choice of `walk_exists` for one conjunct: the left operand if it is a
    variable of this `Exists`, else the operands swapped; `none` if neither is -/
def elimCandidate (vars : List Var) : Expr → Option (Var × Expr)
  | .app .eq [a, b] =>
    match isVarIn vars a with
    | some x => some (x, b)
    | none =>
      match isVarIn vars b with
      | some x => some (x, a)
      | none => none
  | _ => none

/-- `variable.type.is_compatible(value.type)` for a user-typed variable (the property quantifies
    over user types; other variable types are never eliminated by the model) -/
def compatVar (cfg : SimpCfg) (x : Var) (value : Expr) : Bool :=
  match x.ty, userTypeOf? value with
  | .user t, some u => cfg.tenv.isSubtype u t
  | _, _ => false

/-- the three side conditions of the repaired elimination -/
def eligible (cfg : SimpCfg) (x : Var) (value rest : Expr) : Bool :=
  !(freeVars value).contains x
  && compatVar cfg x value
  && (freeVars value).all (fun y => !(boundVars rest).contains y)

/-- `for i, and_arg in enumerate(new_arg.args)`: the first conjunct that can be eliminated, as
    (variable, value, `And` of the other conjuncts) -/
def findElim (cfg : SimpCfg) (vars : List Var) : List Expr → List Expr → Option (Var × Expr × Expr)
  | _, [] => none
  | pre, c :: post =>
    match elimCandidate vars c with
    | some (x, value) =>
      let rest := mkAnd (pre ++ post)
      if eligible cfg x value rest then some (x, value, rest)
      else findElim cfg vars (pre ++ [c]) post
    | none => findElim cfg vars (pre ++ [c]) post

/-- the `while check_equality_simplification` loop; `resimp` is the fresh `Simplifier(...).simplify`.
    Every round removes the eliminated variable, so `vars.length` rounds suffice. -/
def elimLoop (cfg : SimpCfg) (resimp : Expr → Except SimpErr Expr) :
    Nat → List Var → Expr → Except SimpErr (List Var × Expr)
  | 0, vars, e => pure (vars, e)
  | n + 1, vars, e =>
    match e with
    | .app .and cs =>
      match findElim cfg vars [] cs with
      | none => pure (vars, e)
      | some (x, value, rest) =>
        match resimp (subst [(.leaf (.var x), value)] rest) with
        | .error err => .error err
        | .ok e' =>
          let fv := freeVars e'
          elimLoop cfg resimp n ((vars.filter (fun v => v != x)).filter (fun v => fv.contains v)) e'
    | _ => pure (vars, e)

/-- `walk_exists` (simplifier.py:181, repaired) on the simplified body -/
def walkExists (cfg : SimpCfg) (resimp : Expr → Except SimpErr Expr) (vs : List Var) (b : Expr) :
    Except SimpErr Expr :=
  let vars := vs.filter (fun v => (freeVars b).contains v)
  match elimLoop cfg resimp vars.length vars b with
  | .error err => .error err
  | .ok (vars', b') => pure (if vars'.isEmpty then b' else .quant .ex vars' b')

/-- children of a node, right-most first (the order in which `DagWalker` pops them) -/
def mapE {α β ε : Type} (f : α → Except ε β) : List α → Except ε (List β)
  | [] => .ok []
  | a :: as =>
    match mapE f as with
    | .error e => .error e
    | .ok bs =>
      match f a with
      | .error e => .error e
      | .ok b => .ok (b :: bs)

/-- `Simplifier.simplify` with recursion depth bounded by the fuel -/
def simpF (cfg : SimpCfg) : Nat → Expr → Except SimpErr Expr
  | 0, _ => .error .fuel
  | _ + 1, .leaf l => .ok (.leaf l)
  | n + 1, .app op args =>
    match mapE (simpF cfg n) args with
    | .error e => .error e
    | .ok as => walkApp cfg op as
  | n + 1, .quant .all vs b =>
    match simpF cfg n b with
    | .error e => .error e
    | .ok b' => .ok (walkForall vs b')
  | n + 1, .quant .ex vs b =>
    match simpF cfg n b with
    | .error e => .error e
    | .ok b' => walkExists cfg (simpF cfg n) vs b'

def defaultFuel (e : Expr) : Nat := (e.size + 1) * (e.size + 1)

end Simp

/-- `Simplifier(env, problem).simplify(e)` for the environment/problem data `cfg`.
    `.ok e'` = the simplified expression; `.error` = the exception the Python code raises
    (`.fuel` never arises on the inputs of the correspondence check). -/
def simplify (cfg : SimpCfg) (e : Expr) : Except SimpErr Expr :=
  Simp.simpF cfg (Simp.defaultFuel e) e

end UPVerif
