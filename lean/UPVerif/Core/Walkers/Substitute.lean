import UPVerif.Core.Expr
import UPVerif.Core.Walkers.FreeVars
/-
`Substituter` (unified_planning/model/walkers/substituter.py) on top of `IdentityDagWalker`
(identitydag.py).

* the walk is bottom-up, but `walk_replace_or_identity` looks the ORIGINAL node up in the map:
  a key occurrence is replaced as a whole and nothing is substituted inside the inserted value;
* a node that is not a key is rebuilt from its substituted children THROUGH THE MANAGER's
  constructors (`And`/`Or`/`Plus`/`Times` collapse 0/1 arguments, `Not` collapses a double negation);
* at a quantifier every pair whose KEY has a free variable bound there is dropped for the body
  (`_push_with_children_to_stack`), then the quantifier node itself is looked up.

The type-compatibility check of `substitute()` (all pairs, before the walk) is modelled in
`substituteChecked` with the compatibility test as a parameter (it needs `typeOf`, C15).
-/
namespace UPVerif.Expr

/-- a Python dict FNode → FNode in insertion order; keys are unique, lookup = first match -/
abbrev Subst := List (Expr × Expr)

/-- `IdentityDagWalker.walk_*`: rebuild a node from new children through the manager -/
def rebuild (op : Op) (args : List Expr) : Expr :=
  match op, args with
  | .and, as => mkAnd as
  | .or, as => mkOr as
  | .not, [x] => mkNot x
  | .plus, as => mkPlus as
  | .times, as => mkTimes as
  | op, as => .app op as

mutual
/-- `Substituter.walk` with `subs = σ` (no type check) -/
def subst (σ : Subst) : Expr → Expr
  | .leaf l =>
    match σ.lookup (.leaf l) with
    | some v => v
    | none => .leaf l
  | .app op args =>
    match σ.lookup (.app op args) with
    | some v => v
    | none => rebuild op (substList σ args)
  | .quant q vs body =>
    let σ' := σ.filter (fun kv => (freeVars kv.1).all (fun m => !vs.contains m))
    match σ.lookup (.quant q vs body) with
    | some v => v
    | none => .quant q vs (subst σ' body)
def substList (σ : Subst) : List Expr → List Expr
  | [] => []
  | e :: es => subst σ e :: substList σ es
end

/-- `Substituter.substitute`: empty map → identity; any incompatible pair → error, else walk -/
def substituteChecked (compat : Expr → Expr → Bool) (σ : Subst) (e : Expr) : Option Expr :=
  if σ.isEmpty then some e
  else if σ.all (fun kv => compat kv.1 kv.2) then some (subst σ e)
  else none

end UPVerif.Expr
