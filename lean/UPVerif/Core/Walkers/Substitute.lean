import UPVerif.Core.Expr
import UPVerif.Core.Walkers.FreeVars
/-
`Substituter` (unified_planning/model/walkers/substituter.py) on top of `IdentityDagWalker`
(identitydag.py) and `DagWalker` (dag.py).

What the Python does, function by function (line numbers of substituter.py after the C13 fix
`notes/patches/C13-substituter-top-down.patch`):

* `DagWalker.walk/iter_walk/_process_stack` (dag.py:46-105): every node is first handed to
  `_push_with_children_to_stack`, which either memoises a result directly or pushes the node and its
  children; once the children are memoised `_compute_node_result` calls
  `walk_replace_or_identity(node, args = results of the children, subs)`.  The memo is keyed by the
  node only and is cleared after every walk (`invalidate_memoization=True`); within one walk `subs`
  is constant, so the machine computes the pure recursion `subst` below (the machine itself —
  stack, memo, failure — is property C14's model).
* `_push_with_children_to_stack` (substituter.py:40-80):
    1. (the fix) a node that IS a key is memoised as its value; its children are not visited;
    2. a quantifier: the pairs whose KEY has a free variable bound here are dropped
       (`keptUnder`), the body goes through a FRESH `Substituter.substitute(body, new_subs)` — which
       returns the body untouched when `new_subs` is empty (substituter.py:115) and otherwise re-checks
       the (already checked) pairs and walks — then `walk_replace_or_identity(quantifier, [res])`;
    3. anything else: children first.
* `walk_replace_or_identity` (substituter.py:128-141): look the ORIGINAL node up in `subs`; if absent
  rebuild it from the new children through `IdentityDagWalker.walk_<op>`, i.e. through the
  expression manager's constructors (`And`/`Or`/`Plus`/`Times` collapse 0/1 arguments, `Not`
  collapses a double negation; quantifiers keep their variable tuple in order).
* `substitute` (substituter.py:82-126): empty map → the expression itself; every pair is
  type-checked BEFORE the walk, the first incompatible pair raises `UPTypeError`.

Not modelled here: the type check of every rebuilt node done by `ExpressionManager.create_node`
(a rebuilt node that is ill-typed makes the real walk raise; the check keeps its inputs to maps
whose result is constructible, see harness/props/C13.py ASSUMPTIONS — typing is C15's model).
-/
namespace UPVerif.Expr

/-- a Python dict FNode → FNode in insertion order; keys are unique, lookup = first match -/
abbrev Subst := List (Expr × Expr)

/-- `IdentityDagWalker.walk_<op>(expression, args)` (identitydag.py:40-148): rebuild a node from
    new children through the manager -/
def rebuild (op : Op) (args : List Expr) : Expr :=
  match op, args with
  | .and, as => mkAnd as
  | .or, as => mkOr as
  | .not, [x] => mkNot x
  | .plus, as => mkPlus as
  | .times, as => mkTimes as
  | op, as => .app op as

/-- `IdentityDagWalker.super(self, expression, args)`: the identity handler of the node's kind.
    Leaves are re-created from their payload (same hash-consed node); a quantifier is re-created
    around the new body with `expression.variables()` in their original order. -/
def identityNode : Expr → List Expr → Expr
  | .leaf l, _ => .leaf l
  | .app op _, args => rebuild op args
  | .quant q vs _, [b] => .quant q vs b
  | .quant q vs b, _ => .quant q vs b

/-- `Substituter.walk_replace_or_identity(expression, args, subs)` (substituter.py:128-141) -/
def walkReplaceOrIdentity (σ : Subst) (e : Expr) (args : List Expr) : Expr :=
  match σ.lookup e with
  | some v => v
  | none => identityNode e args

/-- does the key `k` mention (free) a variable bound by a quantifier over `vs`? -/
def capturedBy (vs : List Var) (k : Expr) : Bool := (freeVars k).any (fun m => vs.contains m)

/-- `_push_with_children_to_stack`, step 1 of the quantifier case (substituter.py:53-64): the pairs
    that stay active in the body of a quantifier over `vs` -/
def keptUnder (vs : List Var) (σ : Subst) : Subst :=
  σ.filter (fun kv => (freeVars kv.1).all (fun m => !vs.contains m))

mutual
/-- the variables bound by the quantifiers of an expression (used to state capture conditions) -/
def boundVars : Expr → List Var
  | .leaf _ => []
  | .app _ args => boundVarsList args
  | .quant _ vs b => vs ++ boundVars b
def boundVarsList : List Expr → List Var
  | [] => []
  | e :: es => boundVars e ++ boundVarsList es
end

mutual
/-- the result memoised for a node by one `Substituter.walk(expression, subs = σ)` -/
def subst (σ : Subst) : Expr → Expr
  | .leaf l =>
    match σ.lookup (.leaf l) with
    | some v => v                                              -- push: node is a key
    | none => walkReplaceOrIdentity σ (.leaf l) []
  | .app op args =>
    match σ.lookup (.app op args) with
    | some v => v                                              -- push: node is a key
    | none => walkReplaceOrIdentity σ (.app op args) (substList σ args)
  | .quant q vs body =>
    match σ.lookup (.quant q vs body) with
    | some v => v                                              -- push: node is a key
    | none =>
      let σ' := keptUnder vs σ
      -- `sub.substitute(expression.arg(0), new_subs)` on a fresh Substituter
      let res := if σ'.isEmpty then body else subst σ' body
      walkReplaceOrIdentity σ (.quant q vs body) [res]
def substList (σ : Subst) : List Expr → List Expr
  | [] => []
  | e :: es => subst σ e :: substList σ es
end

/-- `Substituter.substitute(expression, substitutions)` (substituter.py:82-126) with the verdict of
    `new_k.type.is_compatible(new_v.type)` as a parameter: empty map → the expression itself;
    any incompatible pair → `UPTypeError` (`none`) before the walk starts; otherwise the walk. -/
def substituteChecked (compat : Expr → Expr → Bool) (σ : Subst) (e : Expr) : Option Expr :=
  if σ.isEmpty then some e
  else if σ.all (fun kv => compat kv.1 kv.2) then some (subst σ e)
  else none

end UPVerif.Expr
