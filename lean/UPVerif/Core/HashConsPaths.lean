import UPVerif.Core.HashCons
/-!
Every OTHER public way of building an expression, on top of the `ExpressionManager` constructors of
`Core/HashCons.lean`:

* the infix operators and named helper methods of `FNode` (`unified_planning/model/fnode.py:404-495`)
  and the identical tables of `Fluent` (`fluent.py:143-249`, plus `__call__`), `Parameter`
  (`parameter.py:80-171`), `Variable` (`variable.py:80-171`) and `Object.Equals` (`object.py:85`);
* the helper functions of `unified_planning.shortcuts` (`shortcuts.py:41-466`), one-line forwards to
  the expression manager of the current environment;
* CPython's choice between the forward and the reflected method of a binary operator.

Each of these is written exactly as the code writes it: a call (or, for the xor family, four calls)
of a manager constructor with the receiver placed among the arguments.  The receiver is an `Arg`
like any other argument — the constructors `auto_promote` it again.
Mathlib-free, total.
-/
namespace UPVerif.HashCons

/-- the methods of the infix tables (same names and bodies in fnode.py / fluent.py / parameter.py /
    variable.py; `Object` offers `Equals` only) -/
inductive Meth
  | add | radd | sub | rsub | mul | rmul | truediv | rtruediv | floordiv | rfloordiv
  | gt | ge | lt | le | pos | neg | equals
  | and_ | dand | rand | or_ | dor | ror | not_ | invert
  | xor | dxor | rxor | implies | iff
  deriving DecidableEq, Repr, Inhabited

/-- the body shared by `Xor`, `__xor__` and `__rxor__` (fnode.py:479-489):
    `em.And(em.Or(*xs), em.Not(em.And(*xs)))`; Python evaluates `em.Or(..)` first, then
    `em.And(..)`, then `em.Not(..)`, then the outer `em.And`; the first error propagates (the nodes
    created so far stay). -/
def xorVia (m : Mgr) (xs : List (PArg Arg)) : Option (Mgr × Res) :=
  match apply m .or xs with
  | none => none
  | some (m1, .err e) => some (m1, .err e)
  | some (m1, .ok o) =>
    match apply m1 .and xs with
    | none => none
    | some (m2, .err e) => some (m2, .err e)
    | some (m2, .ok a) =>
      match apply m2 .not [.one (.node a)] with
      | none => none
      | some (m3, .err e) => some (m3, .err e)
      | some (m3, .ok n) => apply m3 .and [.one (.node o), .one (.node n)]

/-- `self.<meth>(*others)`.  `none` = outside the model (wrong number of positional arguments). -/
def applyMeth (m : Mgr) (self : Arg) : Meth → List (PArg Arg) → Option (Mgr × Res)
  | .add, [r] => apply m .plus [.one self, r]                  -- fnode.py:404  Plus(self, right)
  | .radd, [l] => apply m .plus [l, .one self]                 -- fnode.py:407  Plus(left, self)
  | .sub, [r] => apply m .minus [.one self, r]                 -- fnode.py:410
  | .rsub, [l] => apply m .minus [l, .one self]                -- fnode.py:413
  | .mul, [r] => apply m .times [.one self, r]                 -- fnode.py:416
  | .rmul, [l] => apply m .times [l, .one self]                -- fnode.py:419
  | .truediv, [r] => apply m .div [.one self, r]               -- fnode.py:422
  | .rtruediv, [l] => apply m .div [l, .one self]              -- fnode.py:425
  | .floordiv, [r] => apply m .div [.one self, r]              -- fnode.py:428  (also `Div`)
  | .rfloordiv, [l] => apply m .div [l, .one self]             -- fnode.py:431
  | .gt, [r] => apply m .gt [.one self, r]                     -- fnode.py:434  GT(self, right)
  | .ge, [r] => apply m .ge [.one self, r]                     -- fnode.py:437
  | .lt, [r] => apply m .lt [.one self, r]                     -- fnode.py:440
  | .le, [r] => apply m .le [.one self, r]                     -- fnode.py:443
  | .pos, [] => apply m .plus [.one (.num (.int 0)), .one self]    -- fnode.py:446  Plus(0, self)
  | .neg, [] => apply m .minus [.one (.num (.int 0)), .one self]   -- fnode.py:449  Minus(0, self)
  | .equals, [r] => apply m .equals [.one self, r]             -- fnode.py:452
  | .and_, os => apply m .and (.one self :: os)                -- fnode.py:455  And(self, *other)
  | .dand, os => apply m .and (.one self :: os)                -- fnode.py:458
  | .rand, os => apply m .and (os ++ [.one self])              -- fnode.py:461  And(*other, self)
  | .or_, os => apply m .or (.one self :: os)                  -- fnode.py:464
  | .dor, os => apply m .or (.one self :: os)                  -- fnode.py:467
  | .ror, os => apply m .or (os ++ [.one self])                -- fnode.py:470
  | .not_, [] => apply m .not [.one self]                      -- fnode.py:473  Not(self)
  | .invert, [] => apply m .not [.one self]                    -- fnode.py:476  Not(self)
  | .xor, os => xorVia m (.one self :: os)                     -- fnode.py:479
  | .dxor, os => xorVia m (.one self :: os)                    -- fnode.py:483
  | .rxor, os => xorVia m (os ++ [.one self])                  -- fnode.py:487 (repaired: `*other`)
  | .implies, [r] => apply m .implies [.one self, r]           -- fnode.py:491
  | .iff, [r] => apply m .iff [.one self, r]                   -- fnode.py:494
  | _, _ => none

/-- does the class of the receiver define the method?  `FNode`, `Fluent`, `Parameter`, `Variable`
    define the whole table, `Object` only `Equals`; Python constants define none of them. -/
def offers : Arg → Meth → Bool
  | .node _, _ | .fluent _ _, _ | .param _, _ | .var _, _ => true
  | .obj _, .equals => true
  | _, _ => false

/-- the binary operator symbols of Python that the tables overload -/
inductive Infix
  | add | sub | mul | truediv | floordiv | lt | le | gt | ge | and_ | or_ | xor
  deriving DecidableEq, Repr, Inhabited

def Infix.forward : Infix → Meth
  | .add => .add | .sub => .sub | .mul => .mul | .truediv => .truediv | .floordiv => .floordiv
  | .lt => .lt | .le => .le | .gt => .gt | .ge => .ge | .and_ => .dand | .or_ => .dor | .xor => .dxor

/-- the reflected method CPython tries on the right operand when the left operand's class does not
    handle the operator (`__radd__` …; for comparisons the mirrored comparison) -/
def Infix.reflected : Infix → Meth
  | .add => .radd | .sub => .rsub | .mul => .rmul | .truediv => .rtruediv | .floordiv => .rfloordiv
  | .lt => .gt | .le => .ge | .gt => .lt | .ge => .le | .and_ => .rand | .or_ => .ror | .xor => .rxor

/-- is the argument an instance of a class that carries the infix table? -/
def Arg.hasInfix : Arg → Bool
  | .node _ | .fluent _ _ | .param _ | .var _ => true
  | _ => false

/-- `l <op> r` (CPython `binary_op1` / `do_richcompare`, modelled not verified): the left operand's
    method if its class has one, else the reflected method of the right operand.  (`bool`, `int`,
    `float`, `Fraction`, `str` return `NotImplemented` for an operand of a foreign class.)
    `none`: neither side can handle the operator (TypeError) — outside the model. -/
def applyInfix (m : Mgr) (op : Infix) (l r : PArg Arg) : Option (Mgr × Res) :=
  match l with
  | .one a =>
    if a.hasInfix then applyMeth m a op.forward [r]
    else match r with
      | .one b => if b.hasInfix then applyMeth m b op.reflected [l] else none
      | .many _ => none
  | .many _ => none

inductive Unary
  | invert | neg | pos
  deriving DecidableEq, Repr, Inhabited

def Unary.meth : Unary → Meth
  | .invert => .invert | .neg => .neg | .pos => .pos

/-- one construction, with the path by which it is made -/
inductive Path
  /-- `em.<Ctor>(*args)` -/
  | em (c : Ctor)
  /-- `unified_planning.shortcuts.<Ctor>(*args)` = `get_environment().expression_manager.<Ctor>(*args)` -/
  | shortcut (c : Ctor)
  /-- `self.<meth>(*args)` called by name (`a.And(b, c)`, `a.Not()`, `a.__radd__(3)`, …) -/
  | meth (self : SArg) (f : Meth)
  /-- `l <op> r` written with the Python operator; the two operands are the arguments -/
  | infix (op : Infix)
  /-- `~x`, `-x`, `+x`; the operand is the argument -/
  | unary (op : Unary)
  /-- `fluent(*args)` (`Fluent.__call__`, fluent.py:143): `FluentExp(self, args)` -/
  | call (key : String) (arity : Nat)
  deriving Repr, Inhabited

structure PCmd where
  path : Path
  args : List (PArg SArg)
  deriving Repr, Inhabited

/-- all arguments of `fluent(*args)` arrive as ONE tuple -/
def tupleOf : List (PArg Arg) → Option (List Arg)
  | [] => some []
  | .one a :: r => (tupleOf r).map (a :: ·)
  | .many _ :: _ => none

def applyPath (m : Mgr) (rs : List Res) : Path → List (PArg Arg) → Option (Mgr × Res)
  | .em c, as => apply m c as
  | .shortcut c, as => apply m c as
  | .meth s f, as =>
    match s.resolve rs with
    | none => none
    | some self => if offers self f then applyMeth m self f as else none
  | .infix op, [l, r] => applyInfix m op l r
  | .unary op, [.one x] => if x.hasInfix then applyMeth m x op.meth [] else none
  | .call k ar, as =>
    match tupleOf as with
    | none => none
    | some t => apply m (.fluentExp k ar) [.many t]
  | _, _ => none

/-- one construction of a path history -/
def pstep (m : Mgr) (rs : List Res) (c : PCmd) : Option (Mgr × Res) :=
  match c.args.mapM (resolveP rs) with
  | none => none
  | some as => applyPath m rs c.path as

def prun (m : Mgr) (rs : List Res) : List PCmd → Option (Mgr × List Res)
  | [] => some (m, rs)
  | c :: cs =>
    match pstep m rs c with
    | none => none
    | some (m1, r) => prun m1 (rs ++ [r]) cs

/-- the documented double-negation normal form of the whole table: no NOT node has a NOT child -/
def NoNotNot (m : Mgr) : Prop :=
  ∀ (r : Ref) (n : FNode), m.heap[r]? = some n → n.content.op = .not →
    ∀ x ∈ n.content.args, ∀ c : FNode, m.heap[x]? = some c → c.content.op ≠ .not

end UPVerif.HashCons
