import UPVerif.Core.Mangle
/-
Reference predicates for C38, written from the grammars of the target languages (NOT from the writers):

* PDDL 3.1 BNF: `<name> ::= <letter> <any char>*`, `<any char> ::= <letter> | <digit> | - | _`,
  `<variable> ::= ?<name>`; PDDL is case-insensitive, so two names clash when they agree after lower-casing;
* ANML identifiers: a letter followed by letters, digits and `_`; case-sensitive.

and the decidable side conditions on the regenerated tables (`Gen/Keywords.lean`) under which the
theorems of `Props/C38.lean` hold.  They are re-decided by the kernel on every regeneration.
-/
namespace UPVerif.Mangle

def pddlChar (c : Char) : Bool := c.isAlphanum || c == '-' || c == '_'

def isPddlName : Name → Bool
  | [] => false
  | c :: cs => c.isAlpha && cs.all pddlChar

def isPddlVariable : Name → Bool
  | '?' :: n => isPddlName n
  | _ => false

/-- no upper-case ASCII letter: lower-casing (the case folding of PDDL) leaves the name unchanged -/
def lowerCase (n : Name) : Bool := n.all (fun c => !c.isUpper)

def anmlChar (c : Char) : Bool := c.isAlphanum || c == '_'

def isAnmlIdent : Name → Bool
  | [] => false
  | c :: cs => c.isAlpha && cs.all anmlChar

/-- the name ends in `_<digits>` (the shape of the counter suffix both writers append) -/
def endsCounter (k : Name) : Bool :=
  let r := k.reverse
  !(r.takeWhile Char.isDigit).isEmpty && (r.dropWhile Char.isDigit).head? == some '_'

/-- side conditions on a keyword list: no keyword looks like a counter-suffixed name, none starts with `?`,
    and `object_` (the replacement for a type called `object`) is not a keyword -/
def kwOK (kw : List Name) : Bool :=
  kw.all (fun k => !endsCounter k && k.head? != some '?') && !kw.contains (objectName ++ ['_'])

def allPddlKeywords (T : Tables) : List Name :=
  T.pddlGeneral ++ T.pddlPlus ++ T.pddl3 ++ T.pddlTemporal ++ T.pddlContingent ++ T.pddlHddl

/-- side conditions on the PDDL tables: a name that passes the start test keeps its first character, which is
    a letter; the substitution only lets PDDL characters through; the letters put in front are lower-case
    letters that survive the substitution -/
def pddlTablesOK (T : Tables) : Bool :=
  T.pddlStart.all (fun c => c.isAlpha && T.pddlKeep.contains c)
  && T.pddlKeep.all pddlChar
  && (T.pddlDefault :: T.pddlInitial.map (·.2)).all (fun c => c.isLower && T.pddlKeep.contains c)
  && kwOK (allPddlKeywords T)

def anmlTablesOK (T : Tables) : Bool :=
  T.anmlStart.all (fun c => c.isAlpha && T.anmlKeep.contains c)
  && T.anmlKeep.all anmlChar
  && (T.anmlDefault :: T.anmlInitial.map (·.2)).all (fun c => c.isAlpha && T.anmlKeep.contains c)
  && T.anmlFirst.all Char.isAlpha
  && T.anmlRest.all anmlChar
  && T.anmlKw.all (fun k => !endsCounter k)

end UPVerif.Mangle
