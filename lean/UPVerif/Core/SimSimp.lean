import UPVerif.Core.Expr
import UPVerif.Core.Eval
import UPVerif.Core.Walkers.FreeVars
/-
LOCAL STAND-IN for `Simplifier.simplify` (unified_planning/model/walkers/simplifier.py), used only
by the C01/C02 DRIVER until the verified model of property C11 (`Core/Walkers/Simplify.lean`) lands.
No theorem depends on this file: `Sim.ground` takes the simplifier as a parameter.

It mirrors `env.simplifier` (no problem given, hence no static fluents) method by method on the
fragment the C01 generators produce.  Deliberately NOT mirrored (generators stay out):
* `walk_exists`' elimination of `x == t` conjuncts (defects D-C11b/c/d, being repaired by C11);
* constant division by zero (`walk_div` raises `ZeroDivisionError`; left unevaluated here);
* interpreted functions whose table has no entry (left unevaluated).
-/
namespace UPVerif.SimSimp
open UPVerif UPVerif.Expr

/-- static type name of a user-typed expression (`FNode.type` for the cases `walk_equals` needs) -/
def userTy? : Expr → Option String
  | .leaf (.obj _ t) => some t
  | .leaf (.param _ (.user t)) => some t
  | .leaf (.var ⟨_, .user t⟩) => some t
  | .app (.fluent f) _ => match f.ty with | .user t => some t | _ => none
  | .app (.ifun g) _ => match g.ty with | .user t => some t | _ => none
  | _ => none

/-- `walk_not` -/
def walkNot : Expr → Expr
  | .leaf (.boolC b) => Expr.bool (!b)
  | .app .not [x] => x
  | e => .app .not [e]

/-- insertion into an `OrderedDict` used as an ordered set -/
def oinsert (acc : List Expr) (e : Expr) : List Expr := if acc.contains e then acc else acc ++ [e]

/-- inner loop of `walk_and`/`walk_or` over the (flattened) arguments: `none` = a complementary pair -/
def addAll (acc : List Expr) : List Expr → Option (List Expr)
  | [] => some acc
  | s :: ss => if acc.contains (walkNot s) then none else addAll (oinsert acc s) ss

/-- main loop of `walk_and` (`isAnd = true`) / `walk_or` (`isAnd = false`);
    `none` = the absorbing constant was found -/
def nary (isAnd : Bool) (acc : List Expr) : List Expr → Option (List Expr)
  | [] => some acc
  | a :: as =>
    match a with
    | .leaf (.boolC b) => if b == isAnd then nary isAnd acc as else none
    | .app op ss =>
      if (isAnd && op == .and) || (!isAnd && op == .or) then
        match addAll acc ss with
        | none => none
        | some acc' => nary isAnd acc' as
      else
        match addAll acc [a] with
        | none => none
        | some acc' => nary isAnd acc' as
    | _ =>
      match addAll acc [a] with
      | none => none
      | some acc' => nary isAnd acc' as

def walkAnd (args : List Expr) : Expr :=
  match args with
  | [a, b] => if a = b then a else
    match nary true [] args with
    | none => Expr.ff
    | some xs => mkAnd xs
  | _ =>
    match nary true [] args with
    | none => Expr.ff
    | some xs => mkAnd xs

def walkOr (args : List Expr) : Expr :=
  match args with
  | [a, b] => if a = b then a else
    match nary false [] args with
    | none => Expr.tt
    | some xs => mkOr xs
  | _ =>
    match nary false [] args with
    | none => Expr.tt
    | some xs => mkOr xs

def walkIff : List Expr → Expr
  | [sl, sr] =>
    match sl.boolConst?, sr.boolConst? with
    | some l, some r => Expr.bool (l == r)
    | some l, none => if l then sr else mkNot sr
    | none, some r => if r then sl else mkNot sl
    | none, none => if sl = sr then Expr.tt else mkIff sl sr
  | as => .app .iff as

def walkImplies : List Expr → Expr
  | [sl, sr] =>
    match sl.boolConst? with
    | some l => if l then sr else Expr.tt
    | none =>
      match sr.boolConst? with
      | some r => if r then Expr.tt else mkNot sl
      | none => if sl = sr then Expr.tt else mkImplies sl sr
  | as => .app .implies as

def walkEquals (E : TypeEnv) : List Expr → Expr
  | [sl, sr] =>
    match constVal? sl, constVal? sr with
    | some l, some r => Expr.bool (l == r)
    | _, _ =>
      if sl = sr then Expr.tt
      else match userTy? sl, userTy? sr with
        | some tl, some tr =>
          -- `slt.is_compatible(srt)` = srt is slt or a descendant of slt
          if !(E.isSubtype tr tl) && !(E.isSubtype tl tr) then Expr.ff else mkEq sl sr
        | _, _ => mkEq sl sr
  | as => .app .eq as

def numVal? (e : Expr) : Option Rat := (e.num?).map Num.toRat

def walkLE : List Expr → Expr
  | [sl, sr] => match numVal? sl, numVal? sr with
    | some l, some r => Expr.bool (decide (l ≤ r))
    | _, _ => mkLE sl sr
  | as => .app .le as

def walkLT : List Expr → Expr
  | [sl, sr] => match numVal? sl, numVal? sr with
    | some l, some r => Expr.bool (decide (l < r))
    | _, _ => mkLT sl sr
  | as => .app .lt as

/-- `walk_plus`: constants (also those one level inside a nested `Plus`) are accumulated, the
    rest is kept in order -/
def plusLoop : List Expr → Num → List Expr → Num × List Expr
  | [], acc, out => (acc, out)
  | a :: as, acc, out =>
    match a.num? with
    | some n => plusLoop as (acc.add n) out
    | none =>
      match a with
      | .app .plus ss =>
        let r := ss.foldl (fun (p : Num × List Expr) s => match s.num? with
          | some n => (p.1.add n, p.2)
          | none => (p.1, p.2 ++ [s])) (acc, out)
        plusLoop as r.1 r.2
      | _ => plusLoop as acc (out ++ [a])

def walkPlus (args : List Expr) : Expr :=
  let (acc, out) := plusLoop args (.i 0) []
  if acc.toRat ≠ 0 then mkPlus (out ++ [acc.toExpr])
  else if out.isEmpty then Expr.int 0 else mkPlus out

def walkMinus : List Expr → Expr
  | [l, r] =>
    match l.num?, r.num? with
    | some a, some b => (a.sub b).toExpr
    | none, some b => if b.toRat < 0 then mkPlus [l, b.neg.toExpr] else mkMinus l r
    | _, _ => mkMinus l r
  | as => .app .minus as

/-- `walk_times`: `none` = a zero constant was met -/
def timesLoop : List Expr → Num → List Expr → Option (Num × List Expr)
  | [], acc, out => some (acc, out)
  | a :: as, acc, out =>
    match a.num? with
    | some n => if n.toRat = 0 then none else timesLoop as (acc.mul n) out
    | none =>
      match a with
      | .app .times ss =>
        let r := ss.foldl (fun (p : Option (Num × List Expr)) s => match p with
          | none => none
          | some (ac, ou) => match s.num? with
            | some n => if n.toRat = 0 then none else some (ac.mul n, ou)
            | none => some (ac, ou ++ [s])) (some (acc, out))
        match r with
        | none => none
        | some (ac, ou) => timesLoop as ac ou
      | _ => timesLoop as acc (out ++ [a])

def walkTimes (args : List Expr) : Expr :=
  match timesLoop args (.i 1) [] with
  | none => Expr.int 0
  | some (acc, out) =>
    if acc.toRat ≠ 1 then mkTimes (out ++ [acc.toExpr])
    else if out.isEmpty then Expr.int 1 else mkTimes out

def walkDiv : List Expr → Expr
  | [l, r] =>
    match l.num?, r.num? with
    | some (.i a), some (.i b) =>
      if b = 0 then mkDiv l r
      else if a % b = 0 then Expr.int (a / b) else Expr.real ((a : Rat) / (b : Rat))
    | some a, some b => if b.toRat = 0 then mkDiv l r else Expr.real (a.toRat / b.toRat)
    | _, _ => mkDiv l r
  | as => .app .div as

def valToExpr (ty : Ty) : Val → Option Expr
  | .b x => some (Expr.bool x)
  | .n q => (match ty with
    | .int _ _ => if q.den = 1 then some (Expr.int q.num) else none
    | .real _ _ => some (Expr.real q)
    | _ => none)
  | .o n => (match ty with
    | .user t => some (.leaf (.obj n t))     -- declared type of the object is not known here
    | _ => none)

/-- `walk_interpreted_function_exp` -/
def walkIfun (fn : FunRef → List Val → Option Val) (g : FunRef) (args : List Expr) : Expr :=
  match args.mapM constVal? with
  | none => .app (.ifun g) args
  | some vs =>
    match (fn g vs).bind (valToExpr g.ty) with
    | some e => e
    | none => .app (.ifun g) args

def dedupVars (vs : List Var) : List Var := vs.foldl (fun acc v => if acc.contains v then acc else acc ++ [v]) []

/-- `walk_forall`; `walk_exists` WITHOUT its equality elimination (single-variable `Exists` only,
    see the generators' assumptions: the rebuilt variable list comes out of a Python `set`) -/
def walkQuant (q : Quant) (vs : List Var) (body : Expr) : Expr :=
  let fv := freeVars body
  let vs' := match q with
    | .all => vs.filter (fun v => fv.contains v)
    | .ex => dedupVars (vs.filter (fun v => fv.contains v))
  if vs'.isEmpty then body else .quant q vs' body

def walkOp (E : TypeEnv) (fn : FunRef → List Val → Option Val) (op : Op) (args : List Expr) : Expr :=
  match op with
  | .and => walkAnd args
  | .or => walkOr args
  | .not => (match args with | [x] => walkNot x | _ => .app .not args)
  | .iff => walkIff args
  | .implies => walkImplies args
  | .eq => walkEquals E args
  | .le => walkLE args
  | .lt => walkLT args
  | .plus => walkPlus args
  | .minus => walkMinus args
  | .times => walkTimes args
  | .div => walkDiv args
  | .ifun g => walkIfun fn g args
  | op => .app op args

mutual
def simp (E : TypeEnv) (fn : FunRef → List Val → Option Val) : Expr → Expr
  | .leaf l => .leaf l
  | .app op args => walkOp E fn op (simpList E fn args)
  | .quant q vs b => walkQuant q vs (simp E fn b)
def simpList (E : TypeEnv) (fn : FunRef → List Val → Option Val) : List Expr → List Expr
  | [] => []
  | e :: es => simp E fn e :: simpList E fn es
end

end UPVerif.SimSimp
