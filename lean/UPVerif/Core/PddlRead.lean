import UPVerif.Core.Sexp
import UPVerif.Core.Expr
import UPVerif.Core.Problem
import UPVerif.Core.PddlNum
import UPVerif.Core.PddlPrint
import UPVerif.Core.Walkers.FreeVars
/-
Reference reader: the s-expression TREES of a PDDL domain and problem ↦ problem syntax, mirroring
`UPPDDLReader._parse_problem` (unified_planning/io/up_pddl_reader.py:1365) and its helpers `_parse_exp` (:406),
`_add_effect` (:594), `_instantaneous_action_has_cost` (:1330), `_problem_has_actions_cost` (:1344) on the
classical / numeric fragment (instantaneous actions; no tasks, methods, processes, events, durative actions,
timed initial literals, trajectory constraints — those sections make the model answer `none`).

NOT modelled (see harness/props/C18.py MODELLED): the pyparsing tokenisation (the model starts from trees and
does not check that a token is a legal PDDL name), the type checks and the static effect-conflict check the
model builder performs when expressions / effects are added (the harness keeps texts well typed), and the
`cond.simplify()` applied to `when` conditions (up_pddl_reader.py:628) — the correspondence compares effect
conditions after simplifying BOTH sides with the real simplifier.

`none` = the real reader raises, or the text is outside the modelled fragment.
-/
namespace UPVerif.Pddl
open UPVerif

/-! ### lower-casing (`domain_str.lower()`), ASCII -/

def lowerStr (s : String) : String := String.ofList (s.toList.map Char.toLower)

mutual
def lowerSexp : Sexp → Sexp
  | .atom s => .atom (lowerStr s)
  | .list xs => .list (lowerSexps xs)
def lowerSexps : List Sexp → List Sexp
  | [] => []
  | x :: xs => lowerSexp x :: lowerSexps xs
end

/-! ### typed lists: `Group(OneOrMore(name)) + Optional("-" name)` repeated -/

/-- `?x` ↦ `x` -/
def stripQ (s : String) : Option String :=
  match s.toList with
  | '?' :: r => some (String.ofList r)
  | _ => none

/-- one pass of the greedy pyparsing rule over a flat token list.  `vars = true`: the names are `?`-variables.
    `pending` = names of the group being read (reversed). -/
def typedGroups (vars : Bool) : List Sexp → List String → Option (List (List String × Option String))
  | [], pend => if pend.isEmpty then some [] else some [(pend.reverse, none)]
  | .list _ :: _, _ => none
  | .atom n :: rest, pend =>
    if n == "-" then
      match rest with
      | .atom t :: rest' =>
        if pend.isEmpty then none
        else (typedGroups vars rest' []).map (fun gs => (pend.reverse, some t) :: gs)
      | _ => none
    else if vars then
      match stripQ n with
      | some v => typedGroups vars rest (v :: pend)
      | none => none
    else typedGroups vars rest (n :: pend)

def typedList (vars : Bool) (ts : List Sexp) : Option (List (List String × Option String)) := typedGroups vars ts []

/-- untyped or typed `object` somewhere (`_check_if_object_type_is_needed`) -/
def groupsNeedObject (gs : List (List String × Option String)) : Bool :=
  gs.any (fun g => g.2 == none || g.2 == some "object")

/-! ### reading environment -/

structure REnv where
  /-- keys of `types_map` -/
  types : List String
  /-- `problem.fluents` -/
  fluents : List FluentRef
  /-- `problem.all_objects` : (name, type) -/
  objects : List (String × String)
  /-- parameters of the action being read; `none` = no action (`act is None`) -/
  params : Option (List (String × Ty))
  deriving Inhabited

def REnv.fluent? (E : REnv) (n : String) : Option FluentRef := E.fluents.find? (fun f => f.name == n)
def REnv.object? (E : REnv) (n : String) : Option String := E.objects.lookup n

/-- `types_map[g[1] if len(g) > 1 else "object"]` -/
def REnv.tyOf (E : REnv) (t : Option String) : Option Ty :=
  let n := t.getD "object"
  if E.types.contains n then some (.user n) else none

/-- variables declared by a typed `?`-list, in order (a later duplicate replaces the type, keeps the place) -/
def declVars (E : REnv) : List (List String × Option String) → Option (List Var)
  | [] => some []
  | (ns, t) :: gs => do
    let ty ← E.tyOf t
    let rest ← declVars E gs
    some (ns.map (fun n => ({ name := n, ty := ty } : Var)) ++ rest)

def lookupVar (scope : List Var) (n : String) : Option Var := scope.find? (fun v => v.name == n)

/-! ### expressions — `_parse_exp` -/

def numLeaf (q : Rat) : Expr := if q.den == 1 then Expr.int q.num else Expr.real q

def readAtom (E : REnv) (scope : List Var) (s : String) : Option Expr :=
  match stripQ s with
  | some v =>
    match lookupVar scope v with
    | some x => some (.leaf (.var x))                       -- variable of an enclosing quantifier
    | none =>
      match E.params with                                    -- action parameter
      | some ps => (ps.lookup v).map (fun ty => .leaf (.param v ty))
      | none => none
  | none =>
    match E.fluent? s with
    | some f => if f.sig.isEmpty then some (.app (.fluent f) []) else none     -- FluentExp(fluent) checks the arity
    | none =>
      match E.object? s with
      | some t => some (.leaf (.obj s t))
      | none => (parseNumber s).map numLeaf                  -- Fraction(token)

/-- the manager constructor behind an operator token (`self._operators`) -/
def applyOp (op : String) (args : List Expr) : Option Expr :=
  match op, args with
  | "and", as => some (Expr.mkAnd as)
  | "or", as => some (Expr.mkOr as)
  | "not", [a] => some (Expr.mkNot a)
  | "imply", [a, b] => some (Expr.mkImplies a b)
  | ">=", [a, b] => some (Expr.mkGE a b)
  | "<=", [a, b] => some (Expr.mkLE a b)
  | ">", [a, b] => some (Expr.mkGT a b)
  | "<", [a, b] => some (Expr.mkLT a b)
  | "=", [a, b] => some (Expr.mkEq a b)
  | "+", as => some (Expr.mkPlus as)
  | "-", [a, b] => some (Expr.mkMinus a b)
  | "/", [a, b] => some (Expr.mkDiv a b)
  | "*", as => some (Expr.mkTimes as)
  | _, _ => none

def isOperator (s : String) : Bool :=
  ["and", "or", "not", "imply", ">=", "<=", ">", "<", "=", "+", "-", "/", "*"].contains s

def isTrajOp (s : String) : Bool :=
  ["always", "sometime", "sometime-before", "sometime-after", "at-most-once"].contains s

/-- later declarations shadow earlier ones (`all_vars.update(new_vars)`) -/
def extendScope (scope new : List Var) : List Var := new ++ scope

/-- unary minus: `Times(-1, e)` -/
def negate : List Expr → Option Expr
  | [e] => some (Expr.mkTimes [Expr.int (-1), e])
  | _ => none

def quantOf (h : String) : Quant := if h == "exists" then .ex else .all

mutual
def readExpr (E : REnv) (scope : List Var) : Sexp → Option Expr
  | .atom s => readAtom E scope s
  | .list xs => readList E scope xs
/-- a parenthesised form; the dispatch order is that of `_parse_exp` -/
def readList (E : REnv) (scope : List Var) : List Sexp → Option Expr
  | [] => some Expr.tt                                                   -- empty precondition
  | .atom h :: rest =>
    if h == "-" && rest.length == 1 then (readExprs E scope rest).bind negate          -- unary minus
    else if isOperator h then (readExprs E scope rest).bind (applyOp h)
    else if h == "exists" || h == "forall" then
      match rest with
      | [.list vl, body] =>
        match (typedList true vl).bind (declVars E) with
        | some vs =>
          if vs.isEmpty then none
          else (readExpr E (extendScope scope vs) body).map (fun b => .quant (quantOf h) vs b)
        | none => none
      | _ => none
    else if isTrajOp h then none                                          -- trajectory constraints: not modelled
    else
      match E.fluent? h with
      | some f =>
        (readExprs E scope rest).bind (fun as => if as.length == f.sig.length then some (.app (.fluent f) as) else none)
      | none => if rest.isEmpty then readAtom E scope h else none          -- `(x)`: an element inside brackets
  | .list ys :: rest => if rest.isEmpty then readList E scope ys else none
def readExprs (E : REnv) (scope : List Var) : List Sexp → Option (List Expr)
  | [] => some []
  | x :: xs => do
    let e ← readExpr E scope x
    let es ← readExprs E scope xs
    some (e :: es)
end

/-! ### effects — `_add_effect` (breadth-first over `and` / `when` / `forall`) -/

structure EffItem where
  exp : Sexp
  cond : Expr
  vars : List Var

/-- `Effect.__init__`: the universally quantified variables that occur free, in declaration order -/
def mkEffect (f v c : Expr) (k : EffKind) (vars : List Var) : Effect :=
  let fv := Expr.freeVars f ++ Expr.freeVars v ++ Expr.freeVars c
  { fluent := f, value := v, cond := c, kind := k, forall_ := (vars.filter (fun x => fv.contains x)).eraseDups }

def isFluentExp : Expr → Bool
  | .app (.fluent _) _ => true
  | _ => false

/-- an effect `f := v` under the item's condition and variables; `f` must be a fluent expression -/
def leafEffect (it : EffItem) (f v : Expr) (k : EffKind) : Option (List Effect × List EffItem) :=
  if isFluentExp f then some ([mkEffect f v it.cond k it.vars], []) else none

/-- `(assign f v)`, `(increase f v)`, `(decrease f v)` -/
def binEffect (E : REnv) (it : EffItem) (k : EffKind) : List Sexp → Option (List Effect × List EffItem)
  | [x, y] => do
    let f ← readExpr E it.vars x
    let v ← readExpr E it.vars y
    leafEffect it f v k
  | _ => none

/-- one step of the `while to_add:` loop on the popped item: the effects it adds and the items it enqueues -/
def effStep (E : REnv) (it : EffItem) : Option (List Effect × List EffItem) :=
  match it.exp with
  | .atom _ => none                                                       -- `exp[0].value` on a bare token raises
  | .list [] => some ([], [])                                             -- `:effect ()`
  | .list (.list ys :: rest) =>
    (readList E it.vars (.list ys :: rest)).bind (fun f => leafEffect it f Expr.tt .assign)
  | .list (.atom h :: rest) =>
    if h == "and" then some ([], rest.map (fun s => { it with exp := s }))
    else if h == "when" then
      match rest with
      | [c, e] => (readExpr E it.vars c).map (fun c' => ([], [{ exp := e, cond := c', vars := it.vars }]))
      | _ => none
    else if h == "not" then
      match rest with
      | [x] => (readExpr E it.vars x).bind (fun f => leafEffect it f Expr.ff .assign)
      | _ => none
    else if h == "assign" then binEffect E it .assign rest
    else if h == "increase" then binEffect E it .increase rest
    else if h == "decrease" then binEffect E it .decrease rest
    else if h == "forall" then
      match rest with
      | [.list vl, e] =>
        if !it.vars.isEmpty then none                                      -- nested forall on effects
        else
          match (typedList true vl).bind (declVars E) with
          | some vs => some ([], [{ exp := e, cond := it.cond, vars := vs }])
          | none => none
      | _ => none
    else (readList E it.vars (.atom h :: rest)).bind (fun f => leafEffect it f Expr.tt .assign)

/-- the queue loop; the fuel bounds the number of popped items -/
def effLoop (E : REnv) : Nat → List EffItem → Option (List Effect)
  | _, [] => some []
  | 0, _ :: _ => none
  | fuel + 1, it :: q => do
    let (es, more) ← effStep E it
    let rest ← effLoop E fuel (q ++ more)
    some (es ++ rest)

mutual
def sexpSize : Sexp → Nat
  | .atom _ => 1
  | .list xs => 1 + sexpSizes xs
def sexpSizes : List Sexp → Nat
  | [] => 0
  | x :: xs => sexpSize x + sexpSizes xs
end

/-- `_add_effect(problem, act, types_map, eff)`: every popped item is a distinct subtree, so `size` pops suffice -/
def readEffects (E : REnv) (eff : Sexp) : Option (List Effect) :=
  effLoop E (sexpSize eff + 1) [{ exp := eff, cond := Expr.tt, vars := [] }]

/-! ### actions -/

/-- `_get_params` -/
def readParams (E : REnv) : List (List String × Option String) → Option (List (String × Ty))
  | [] => some []
  | (ns, t) :: gs => do
    let ty ← E.tyOf t
    let rest ← readParams E gs
    some (ns.map (fun n => (n, ty)) ++ rest)

/-- `add_precondition`: `true` is not stored -/
def preList (e : Expr) : List Expr := if e.isTrue then [] else [e]

/-- the optional `:precondition X` then `:effect Y` keys of an action body -/
def actionBody : List Sexp → Option (Option Sexp × Option Sexp)
  | [] => some (none, none)
  | [.atom ":precondition", p] => some (some p, none)
  | [.atom ":effect", e] => some (none, some e)
  | [.atom ":precondition", p, .atom ":effect", e] => some (some p, some e)
  | _ => none

def readAction (E : REnv) : Sexp → Option Action
  | .list (.atom ":action" :: .atom name :: .atom ":parameters" :: .list ps :: body) => do
    let groups ← typedList true ps
    let params ← readParams E groups
    let (pre, eff) ← actionBody body
    let E' := { E with params := some params }
    let pre' ← (match pre with
      | some p => (match p with
          | .list _ => (readExpr E' [] p).map preList        -- nested_expr: the value must be a parenthesised form
          | .atom _ => none)
      | none => some [])
    let effs ← (match eff with
      | some e => (match e with
          | .list _ => readEffects E' e
          | .atom _ => none)
      | none => some [])
    some { name := name, params := params, pre := pre', effs := effs }
  | _ => none

def readActions (E : REnv) : List Sexp → Option (List Action)
  | [] => some []
  | a :: as => do
    let x ← readAction E a
    let xs ← readActions E as
    some (x :: xs)

/-! ### domain sections (the pyparsing grammar fixes their order) -/

structure DomainSecs where
  name : String
  types : List Sexp := []
  hasTypes : Bool := false
  constants : List Sexp := []
  predicates : List Sexp := []
  hasPredicates : Bool := false
  functions : List Sexp := []
  hasFunctions : Bool := false
  actions : List Sexp := []

def takeSection (key : String) : List Sexp → Option (List Sexp) × List Sexp
  | .list (.atom k :: body) :: rest => if k == key then (some body, rest) else (none, .list (.atom k :: body) :: rest)
  | l => (none, l)

def splitDomain : Sexp → Option DomainSecs
  | .list (.atom "define" :: .list [.atom "domain", .atom name] :: secs) =>
    let (_, secs) := takeSection ":requirements" secs
    let (ty, secs) := takeSection ":types" secs
    let (cs, secs) := takeSection ":constants" secs
    let (ps, secs) := takeSection ":predicates" secs
    let (fs, secs) := takeSection ":functions" secs
    -- OneOrMore in the grammar: an empty :types / :predicates / :functions section is a parse error
    if ty == some [] || ps == some [] || fs == some [] then none
    else if secs.all (fun s => match s with | .list (.atom ":action" :: _) => true | _ => false) then
      some { name := name, types := ty.getD [], hasTypes := ty.isSome, constants := cs.getD [],
             predicates := ps.getD [], hasPredicates := ps.isSome, functions := fs.getD [],
             hasFunctions := fs.isSome, actions := secs }
    else none
  | _ => none

/-! ### types -/

/-- `type_declarations` (up_pddl_reader.py:1396): declared type ↦ father name -/
def typeDecls (needed : Bool) : List (List String × Option String) → List (String × Option String) →
    Option (List (String × Option String))
  | [], acc => some acc
  | (ns, f) :: lines, acc =>
    let f0 : Option String := if f.isNone && needed then some "object" else f
    -- within one line: `if declared_type == Object: father_name = None` persists for the rest of the line
    let step : Option (List (String × Option String) × Option String) → String →
        Option (List (String × Option String) × Option String) := fun st d =>
      st.bind (fun (acc, fa) =>
        if acc.any (fun p => p.1 == d) then none
        else
          let fa' := if d == "object" then none else fa
          some (acc ++ [(d, fa')], fa'))
    match ns.foldl step (some (acc, f0)) with
    | some (acc', _) => typeDecls needed lines acc'
    | none => none

/-- the user types the problem ends up with, as (name, father) pairs: declared types with their resolved fathers,
    fathers that are used but never declared (root types created on the fly), and `object` when it is needed.
    (`declare_type`, up_pddl_reader.py:1413; order not modelled — the harness compares the type table sorted) -/
def resolveTypes (needed : Bool) (decls : List (String × Option String)) : List (String × Option String) :=
  let declared (n : String) : Bool := decls.any (fun p => p.1 == n)
  let resolved := decls.map (fun (d, f) =>
    match f with
    | none => (d, none)
    | some g => if declared g then (d, some g)
                else if g == "object" && !needed then (d, none)
                else (d, some g))
  let implicit := (resolved.filterMap (fun p => match p.2 with
    | some g => if declared g then none else some (g, (none : Option String))
    | none => none)).eraseDups
  let objectT : List (String × Option String) :=
    if needed && !declared "object" && !implicit.any (fun p => p.1 == "object") then [("object", none)] else []
  resolved ++ implicit ++ objectT

/-! ### predicates, functions -/

def readSig (E : REnv) : List (List String × Option String) → Option (List Ty)
  | [] => some []
  | (ns, t) :: gs => do
    let ty ← E.tyOf t
    let rest ← readSig E gs
    some (ns.map (fun _ => ty) ++ rest)

def allNames (gs : List (List String × Option String)) : List String := gs.flatMap (·.1)

def readPredicate (E : REnv) : Sexp → Option FluentRef
  | .list (.atom n :: ps) => do
    let gs ← typedList true ps
    let sig ← readSig E gs
    some { name := n, ty := .bool, sig := sig }
  | _ => none

/-- `(f ?x - t) [- number | - type]` items of the `:functions` section -/
def readFunctions (E : REnv) : List Sexp → Option (List FluentRef)
  | [] => some []
  | .list (.atom n :: ps) :: .atom "-" :: .atom rt :: rest => do
    let gs ← typedList true ps
    if (allNames gs).eraseDups.length != (allNames gs).length then none
    let sig ← readSig E gs
    let ty ← (if rt == "number" then some (Ty.real none none) else E.tyOf (some rt))
    let more ← readFunctions E rest
    some ({ name := n, ty := ty, sig := sig } :: more)
  | .list (.atom n :: ps) :: rest => do
    let gs ← typedList true ps
    if (allNames gs).eraseDups.length != (allNames gs).length then none
    let sig ← readSig E gs
    let more ← readFunctions E rest
    some ({ name := n, ty := .real none none, sig := sig } :: more)
  | _ => none

def readObjects (E : REnv) : List (List String × Option String) → Option (List (String × String))
  | [] => some []
  | (ns, t) :: gs => do
    let n := t.getD "object"
    if !E.types.contains n then none
    let rest ← readObjects E gs
    some (ns.map (fun o => (o, n)) ++ rest)

/-! ### action costs -/

def totalCostRef : FluentRef := { name := "total-cost", ty := .real none none, sig := [] }
def totalCost : Expr := .app (.fluent totalCostRef) []

def mentions (tc : Expr) (e : Expr) : Bool := (Expr.fluentExps e).contains tc

/-- `_instantaneous_action_has_cost` -/
def actionHasCost (tc : Expr) (a : Action) : Bool :=
  a.pre.all (fun c => !mentions tc c) &&
  a.effs.all (fun e => !(mentions tc e.value || mentions tc e.cond) &&
    (if e.fluent == tc then e.kind == .increase && e.cond.isTrue else true))

def isZero : Expr → Bool
  | .leaf (.intC 0) => true
  | .leaf (.realC r) => r == 0
  | _ => false

/-- split off the first effect on `total-cost`: (its value, the remaining effects) -/
def extractCost (tc : Expr) : List Effect → Option Expr × List Effect
  | [] => (none, [])
  | e :: es =>
    if e.fluent == tc then (some e.value, es)
    else
      let (c, r) := extractCost tc es
      (c, e :: r)

/-! ### the problem file -/

structure ProblemSecs where
  name : String
  objects : List Sexp := []
  init : List Sexp := []
  goal : Option Sexp := none
  metric : Option (String × Sexp) := none

def splitProblem : Sexp → Option ProblemSecs
  | .list (.atom "define" :: .list [.atom "problem", .atom name] :: .list [.atom ":domain", .atom _] :: secs) =>
    let (_, secs) := takeSection ":requirements" secs
    let (os, secs) := takeSection ":objects" secs
    match takeSection ":init" secs with
    | (some init, secs) =>
      let (goal, secs) := takeSection ":goal" secs
      let (metric, secs) := takeSection ":metric" secs
      if !secs.isEmpty then none
      else
        match goal, metric with
        | some [g], none => some { name := name, objects := os.getD [], init := init, goal := some g }
        | some [g], some [.atom opt, m] =>
          if opt == "minimize" || opt == "maximize" then
            some { name := name, objects := os.getD [], init := init, goal := some g, metric := some (opt, m) }
          else none
        | _, _ => none            -- a classical problem without goal: SyntaxError("Missing goal section")
    | (none, _) => none
  | _ => none

/-- `problem.set_initial_value`: a dictionary assignment (a repeated key keeps its place, takes the new value) -/
def setInit (init : List (Expr × Expr)) (f v : Expr) : List (Expr × Expr) :=
  if init.any (fun p => p.1 == f) then init.map (fun p => if p.1 == f then (f, v) else p) else init ++ [(f, v)]

def isDigitish (s : String) : Bool :=
  let cs := s.toList
  let cs' := match splitAtDot cs with
    | (a, some b) => a ++ b
    | (a, none) => a
  !cs'.isEmpty && cs'.all Char.isDigit

def readInit (E : REnv) : List Sexp → List (Expr × Expr) → Option (List (Expr × Expr))
  | [], acc => some acc
  | it :: rest, acc =>
    match it with
    | .list [.atom "=", x, y] => do
      let f ← readExpr E [] x
      let v ← readExpr E [] y
      if isFluentExp f then readInit E rest (setInit acc f v) else none
    | .list (.atom "=" :: _) => none
    | .list (.atom "oneof" :: _) => none
    | .list (.atom "or" :: _) => none
    | .list (.atom "unknown" :: _) => none
    | .list [.atom "at", .atom t, z] =>
      if isDigitish t then none                                           -- timed initial literal: not modelled
      else (readExpr E [] (.list [.atom "at", .atom t, z])).bind (fun e =>
        if isFluentExp e then readInit E rest (setInit acc e Expr.tt)
        else match e with
          | .app .not [f] => if isFluentExp f then readInit E rest acc else none
          | _ => none)
    | .list _ =>
      (readExpr E [] it).bind (fun e =>
        if isFluentExp e then readInit E rest (setInit acc e Expr.tt)
        else match e with
          | .app .not [f] => if isFluentExp f then readInit E rest acc else none
          | _ => none)
    | .atom _ => none

/-! ### the whole reader -/

def fluentDecl (f : FluentRef) : FluentDecl :=
  { ref := f, default := if f.ty == .bool then some Expr.ff else none }   -- initial_defaults = {Bool: FALSE}

def pddlReadLower (dom prob : Sexp) : Option Problem := do
  let D ← splitDomain dom
  let Q ← splitProblem prob
  -- typed lists of the domain
  let typeLines ← (if D.hasTypes then typedList false D.types else some [])
  let constGroups ← typedList false D.constants
  let predGroups ← D.predicates.mapM (fun p => match p with
    | .list (.atom _ :: ps) => typedList true ps
    | _ => none)
  let funGroups ← (D.functions.filterMap (fun p => match p with
    | .list (.atom _ :: ps) => some ps
    | _ => none)).mapM (typedList true)
  let actGroups ← D.actions.mapM (fun a => match a with
    | .list (.atom ":action" :: .atom _ :: .atom ":parameters" :: .list ps :: _) => typedList true ps
    | _ => none)
  -- `_check_if_object_type_is_needed` (repaired: the objects of the problem file count too)
  let objGroups ← typedList false Q.objects
  let needed := (predGroups ++ funGroups ++ [constGroups] ++ actGroups ++ [objGroups]).any groupsNeedObject
  let decls ← typeDecls needed typeLines []
  -- a type that is its own father, or an undeclarable cycle, is a SyntaxError / RecursionError in the reader
  if decls.any (fun p => p.2 == some p.1) then none
  let types := resolveTypes needed decls
  let tmap := types.map (·.1)
  let E0 : REnv := { types := tmap, fluents := [], objects := [], params := none }
  let preds ← D.predicates.mapM (readPredicate E0)
  let funs ← readFunctions E0 D.functions
  let fluents := preds ++ funs
  let hasTC := funs.any (fun f => f.name == "total-cost")
  -- `self._totalcost = FluentExp(f)` raises for a `total-cost` function with parameters
  if funs.any (fun f => f.name == "total-cost" && !f.sig.isEmpty) then none
  let tc : Expr := match funs.find? (fun f => f.name == "total-cost") with
    | some f => .app (.fluent f) []
    | none => totalCost
  if fluents.map (·.name) |>.eraseDups |>.length |> (· != fluents.length) then none
  let consts ← readObjects E0 constGroups
  let E1 : REnv := { E0 with fluents := fluents, objects := consts }
  let actions ← readActions E1 D.actions
  let costOk1 := hasTC && actions.all (actionHasCost tc)
  -- problem file
  let objs ← readObjects E0 objGroups
  let objects := consts ++ objs
  if objects.map (·.1) |>.eraseDups |>.length |> (· != objects.length) then none
  let E2 : REnv := { E1 with objects := objects }
  let initItems := (match Q.init with
    | [.list (.atom "and" :: items)] => items
    | l => l)
  let init ← readInit E2 initItems []
  let goalE ← (match Q.goal with
    | some (.list g) => readExpr E2 [] (.list g)
    | _ => none)
  let goals := preList goalE
  let costOk := costOk1 && (match init.lookup tc with
      | some v => isZero v
      | none => false) && goals.all (fun g => !mentions tc g)
  match Q.metric with
  | none =>
    some { name := Q.name, types := { fathers := types }, objects := objects, fluents := fluents.map fluentDecl,
           init := init, actions := actions, goals := goals, traj := [], metrics := [] }
  | some (opt, m) =>
    match m with
    | .atom _ => none
    | .list [.atom "total-time"] => if opt == "minimize" then none else none      -- MinimizeMakespan: not modelled
    | .list ml => do
      let me ← readExpr E2 [] (.list ml)
      if costOk && opt == "minimize" && me == tc then
        let split := actions.map (fun a => (a, extractCost tc a.effs))
        let actions' := split.map (fun (a, (_, effs)) => { a with effs := effs })
        let costs := split.filterMap (fun (a, (c, _)) => c.map (fun v => (a.name, v)))
        let planLength := split.all (fun (_, (c, _)) => c == some (Expr.int 1))
        some { name := Q.name, types := { fathers := types }, objects := objects,
               fluents := (fluents.filter (fun f => f.name != "total-cost")).map fluentDecl,
               init := init.filter (fun p => p.1 != tc), actions := actions', goals := goals, traj := [],
               metrics := [if planLength then .minLength else .minActionCosts costs (some (Expr.int 0))] }
      else
        some { name := Q.name, types := { fathers := types }, objects := objects, fluents := fluents.map fluentDecl,
               init := init, actions := actions, goals := goals, traj := [],
               metrics := [if opt == "minimize" then .minFinal me else .maxFinal me] }

/-- `UPPDDLReader.parse_problem_string` on the tokenised texts -/
def pddlRead (dom prob : Sexp) : Option Problem := pddlReadLower (lowerSexp dom) (lowerSexp prob)

/-! ### plans — `parse_plan_string` with `get_item_named` (sequential plans) -/

/-- `nto_renamings` -/
abbrev Inv := String → Option NameKey

def readPlanAction (inv : Inv) (a : String) : Option String :=
  match inv (lowerStr a) with
  | some (.action n) => some n
  | _ => none                                                            -- assert isinstance(action, Action)

def readPlanObj (inv : Inv) : Sexp → Option String
  | .atom s =>
    match inv (lowerStr s) with
    | some (.obj n) => some n
    | _ => none                                                          -- assert isinstance(obj, Object)
  | .list _ => none

def readPlanStep (inv : Inv) : Sexp → Option (String × List String)
  | .list (.atom a :: os) => do
    let an ← readPlanAction inv a
    let objs ← os.mapM (readPlanObj inv)
    some (an, objs)
  | _ => none

def readPlan (inv : Inv) (steps : List Sexp) : Option (List (String × List String)) := steps.mapM (readPlanStep inv)

end UPVerif.Pddl
