import UPVerif.Core.Oversub
/-
Executable model of the refine loop `InterpretedFunctionsPlanner._solve`
(unified_planning/engines/interpreted_functions_planner.py:132-212), Mathlib-free.

ABSTRACT parameters (not modelled here, see Props/C31.lean for the hypotheses put on them):

* `solveAt i K` - lines 153-162 of iteration `i`: `InterpretedFunctionsRemover(knowledge).compile(problem)`,
  `self.engine.solve(compiled)` and `res.plan.replace_action_instances(comp_res.map_back_action_instance)`
  as ONE function of the iteration number and the knowledge, returning the status of the underlying planner
  and the plan already mapped back to the original problem (the call index makes the model cover
  history-dependent underlying planners);
* `validate p` - lines 163-183: the plan validator on the ORIGINAL problem: verdict (`status == VALID`) and
  `calculated_interpreted_functions`.

`timeout=None` (lines 147-152 not modelled).  Keys `K` = ground interpreted-function applications,
values `V` = constants; the knowledge is a Python dict, modelled as an association list with distinct keys in
insertion order.
-/
namespace UPVerif.IFPlanner
open UPVerif.Oversub (Status Answer)

/-- `d[k] = v` on an insertion-ordered dict -/
def setKey {K V : Type} [DecidableEq K] (k : K) (v : V) : List (K × V) → List (K × V)
  | [] => [(k, v)]
  | (k', v') :: rest => if k' = k then (k, v) :: rest else (k', v') :: setKey k v rest

/-- `knowledge.update(validation_result.calculated_interpreted_functions)` (line 191) -/
def update {K V : Type} [DecidableEq K] (know : List (K × V)) (new : List (K × V)) : List (K × V) :=
  new.foldl (fun acc kv => setKey kv.1 kv.2 acc) know

inductive Outcome (Plan : Type) where
  /-- a `PlanGenerationResult` was returned -/
  | done (status : Status) (plan : Option Plan)
  /-- `raise UPException("Internal Error: ... was not able to retrieve InterpretedFunctions values")` (lines 192-195) -/
  | noProgress
  /-- `assert res.plan is not None` failed (line 157) -/
  | noPlan
  /-- the model's fuel ran out (never the case with the fuel of `Props.C31.C31_if_terminates`) -/
  | outOfFuel

/-- the `while True` loop; returns the outcome and the number of iterations started -/
def loop {K V Plan : Type} [DecidableEq K]
    (solveAt : Nat → List (K × V) → Answer Plan) (validate : Plan → Bool × List (K × V)) :
    Nat → Nat → List (K × V) → Outcome Plan × Nat
  | 0, i, _ => (.outOfFuel, i)
  | fuel + 1, i, know =>
    let res := solveAt i know
    if res.status.isPositive then
      match res.plan with
      | none => (.noPlan, i + 1)
      | some p =>
        let v := validate p
        if v.1 then (.done res.status (some p), i + 1)
        else
          let know' := update know v.2
          if know'.length > know.length then loop solveAt validate fuel (i + 1) know'
          else (.noProgress, i + 1)
    else (.done res.status none, i + 1)

/-- `_solve`: starts with `knowledge = {}` -/
def solve {K V Plan : Type} [DecidableEq K]
    (solveAt : Nat → List (K × V) → Answer Plan) (validate : Plan → Bool × List (K × V)) (fuel : Nat) :
    Outcome Plan × Nat :=
  loop solveAt validate fuel 0 []

end UPVerif.IFPlanner
